"""Per-property shard plans for /verif/check. Each entry:
  title, rule (how cases are generated / what is distinct+non-trivial), assumptions,
  shards(tier, seed) -> list of shard specs:
     dict(bin=..., flavour=native|release|uring|tsan|asan|asan_uring, kind=native|miri,
          args=[...], timeout=secs, serial=bool, name=..., env={...}, miriflags=...)
"""

NCPU = 16


def _n(tier, q, t):
    return t if tier == "thorough" else q


def sharded(bin_, n, timeout, flavour="native", extra=None, name=None, serial=False):
    return [dict(bin=bin_, flavour=flavour, args=["--shard", "%d/%d" % (i, n)] + (extra or []), timeout=timeout,
                 name="%s-%s-%d" % (name or bin_, flavour, i), serial=serial) for i in range(n)]


def miri(bin_, name, args, miriflags="-Zmiri-disable-isolation", timeout=5400, env=None):
    """A shard executed by `cargo +nightly miri run` (thorough tier only: the first Miri shard of a run also compiles the
    harness for Miri, 5-12 min). Reports (Undefined Behavior, data race, deadlock) become violations in the driver."""
    e = {"VH_SLOW": "300"}
    e.update(env or {})
    return dict(bin=bin_, kind="miri", miriflags=miriflags, args=args, timeout=timeout, name=name, env=e)


PROPS = {}

PROPS["C03"] = dict(
    title="ZMTP framing round-trips and is independent of how the stream is cut",
    rule="random frame sequences (lengths biased to 0/1/2/254..257/65535..65537/70000, all MORE/COMMAND flag combinations, "
         "1..8 frames x 1..4 messages); each is encoded by every rzmq encoder entry point and compared byte-for-byte with an "
         "independent reference encoder, then decoded by every rzmq decoder entry point under segmentations (all single cuts, "
         "all pairs for small streams, byte-at-a-time, every header offset, random multi-cuts). evaluations = encoder comparisons + "
         "(stream, segmentation, decoder) triples + slice-decoder prefix probes; distinct_nontrivial = distinct frame-shape sequences",
    assumptions=["the reference encoder/decoder in harness/src/refzmtp.rs is a correct reading of RFC 23/37",
                 "MAXMSGSIZE=-1 here; limits are exercised under C07"],
    shards=lambda tier, seed: sharded("c03", _n(tier, 4, 16), _n(tier, 240, 1500))
    + ([dict(bin="c03", flavour="release", args=["--shard", "0/1"], timeout=1500, name="c03-release")]
       + sharded("c03", 2, 2400, flavour="asan", extra=["--tier", "quick"], name="c03-asan") if tier == "thorough" else []),
    min_evaluations={"quick": 10000, "thorough": 100000},
)

PROPS["C05"] = dict(
    title="Handshakes converge, agree, and give one verdict on compatibility",
    rule="(a) two real engines joined by harness-owned byte queues; per configuration (mechanism x fault {none, bad secret, mechanism "
         "mismatch} x socket-type pair x routing ids {absent,1B,255B}) the schedules lock-step, one-byte-alternating, A-all-then-B, "
         "B-all-then-A and N seeded random chunkings; a case is distinct by (config, schedule, delivered chunk trace). "
         "(b) the complete 11x11 socket-type verdict table over v3, v2 (both roles) and 8x8 over inproc with real sockets, compared for "
         "symmetry, cross-transport equality and against the RFC pairing table. (c) real sockets over tcp/ipc: both monitors must agree.",
    assumptions=["engine-level 'both end in failure' treats a Closed engine as EOF for its peer (what the session actor does)",
                 "RFC 23/28-31 pairing table in refzmtp::rfc_compatible"],
    shards=lambda tier, seed: sharded("c05", _n(tier, 8, 16), _n(tier, 300, 1800))
    + [dict(bin="c05", args=["--only", "table"], timeout=600, name="c05-table"),
       dict(bin="c05", args=["--only", "stack"], timeout=600, name="c05-stack")],
    min_evaluations={"quick": 500, "thorough": 5000},
)

PROPS["C06"] = dict(
    title="A configured security mechanism cannot be bypassed or downgraded",
    rule="victim engine config derived through the real option path (PLAIN/CURVE/NOISE_XX x listener/connector x ALLOW_ZMTP2 "
         "default/false x socket type); attacker scripts = greeting (revision {0,2,3.0,3.1,4,255} x mechanism field {NULL,PLAIN,CURVE,"
         "NOISE_XX,BOGUS} x as-server bit, or a ZMTP/2.0 greeting) followed by every token sequence up to depth k (k=4 quick, 6 thorough) "
         "over 16 tokens, explored depth-first and pruned where the engine has closed (extensions of a closed prefix are equivalent); "
         "each script is played whole-token and byte-at-a-time; plus replay of a recorded honest transcript against a fresh engine. "
         "Oracle after every engine call: no HandshakeComplete, no DeliverMessage, phase != Data. A positive control (honest peer "
         "completes) runs per configuration. Stack layer: raw tcp attacker against real secured listeners and connectors (including "
         "near-miss PLAIN passwords). Creds layer: PLAIN server engines with the configured pair 'admin'/'secret', 1-2 character pairs and "
         "random printable pairs; HELLO with every proper prefix, four extensions, every single-byte change (xor 01/20/80) of the password "
         "and of the user name, empty fields, swapped fields - none may be admitted; the exact pair must be (else inconclusive). Partial layer: "
         "option sets that switch a mechanism on without its usual companions (a CURVE secret key with neither CURVE_SERVER nor a server key, "
         "PLAIN credentials without PLAIN_SERVER, PLAIN_SERVER without credentials, NOISE_XX with a secret key but no pinned remote key) x "
         "listener/connector x ALLOW_ZMTP2 default/false: whatever mechanism such an endpoint announces in its own greeting is the one no "
         "peer may bypass (same grammar, depth 3).",
    assumptions=["the attacker does not know the random per-shard credentials / secret keys",
                 "a PLAIN transcript replay is not an attack in scope (it contains the valid credentials)"],
    shards=lambda tier, seed: sharded("c06", _n(tier, 8, 16), _n(tier, 300, 2400))
    + sharded("c06", _n(tier, 4, 8), _n(tier, 300, 1800), extra=["--only", "stack"], name="c06-stack")
    + sharded("c06", 2, 300, extra=["--only", "creds"], name="c06-creds")
    + sharded("c06", 4, 600, extra=["--only", "partial"], name="c06-partial"),
    min_evaluations={"quick": 2000, "thorough": 20000},
)

PROPS["C18"] = dict(
    title="Encrypted connections keep data secret, detect tampering, and stay decodable",
    rule="CURVE and NOISE_XX engine pairs (both directions): (1) messages of sizes {0,1,31,255,256,4096,65000,65500,65519,65520,65536,"
         "70000,+random} and small-message batches totalling >64 KiB through on_app_message and frame_batch: a 32-byte marker must not "
         "appear in the bytes sent and whatever was encoded without error must decode to the same frames; (2) heartbeats (on_tick) on an "
         "encrypted link must be decodable; (3) single mutations (bit flips: every bit of the first 3 records sampled 1/5 in quick, all "
         "in thorough; drop/duplicate/swap every record; cut at byte positions; junk injection; forged well-framed records of 0/1/15/16/17/48 bytes in front of every record) and sampled double mutations: the "
         "receiver may deliver only a prefix of the original messages and must end Closed unless the mutation is a pure truncation; "
         "(4) repeated sessions with identical static keys must not produce identical first ciphertext. (stack) real PUSH->PULL over tcp and "
         "DEALER->ROUTER over ipc under CURVE and NOISE_XX: 300 x 1 KiB bursts (which the session coalesces into batches far beyond one 64 KiB "
         "record), mixed bursts with a 70 000-byte message, single messages of 65 000..200 000 bytes, 4-frame messages of 50 KB: every message "
         "send() accepted must arrive exactly once, in order, byte-exact; and a reader that stalls for 2 s with heartbeats (100 ms) on the reader, "
         "the sender or both (small kernel buffers, HWM 10, so that sealed records wait in the egress buffer while PINGs/PONGs are sealed): once it "
         "reads again everything accepted must arrive and the link must not have dropped. distinct = (mech, direction, case).",
    assumptions=["cryptographic strength itself is out of scope; only observable consequences are checked",
                 "a pure truncation is indistinguishable from a slow link at engine level, so only 'prefix delivered' is required there"],
    shards=lambda tier, seed: sharded("c18", 16, _n(tier, 300, 1800))
    + sharded("c18", 4, 600, extra=["--only", "stack"], name="c18-stack")
    + (sharded("c18", 4, 2400, flavour="asan", extra=["--tier", "quick"], name="c18-asan") if tier == "thorough" else []),
    min_evaluations={"quick": 1000, "thorough": 5000},
)

PROPS["C19"] = dict(
    title="Heartbeats detect dead peers and never kill live ones",
    rule="(engine) real engines in the data phase driven in real time (IVL/TIMEOUT pairs 10/30, 20/20, 8/60, 30/10, 15/45 ms) through "
         "seeded timelines of sleep / tick / inbound data / outbound write / PONG / peer PING (contexts 0..20 bytes) / bursts of 2..5 peer PINGs with distinct contexts in one read / malformed PING/"
         "PONG events, v3 and v2; a trace-specification monitor keeps (last activity, outstanding PING) from the events it injected and "
         "judges every on_tick/on_network_bytes output (PING too early / missing, close too early / missing, PONG count and context, any "
         "heartbeat output on v2) with a 1.5 ms undecided band around each threshold; distinct = distinct timelines. (pair) the monitored "
         "engine talks to a second real engine under NULL / PLAIN / CURVE / NOISE_XX so that PING/PONG pass through the mechanism's framer; the "
         "harness owns the two ordered byte streams and decides when the peer reads (a peer that never reads is dead), when data flows either "
         "way, when the monitored engine ticks and when the peer (own heartbeat on in a third of the timelines) pings it; same specification, "
         "plus: everything written must be decodable by the peer, a PING from the peer is answered with something it accepts (its next tick "
         "pings again), data messages between heartbeats are conserved. (egress) random "
         "push/push_priority/partial-write histories of EgressBuffer: written bytes must parse as whole chunks, data FIFO, priority "
         "chunks ahead of unstarted data. (session) raw tcp peers that answer PINGs, stay mute, or only send data, against a real ROUTER.",
    assumptions=["engine activity stamps use the real clock, so timelines run in real time with thresholds judged outside a 1.5 ms band",
                 "session timing bound for a mute peer: 2*IVL+TIMEOUT+1.5 s"],
    shards=lambda tier, seed: sharded("c19", _n(tier, 8, 16), _n(tier, 120, 600))
    + sharded("c19", _n(tier, 4, 8), _n(tier, 120, 600), extra=["--only", "pair"], name="c19-pair")
    + [dict(bin="c19", args=["--only", "egress"], timeout=600, name="c19-egress"),
       dict(bin="c19", args=["--only", "session"], timeout=300, name="c19-session", serial=True)],
    min_evaluations={"quick": 500, "thorough": 5000},
)

PROPS["C07"] = dict(
    title="No byte stream from a peer can crash rzmq or make it buffer without bound",
    rule="(engine) man-in-the-middle on live engine-pair handshakes and data exchanges for NULL/PLAIN/CURVE/NOISE_XX x victim role x "
         "MAXMSGSIZE {-1,0,64,1Mi}: a quarter of the chunks delivered to the victim are mutated (bit flip, truncate, length-field "
         "extremes {0,255,256,2^31,2^63,2^64-1}, duplicate, junk injection, invalid UTF-8, reorder, random bytes) under random read "
         "segmentation, plus hostile data-phase streams (>255 MORE frames, extreme headers, command garbage, reserved flag bits, "
         "trickled frames at the limit); after every engine call: panic hook (process-wide) and buffer_len bound. (limits) frames of "
         "limit-1/limit/limit+1 bytes against all six decoder entry points and against engines after a ZMTP/2.0 handshake (listener, connector); "
         "a frame larger than MAXMSGSIZE announced after the greeting and before READY must be refused at its header. (session) a hostile raw peer beside a healthy PUSH on a real "
         "PULL over tcp/ipc with the C01 oracle on the healthy stream. (pacing) silent / greeting-then-silent / drip-feeding peers against "
         "HANDSHAKE_IVL=500 ms, and MAX_CONNECTIONS slot release; a peer dripping one byte every 3 s and a greeting-then-silent peer against a "
         "listener whose HANDSHAKE_IVL is left at its default (gone within 40 s). distinct = (layer, config, mutation list / stream).",
    assumptions=["a panic is attributed to rzmq when its location or backtrace runs through /repo/core or xs_foundation",
                 "pacing bound: disconnected within 3*HANDSHAKE_IVL+1 s"],
    shards=lambda tier, seed: sharded("c07", _n(tier, 8, 16), _n(tier, 300, 2400))
    + [dict(bin="c07", args=["--only", "limits"], timeout=300, name="c07-limits")]
    + sharded("c07", _n(tier, 4, 8), _n(tier, 300, 1200), extra=["--only", "session"], name="c07-session")
    + sharded("c07", 7, 180, extra=["--only", "pacing"], name="c07-pacing")
    + (sharded("c07", 4, 2400, flavour="asan", extra=["--tier", "quick"], name="c07-asan")
       + [dict(bin="c07", flavour="asan", args=["--tier", "quick", "--only", "limits"], timeout=1200, name="c07-asan-limits")]
       + sharded("c07", 2, 2400, flavour="asan", extra=["--tier", "quick", "--only", "session"], name="c07-asan-session") if tier == "thorough" else []),
    min_evaluations={"quick": 1000, "thorough": 10000},
)

PROPS["C04"] = dict(
    title="What a connection delivers depends on the bytes sent, not on read boundaries",
    rule="a raw tcp/ipc peer plays a static transcript (v3 NULL, v3 PLAIN in rzmq's dialect, v2; peer as client or as server) = handshake "
         "bytes + 1..6 data messages (single/multipart, some > 255 bytes) against a real rzmq PULL/ROUTER/SUB listener or connector, once "
         "per segmentation: one write, handshake|data, every cut position in [handshake_end-12, handshake_end+12], byte-at-a-time, random "
         "multi-cuts (writes separated by short pauses so that write boundaries become read boundaries); for CURVE/NOISE_XX a facade engine "
         "answers the rzmq connector and the harness writes the server's final READY together with the first data records. Oracle: "
         "recv_multipart() sequence == data messages of the transcript. distinct = (transcript kind, socket, role, transport, backend, segmentation).",
    assumptions=["tcp/ipc write boundaries usually, not always, become read boundaries; the hook counter sca.hs.deliver_in_handshake records how often a data frame really shared a read with handshake bytes",
                 "io_uring backend shards run from the 'uring' build flavour"],
    shards=lambda tier, seed: sharded("c04", _n(tier, 12, 16), _n(tier, 300, 1800))
    + sharded("c04", _n(tier, 4, 8), _n(tier, 300, 1800), flavour="uring", extra=["--uring", "1"], name="c04-uring"),
    min_evaluations={"quick": 100, "thorough": 1000},
)

PROPS["C08"] = dict(
    title="A receiver never sleeps while a message is queued for it (no lost wake-ups)",
    rule="(rpq) short histories on the real ReadyPipeQueue: 1..4 producers (one pipe each) x 3..50 unique items, pipe capacity 1..2, ready-list "
         "capacity {1,2,4,16}, enqueue via async send / try_send / try_send_batch / mixed, 1..2 consumers mixing pop, try_pop and pops cancelled "
         "at their n-th Pending, optional pipe deregistration mid-stream, current-thread / 2 / 4 worker runtimes, seeded perturbation (spin, "
         "yield, sleep) at 12 schedule points between the individual channel-write / counter-update / arm steps. Oracle: popped multiset == "
         "accepted multiset, per-pipe order, no duplicates, and at quiescence queued_count == reserved_count == channel occupancy; a consumer "
         "asleep while a pipe holds items and the ready list is empty is a lost wake-up; items a pipe had accepted before deregister_pipe() was "
         "called must still be popped. (notify) a gate at the point between check and "
         "notified() in LoadBalancer::wait_for_connection and WaitGroup::wait holds the waiter while the condition is made true; the waiter "
         "must complete. distinct = (config, seed). (thorough) four ThreadSanitizer shards of the rpq histories, and eight Miri shards (one "
         "scheduler seed each, 12 tiny histories: 1-2 producers x 3 items, capacity 1-2, all sender kinds and enqueue modes, 1-2 consumers, "
         "2-worker runtime): Miri preempts at random basic blocks, emulates weak memory (stale Relaxed/Acquire loads) and detects data races, "
         "with the same multiset/order/counter oracle. Stacked Borrows is switched off for these shards because the third-party fibre queue "
         "underneath trips it on the first send.",
    assumptions=["interleavings are sampled with widened windows, not enumerated; evidence counts distinct hook-hit orders sampled",
                 "stuck detection uses a 1.5 s no-progress window only after which the (stable) structural predicate is evaluated"],
    shards=lambda tier, seed: sharded("c08", _n(tier, 12, 16), _n(tier, 180, 900))
    + [dict(bin="c08", args=["--only", "notify"], timeout=120, name="c08-notify")]
    + ([dict(bin="c08", flavour="tsan", args=["--shard", "%d/4" % i], timeout=1500, name="c08-tsan-%d" % i) for i in range(4)]
       + [miri("c08", "c08-miri-%d" % i, ["--only", "miri", "--cases", 12, "--first", 4 * i, "--shard", "%d/8" % i],
               miriflags="-Zmiri-disable-isolation -Zmiri-disable-stacked-borrows -Zmiri-seed=%d" % i) for i in range(8)]
       if tier == "thorough" else []),
    min_evaluations={"quick": 500, "thorough": 5000},
)

PROPS["C12"] = dict(
    title="SUB delivers exactly the messages its current subscriptions match",
    rule="(model) random subscribe/unsubscribe histories (1..30 ops, topics of length 0..4 over {00,'a','b',ff}) on the real SubscriptionTrie; "
         "after EVERY op matches() is compared with a reference multiset on the exhaustive probe set (all 341 strings of length <=4 over the "
         "alphabet), get_all_topics and unsubscribe's return value too. (race) 3 matcher threads vs a mutator that never subscribes the probed "
         "family (it only unsubscribes never-subscribed topics and churns others) with the delay point inside unsubscribe's underflow window: "
         "matches() on that family must be false at every instant. (e2e) PUB->1..3 SUB over tcp/inproc/ipc, subscription changes only at "
         "quiescent points delimited by an always-subscribed sentinel, multipart filtered on frame 0 only: received == published filtered by the "
         "reference. (stall) PUB with SNDHWM=4 and 64 KiB messages while raw subscribers handshake and then stop reading / vanish: every "
         "send() returns within 1 s and the reading subscriber gets everything in order. (resume) PUB with SNDTIMEO 0/30/100/200 ms over "
         "inproc/tcp/ipc, a real SUB with RCVHWM 2 that stops reading during a burst of 60 and then reads again, beside a SUB that keeps up: "
         "the stalled one may miss burst messages but must receive all 10 messages published after it resumed; the other must have everything "
         "in order. (announce) the SUB against 1..3 raw publishers that FILTER AT THE SOURCE the way libzmq's PUB does (per connection, last announcement "
         "for a topic wins), over tcp/ipc: random histories of subscribe/unsubscribe, publishers attaching late and connections being reset; at a "
         "quiescent point after every event each publisher's announced set must equal the model's active set within 1.5 s (a missing one is the "
         "violation, a stale one is only recorded) and a burst of probes filtered by each publisher's own view must reach the application exactly "
         "as the model matches. distinct = histories / (transport, round, subscriber). "
         "(thorough) the race layer again inside Miri (6 scheduler seeds, mutator bounded by 400 operations): data-race detector, default "
         "aliasing model and weak-memory emulation - loads may return stale values x86 never shows - with the same never-covered-family oracle.",
    assumptions=["'when the message reaches it' is made unambiguous by changing subscriptions only between sentinel-delimited bursts",
                 "publisher promptness bound: 1 s per send (the defective path blocks 30 s)"],
    shards=lambda tier, seed: sharded("c12", _n(tier, 4, 8), _n(tier, 300, 1200))
    + [dict(bin="c12", args=["--only", "race"], timeout=300, name="c12-race")]
    + sharded("c12", _n(tier, 3, 6), 600, extra=["--only", "e2e"], name="c12-e2e")
    + sharded("c12", 3, 300, extra=["--only", "stall"], name="c12-stall")
    + sharded("c12", 5, 300, extra=["--only", "resume"], name="c12-resume")
    + sharded("c12", _n(tier, 2, 6), 600, extra=["--only", "announce"], name="c12-announce")
    + sharded("c12", _n(tier, 2, 4), 600, extra=["--only", "contend"], name="c12-contend")
    + ([dict(bin="c12", flavour="tsan", args=["--only", "contend", "--shard", "%d/4" % i], timeout=1500, name="c12-tsan-contend-%d" % i) for i in range(4)]
       + [dict(bin="c12", flavour="tsan", args=["--only", "race"], timeout=1500, name="c12-tsan-race")]
       + [miri("c12", "c12-miri-race-%d" % i, ["--only", "mirirace", "--ops", 400, "--rounds", 2, "--shard", "%d/6" % i],
               miriflags="-Zmiri-disable-isolation -Zmiri-seed=%d" % i) for i in range(6)] if tier == "thorough" else []),
    min_evaluations={"quick": 10000, "thorough": 100000},
)

PROPS["C13"] = dict(
    title="PUSH/DEALER give each message to exactly one ready peer, fairly",
    rule="(model, paused clock - this layer performs no I/O) the real LoadBalancer/OutgoingMessageOrchestrator driven through the facade with "
         "scripted connections (switchable full flag, blocking timeout, acceptance log): fairness histories (1..5 always-ready peers x 1..4 "
         "sender tasks x sync/async path: per-peer counts differ by <= 1 + extra sender tasks), readiness patterns (every peer full at sweep "
         "time, one frees after 1..5 ms, one never: the send must complete when the first peer frees, not at the blocked-on peer's timeout), "
         "churn histories (add/remove/toggle-full/send with one always-ready member: exactly-once, removed peers get nothing, no starvation "
         "within 2n sends), first-peer histories (2..6 sender tasks parked in route_message(wait_for_peer) with no connection, one peer added "
         "after 0..10 ms: every send must complete and be accepted within 60 s of virtual time), rotation histories (one sender, 2..5 peers always "
         "ready, random add/remove between sends, async and sync routing path: between two consecutive deliveries to the same peer every peer "
         "that was a member the whole time receives exactly one message - a removal must not make the rotation skip an idle peer). The single-waiter check-then-park race is decided "
         "under C08. (e2e) 2/4/8 tasks blocked in PUSH.send() before any peer exists, then one PULL connects over tcp/inproc/ipc: all messages "
         "arrive once and all sends return Ok; real PUSH (SNDHWM 8) -> 1..4 PULLs over tcp, optionally "
         "with a raw peer that handshakes and never reads: exactly-once over the readers, no send slower than 1.5 s. distinct = case parameters.",
    assumptions=["property-level invariants, not an exact cursor model: unequal shares among partially ready peers are legitimate",
                 "the paused tokio clock is legitimate here because LoadBalancer/Orchestrator do no I/O"],
    shards=lambda tier, seed: sharded("c13", _n(tier, 4, 8), _n(tier, 300, 1200))
    + sharded("c13", 4, 300, extra=["--only", "e2e"], name="c13-e2e"),
    min_evaluations={"quick": 1000, "thorough": 10000},
)

PROPS["C01"] = dict(
    title="While connected: every accepted message arrives exactly once, in order, intact",
    rule="many short histories: pair in {PUSH->PULL, DEALER->ROUTER, ROUTER(mandatory)->DEALER, REQ<->REP, DEALER<->DEALER, DEALER->REP} x "
         "transport {tcp, ipc, inproc} x SNDHWM/RCVHWM {1,2,3,8,256} x SNDBATCH_COUNT {1,2,8,default} x SNDBATCH_BYTES {64,1Ki,64Ki,default} x "
         "RCVBATCH_* x throttle x TCP_CORK x runtime {current-thread, 4 workers} x first send {before connect(), right after connect(), after "
         "the handshake} x receiver pacing {greedy, 1 ms/msg, stall-burst, starts when the sender blocks} x size family (small, big-among-small, "
         "count limit, logical byte limit, physical byte limit, HWM 1, mixed multipart with empty frames, header boundaries, up to 1 MiB). "
         "Payloads are self-describing (sender, seq, frame idx/count, length, checksum, keyed body); the oracle over the boundary log checks "
         "exactly-once, per-sender order and byte-exact integrity; loss = accepted id still missing after 6 s without progress while the monitor "
         "showed no disconnect (disconnected scenarios are discarded and counted). distinct = (config, seed) with >= 5 accepted messages. "
         "(multisender) 2-3 tasks share one ROUTER(mandatory) or PUSH (clones) and send 40 (120) messages each to the same peer at the same "
         "time over tcp/inproc/ipc with HWM 1/8/1000, all with send_multipart() except - on ROUTER - one task that sends frame by frame with "
         "small pauses inside the open message: same oracle (whole messages, per-task order, exactly once). "
         "(thorough) six Miri shards (one scheduler seed each) of four tiny inproc histories (PUSH->PULL, ROUTER->DEALER, REQ<->REP, "
         "DEALER->ROUTER; 6 messages, HWM 1/8, 2-worker runtime): the whole socket stack under Miri's data-race detector, random preemption and "
         "weak-memory emulation, same oracle (Stacked Borrows off: the third-party fibre queue trips it).",
    assumptions=["'accepted' means send() returned Ok; a failed/cancelled send stays open (may or may not arrive)",
                 "loss is bounded progress: 6 s without any delivery after the sender stopped"],
    shards=lambda tier, seed: sharded("c01", _n(tier, 14, 16), _n(tier, 300, 1500))
    + sharded("c01", 4, 600, extra=["--only", "multisender"], name="c01-multisender")
    + ([miri("c01", "c01-miri-%d" % i, ["--only", "miri", "--cases", 4, "--first", 4 * i, "--shard", "%d/6" % i],
             miriflags="-Zmiri-disable-isolation -Zmiri-disable-stacked-borrows -Zmiri-seed=%d" % i, env={"VH_SLOW": "100"}) for i in range(6)]
       if tier == "thorough" else []),
    max_parallel=14,
    min_evaluations={"quick": 100, "thorough": 1000},
)

PROPS["C02"] = dict(
    title="Multipart messages stay whole, contiguous and correctly flagged",
    rule="(styles) 1..3 sender peers -> one receiver of type PULL/SUB/DEALER/ROUTER/REP/REQ over tcp/inproc/ipc, messages of 1..255 frames "
         "(empty frames anywhere, sizes 0/1/7/39/255/256/257 plus one self-describing frame), sent with send_multipart or frame by frame; the "
         "receiver reads with recv() only, recv_multipart() only, or a random mix; everything obtained is flattened into one frame stream that "
         "must parse (at frames without MORE) into exactly the sent messages, whole, per-peer order preserved. (detach) a 6-frame message is "
         "half read with recv(), then ANOTHER peer attaches / closes / is killed (waited for on the monitor), then reading continues. "
         "(oversize) 255/256/300 frames via send_multipart and frame-by-frame on PUSH/DEALER/PUB/ROUTER: an error at the sender or a closed "
         "connection, never a panic (caller's task included) and never a truncated delivery; the receiver must still serve a healthy peer. "
         "(multisender; the c01 binary's layer, shared with C01) 2-3 tasks on clones of one ROUTER / PUSH send to the same peer at once, one "
         "ROUTER task frame by frame with pauses inside the open message: every message must arrive whole - no foreign frame inside it. "
         "(fbmodel) FrameBatch, the container every multipart message travels in (2 inline slots, then a 255-slot vector over hand-written "
         "unsafe code), driven through its public API by random operation sequences (push/pop/insert/remove/extend/iter_mut/last_mut/clone/"
         "into_iter/from/index, lengths 0..255) and compared with a Vec after every step - natively (600 histories) and, thorough tier, inside "
         "Miri with its default aliasing model (4 shards x 50 histories). "
         "distinct = (receiver, style, transport, peers, shapes).",
    assumptions=["ROUTER.send_multipart is given correctly flagged frames, as its documentation demands",
                 "DEALER senders are paced (15 ms) because DEALER egress ordering is a recorded C01 finding"],
    shards=lambda tier, seed: sharded("c02", _n(tier, 12, 16), _n(tier, 300, 1800))
    + [dict(bin="c02", args=["--only", "fbmodel"], timeout=600, name="c02-fbmodel")]
    + sharded("c01", 4, 600, extra=["--only", "multisender"], name="c02-multisender")
    + ([miri("c02", "c02-miri-fbmodel-%d" % i, ["--only", "fbmodel", "--histories", 50, "--ops", 40, "--shard", "%d/4" % i],
             miriflags="-Zmiri-disable-isolation -Zmiri-seed=%d" % i) for i in range(4)] if tier == "thorough" else []),
    min_evaluations={"quick": 60, "thorough": 400},
)

PROPS["C10"] = dict(
    title="REQ and REP enforce strict alternation for every call history",
    rule="(histories) one REQ (peers: 1..3 echo REP servers) or one REP (peers: 1..3 clients that keep requests coming) driven by 1..8 tasks on "
         "clones of the socket, each issuing random send/recv/recv_multipart/send_multipart calls (4..16 ops), over tcp/inproc/ipc, on "
         "current-thread and 4-worker runtimes, with seeded perturbation at the check-then-act points; every call is logged at the client "
         "boundary (call tick, return tick, result) from one logical clock and the successful operations must admit a linearisation "
         "(respecting real-time order) that alternates send,recv,.. (REQ) / recv,send,.. (REP) - exhaustive search, histories <= 24 ops. "
         "(gate) one task is held between the state check and the state update until a second has passed the check. (routing) a lock-step REP "
         "with 3 clients (REQ and DEALER) echoes requests; each client must receive exactly the echoes of its own requests. (parked reply) REP "
         "with SNDHWM 1 and SNDTIMEO 300/800/1500 ms over tcp/ipc, peer A a DEALER that keeps requesting and never reads its 512 KiB replies "
         "until a send() parks, peer B a REQ whose request another task receives while the send is parked; after the parked send has failed and "
         "A reads again, the next reply must reach B and A must only ever see replies to its own requests. "
         "(refused send) REP that never reads (RCVHWM 2), REQ with SNDHWM 2, RCVTIMEO 10 ms, SNDTIMEO 0/20 ms over inproc/tcp/ipc: after a send() refused "
         "with would-block/timeout, recv() must be invalid-state at once and two retries must be refused the same way, never as invalid-state. "
         "distinct = (configuration, result vector) with >= 2 successful operations.",
    assumptions=["a timed-out or failed call is treated as not having taken effect only if the linearisation of successful calls still exists without it"],
    shards=lambda tier, seed: sharded("c10", _n(tier, 8, 16), _n(tier, 240, 900))
    + [dict(bin="c10", args=["--only", "gate"], timeout=300, name="c10-gate")]
    + ([dict(bin="c10", flavour="tsan", args=["--tier", "quick", "--shard", "%d/4" % i], timeout=1800, name="c10-tsan-%d" % i) for i in range(4)] if tier == "thorough" else []),
    min_evaluations={"quick": 100, "thorough": 1000},
)

PROPS["C11"] = dict(
    title="ROUTER addresses by true peer identity; envelopes round-trip unchanged",
    rule="one ROUTER with 1..4 peers (DEALER / REQ / ROUTER) whose routing ids are absent, 1 byte, 255 bytes, distinct or colliding, over "
         "tcp/inproc/ipc, AUTO_DELIMITER on both ends {1,0}, ROUTER_MANDATORY {1,0}, first message sent in the same instant as connect() or "
         "after the handshake, ROUTER read with recv_multipart or frame by frame. Payload shapes are all 30 empty/non-empty patterns of 1..4 "
         "frames; every payload names its true sender and intended recipient. Checked: identity prefix == announced id (never a placeholder, "
         "never another peer's; stable for anonymous peers), payload frame lists equal in both directions, a message addressed to I reaches "
         "only claimants of I, unknown id -> HostUnreachable (mandatory) / silent drop to nobody (non-mandatory), a new connection with the "
         "same identity is routed to after the old one closed. distinct = scenario configuration. (poll) a ROUTER with ROUTER_MANDATORY read by polling with RCVTIMEO 0 / 1 / 5 ms or blocking while waves of 6 or 16 DEALERs (every fourth anonymous) connect at once over tcp/ipc/inproc and send their first message - the payload names the peer - in the same instant: the identity frame must be the announced identity, the reply to the reported identity must be accepted and reach that very peer. (replace) the peer behind an identity goes away and another peer with a different identity takes its place - on the same endpoint the ROUTER reconnects to (ROUTER as connector) or as a new connection (ROUTER as binder), DEALER and ROUTER peers, tcp/ipc, ROUTER_MANDATORY on/off: a message to the old identity goes to nobody (HostUnreachable / silent drop), one to the new identity arrives, nothing meant for the old identity reaches the replacement. (order) waves of 10 / 24 raw DEALER peers over tcp/ipc each writing greeting, READY with its identity and five numbered messages in ONE write - so that the messages are queued at the ROUTER before the identity is applied - read with RCVTIMEO 0 / 1 ms / blocking: each peer's messages come out in the order written, under the announced identity.",
    assumptions=["with colliding identities either claimant may receive (nothing stricter is stated)",
                 "peers talk to the ROUTER in lock-step because DEALER egress ordering is a recorded C01 finding"],
    shards=lambda tier, seed: sharded("c11", _n(tier, 8, 16), _n(tier, 300, 1200))
    + sharded("c11", _n(tier, 3, 8), 900, extra=["--only", "poll"], name="c11-poll")
    + sharded("c11", 4, 600, extra=["--only", "replace"], name="c11-replace")
    + sharded("c11", 4, 600, extra=["--only", "order"], name="c11-order"),
    min_evaluations={"quick": 100, "thorough": 600},
)

PROPS["C14"] = dict(
    title="High-water marks bound buffering and SNDTIMEO/RCVTIMEO mean what they say",
    rule="(send side) sender in {PUSH, ROUTER(mandatory), DEALER} towards a connected peer that never reads, over tcp/inproc(/ipc), SNDHWM=RCVHWM in "
         "{1,10,100(,2,1000)}, SNDTIMEO in {0,100,-1(,20,500)}, small SO_SNDBUF/SO_RCVBUF and 64 KiB messages on stream transports: every call's "
         "error variant and elapsed time is judged (0: would-block at once; T: timeout/would-block within [T, T+2s]; -1: no error while observed), "
         "the number accepted before the first refusal must stay below 2*SNDHWM+2*RCVHWM+2*batch+transport+16, then the peer drains and the C01 "
         "oracle checks received == accepted and that no refused message ever shows up. (unblock) with -1 a blocked send must complete once the "
         "peer reads. (recv side) recv/recv_multipart on an empty queue for RCVTIMEO in {0,20,100,500,-1} on PULL/SUB/DEALER/ROUTER/REP/REQ; the same with "
         "RCVTIMEO 300 / 150 ms on ROUTER/PULL/DEALER/SUB/REP while silent peers connect (half of them disconnecting again) every 100 / 40 ms "
         "over tcp/ipc: the call must still give up after RCVTIMEO, not when the churn ends. "
         "distinct = (pair, transport, HWM, timeout). (plateau) PUSH/DEALER/ROUTER producers with SNDTIMEO=0 retrying every 2 ms for 4 s against a peer that never reads, 64 KiB messages over tcp/ipc, HWM 10 (thorough: 1, 100), with HEARTBEAT_IVL=100 ms on neither / the receiver / the sender / both: the producer must have been refused, and at most 2 messages may be accepted in the second 2 s - a queue that is still admitting then is growing without bound.",
    assumptions=["generous time bounds (T+2 s late, 15 ms early tolerance); the -1 case is observed for 3 s (quick) / 35 s (thorough)",
                 "kernel buffering is limited with SNDBUF/RCVBUF=32 KiB and counted as 8 messages of 64 KiB"],
    shards=lambda tier, seed: sharded("c14", _n(tier, 10, 16), _n(tier, 420, 2400))
    + sharded("c14", 4, 300, extra=["--only", "recv"], name="c14-recv")
    + sharded("c14", _n(tier, 4, 8), _n(tier, 400, 900), extra=["--only", "plateau"], name="c14-plateau"),
    max_parallel=8,
    min_evaluations={"quick": 40, "thorough": 200},
)

PROPS["C15"] = dict(
    title="LINGER governs what happens to accepted messages at close",
    rule="sender in {PUSH, ROUTER, DEALER, PUB} (own context) queues N accepted messages (0 / 200 / 3000 / 5000x4 KiB = beyond kernel buffers) "
         "towards a reading peer (fast or slow) over tcp/ipc/inproc, then close() / term() / close()+term() / handle drop + term() with "
         "LINGER in {-1, 0, 10 s (, 50 ms, 1 s)}. The C01 integrity oracle runs on what the peer received (never truncated, corrupt or "
         "duplicated); completeness is required when LINGER is -1 or 10 s; close/term wall time must be prompt for LINGER 0 (< 3 s) and must "
         "not exceed LINGER + 12 s otherwise. distinct = (sender, transport, LINGER, depth, how, reader pace). "
         "(settled) the sender's side taken out of the picture: a burst of <= 48 KiB (20..300 messages) is accepted by PUSH / ROUTER over tcp/ipc, "
         "the sender waits 0.7 s so that its session has written everything, then close / term / close+term / drop+term with LINGER in "
         "{-1,0,100 ms,10 s}; the receiver has RCVHWM in {1,5,50(,2,20,100)} and RCVBATCH_COUNT {default,1,4} and either starts reading only "
         "after the close has returned or reads at 2-5 ms per message, so that accepted messages are still parked in the receiving session "
         "and per-pipe queue when the peer's end-of-stream arrives: every accepted message must still be received, exactly once and intact. "
         "(bounded) PUSH / ROUTER / PUB over inproc with a backlog towards a peer that never reads (RCVHWM 4), LINGER 0 / 300 / 1000 (/ 50) ms, "
         "close(): the call returns promptly and the peer's monitor reports the disconnect within LINGER + 2 s - a bounded LINGER expires.",
    assumptions=["'ample' LINGER = 10 s for at most 20 MB over loopback", "PUB may legitimately drop, so completeness is not required of it",
                 "DEALER loss/reorder is recorded under C01 and not re-judged here"],
    shards=lambda tier, seed: sharded("c15", _n(tier, 12, 16), _n(tier, 600, 3000))
    + sharded("c15", _n(tier, 4, 8), _n(tier, 600, 1800), extra=["--only", "settled"], name="c15-settled")
    + sharded("c15", 3, 600, extra=["--only", "bounded"], name="c15-bounded"),
    max_parallel=8,
    min_evaluations={"quick": 30, "thorough": 300},
)

PROPS["C16"] = dict(
    title="close() and term() always finish and leave nothing running or hanging",
    rule="chaos histories on a 4-worker runtime: 1..3 bound/connected socket pairs of all eight types in one context over tcp/ipc/inproc with "
         "HWM in {1,4,100}, each socket driven by looping send / recv / set_option+get_option tasks (so sends block at HWM and recvs block on "
         "empty queues), optionally a connector retrying against a dead port and a raw peer stalled mid-handshake; after a seeded delay "
         "(0..150 ms) term() alone, close() on all or half the sockets then term(), or close() and term() concurrently. Assertions: returned "
         "within 30 s and not via term's internal 10 s timeout, no panic, every worker loop ends within 4 s (operations on closed sockets "
         "return), probes send()/recv() return within 2 s, endpoints of closed binders can be bound again within 2 s, live-actor count 0, no "
         "inproc names left, tokio alive tasks and /proc/self/fd back to their pre-history values within 3 s. distinct = plan. "
         "(rpqclose) the real ReadyPipeQueue through the facade: 1..3 pop() calls parked before / started after close(), with 0..2 sender "
         "handles of registered pipes (all three socket-level sender kinds) still alive: every pop must return. (attachrace) recv() and "
         "recv_multipart() blocked without timeout on SUB/PULL/DEALER/ROUTER/REP while a tcp/ipc connection is attaching (0..4 ms sweep) and "
         "close()+term() or term() alone run: both calls must have returned 5 s after term() did. (closeonly) close() alone, no term(): a "
         "PUSH/DEALER/REQ/SUB/ROUTER/PULL with 1..3 connects to tcp ports / ipc paths nobody listens on (RECONNECT_IVL 10/50/100 ms), optionally "
         "one live peer, closed together with the last connect() (join!), right after it, 0..3 ms or 5..120 ms later, on a current-thread and a "
         "4-worker runtime; then listeners are started on the old targets: nobody may connect; within 3 s live actors and registered sockets "
         "must be 0 and tokio alive tasks back to the pre-case value; send() on the closed socket and term() return promptly. (manysockets) one "
         "context holding 300 / 420 / 600 (270, 1000) idle sockets of all eight types, optionally some bound to inproc names and one live inproc "
         "PUSH/PULL pair: term() must return promptly (every stopping socket publishes on the 256-slot context-wide bus, so a socket can miss the "
         "termination request), no handle may still answer, live actors 0, no task left. (thorough only) the chaos and attachrace "
         "layers again under ThreadSanitizer (all wall-clock bounds x10), whose 10x slowdown widens the windows between the actors; TSan reports "
         "are attributed by sanparse.py.",
    assumptions=["task/fd baselines are taken inside the same runtime just before each history",
                 "under a sanitizer flavour the pipe descriptors of the sanitizer's external symbolizer are not counted as the library's"],
    shards=lambda tier, seed: sharded("c16", _n(tier, 8, 16), _n(tier, 300, 1500))
    + [dict(bin="c16", args=["--only", "rpqclose"], timeout=300, name="c16-rpqclose")]
    + sharded("c16", _n(tier, 2, 4), 900, extra=["--only", "attachrace"], name="c16-attachrace")
    + sharded("c16", _n(tier, 4, 8), _n(tier, 600, 1800), extra=["--only", "closeonly"], name="c16-closeonly")
    + sharded("c16", _n(tier, 3, 5), 600, extra=["--only", "manysockets"], name="c16-manysockets")
    + ([dict(bin="c16", flavour="tsan", args=["--tier", "quick", "--shard", "%d/4" % i], timeout=1500, name="c16-tsan-%d" % i) for i in range(4)]
       + [dict(bin="c16", flavour="tsan", args=["--tier", "quick", "--only", "attachrace", "--cases", 120, "--shard", "%d/4" % i], timeout=1500, name="c16-tsan-attachrace-%d" % i) for i in range(4)]
       if tier == "thorough" else []),
    max_parallel=8,
    min_evaluations={"quick": 40, "thorough": 400},
)

PROPS["C17"] = dict(
    title="One connection's failure stays local; lost outbound connections come back",
    rule="(arith) the real ReconnectState on the complete grid RECONNECT_IVL {1,10,100,1000 ms} x RECONNECT_IVL_MAX {0, IVL, 250 ms, 60 s} x "
         "attempts 0..100 (first >= IVL, never 0, <= MAX when set, growth <= 2x, non-decreasing, reset after success). (isolate) a bound PULL "
         "(NULL or PLAIN) over tcp/ipc whose healthy PUSH carries 300 sequenced messages (C01 oracle) while a raw peer injects one fault on "
         "another connection: garbage greeting, garbage after handshake, wrong socket type, wrong credentials, NULL to a PLAIN listener, RST, "
         "half-close, oversized frame, or a burst of 400 connect/disconnects (event bus capacity is 256); afterwards the socket's API must "
         "answer and a new honest peer must be served. (inproc) a connector of an incompatible type is refused and the binder must still serve a "
         "compatible one. (reconnect) a raw listener accepts and drops: gaps between the PUSH's connect attempts must be >= IVL, <= IVL_MAX + "
         "slack, grow at most 2x + slack; then a real PULL takes the port and traffic must resume. (refused) nobody listens on the target, so every "
         "connect() is refused and the connecter's own retry loop paces the attempts: the interval each ConnectRetried monitor event announces "
         "and the wall-clock gaps between the events, for (IVL, IVL_MAX) in {(100,0),(100,250),(100,1000),(50,400),(200,200),(300,700)(,(10,35),"
         "(100,150),(250,2000))}: never above IVL_MAX (+150 ms on the clock), never below IVL, growth <= 2x, constant when IVL_MAX=0; then a "
         "PULL binds the port and traffic must start. (churn) a bound PULL with a healthy PUSH peer from another context carrying sequenced "
         "traffic while OTHER sockets of the PULL's context are created, bound / connected to a dead port, and closed in a loop (back to back, or "
         "every 5 / 20 ms) for 3 (6) s with get_option() on the PULL every 0 / 200 us / 5 ms: its API must answer, the healthy connection must "
         "stay up with a complete stream, a new peer must be served. (strays) a polled PULL (RCVTIMEO 0 / 2 / 50 ms) with a healthy PUSH peer, "
         "32 or 4 tasks calling get_option() and 16 stray non-ZeroMQ clients (HTTP request, TLS hello, one byte, nothing) over tcp/ipc on a "
         "4-worker runtime: same three verdicts. distinct = scenario.",
    assumptions=["reconnect slack 350 ms (the passive reconnect runs on a 100 ms maintenance tick)"],
    shards=lambda tier, seed: [dict(bin="c17", args=["--only", "arith"], timeout=120, name="c17-arith")]
    + sharded("c17", _n(tier, 8, 16), _n(tier, 300, 1200))
    + sharded("c17", 6, 300, extra=["--only", "reconnect"], name="c17-reconnect")
    + sharded("c17", _n(tier, 6, 9), 300, extra=["--only", "refused"], name="c17-refused")
    + sharded("c17", _n(tier, 4, 6), _n(tier, 300, 900), extra=["--only", "churn"], name="c17-churn")
    + sharded("c17", 4, 600, extra=["--only", "strays"], name="c17-strays"),
    max_parallel=10,
    min_evaluations={"quick": 1000, "thorough": 1500},
)

PROPS["C09"] = dict(
    title="Dropping a send or recv future is safe at every await point",
    rule="one operation's future is polled by hand and dropped at its n-th Pending (n = 1..4 quick, 1..10 thorough) while the event it waits "
         "for races with it (peer starts sending / starts reading after 0/25(/3/80) ms): recv()/recv_multipart() on PULL/SUB/DEALER/ROUTER with a "
         "peer sending single and 3-frame messages; send()/send_multipart() on PUSH/ROUTER/DEALER/PUB blocked at HWM 1 against a peer that "
         "reads later; ROUTER frame-by-frame send with the last frame's send() dropped; REQ send/recv and REP recv with the peer acting later; a "
         "fifth of the cases with SNDTIMEO/RCVTIMEO 40 ms (internal cancellation). Afterwards normal traffic continues and the C01/C02 oracle "
         "over the whole frame stream checks nothing lost, duplicated or torn, the cancelled message is all-or-nothing, and the next valid calls "
         "succeed. (drain) backlogs of 300-600 messages on PULL/SUB/DEALER/ROUTER over tcp/ipc/inproc drained with poll-once-and-drop "
         "(every receive future dropped at its first Pending, 50..1000 receives inside one task poll so that the task's cooperative budget "
         "runs out mid-drain): the stream must stay complete and in order. distinct = (socket, op, transport, n, delay, timeout); evidence lists the cancellation points reached.",
    assumptions=["poll counts depend on scheduling; the set of cancellation points reached per (socket, op) is reported as measured",
                 "DEALER egress loss/reorder is recorded under C01 and not re-judged here"],
    shards=lambda tier, seed: sharded("c09", _n(tier, 14, 16), _n(tier, 600, 3000)),
    max_parallel=14,
    min_evaluations={"quick": 60, "thorough": 500},
)


def _c20_shards(tier, seed):
    cfgs = [(0, 1, 0, 16, 65536), (1, 1, 0, 16, 65536), (0, 0, 0, 8, 16384), (1, 0, 1, 4, 4096)]
    if tier == "thorough":
        cfgs += [(zc, ms, ck, b, sz) for zc in (0, 1) for ms in (0, 1) for ck in (0, 1) for (b, sz) in ((2, 4096), (16, 16384), (8, 65536))][:28]
    out = []
    for i, (zc, ms, ck, b, sz) in enumerate(cfgs):
        out.append(dict(bin="c20", flavour="uring", args=["--shard", "%d/%d" % (i, len(cfgs)), "--zc", zc, "--ms", ms, "--cork", ck, "--bufs", b, "--bufsize", sz],
                        timeout=900 if tier == "quick" else 2400, name="c20-zc%d-ms%d-ck%d-%dx%d" % (zc, ms, ck, b, sz)))
    if tier == "thorough":
        # valgrind memcheck on the plain io_uring build (uninitialised reads in the buffer-ring / send-pool code are invisible to ASan)
        zc, ms, ck, b, sz = cfgs[3]
        out.append(dict(bin="c20", flavour="uring", valgrind=True, args=["--tier", "quick", "--shard", "0/1", "--zc", zc, "--ms", ms, "--cork", ck, "--bufs", b, "--bufsize", sz],
                        timeout=3600, name="c20-memcheck-uring"))
        zc, ms, ck, b, sz = cfgs[1]
        out.append(dict(bin="c20", flavour="asan_uring", args=["--tier", "quick", "--shard", "0/1", "--zc", zc, "--ms", ms, "--cork", ck, "--bufs", b, "--bufsize", sz],
                        timeout=3000, name="c20-asan-uring"))
    return out


PROPS["C20"] = dict(
    title="The io_uring backend is observably equivalent to the Tokio backend",
    rule="one process per UringConfig (zero-copy x multishot x cork x send/recv pools of 2..16 buffers of 4..64 KiB; 4 configs quick, 28 thorough). "
         "Each scenario runs twice with the same seed, on default sockets and on sockets with IO_URING_SESSION_ENABLED, and the observable "
         "outcomes are compared: streaming PUSH->PULL / DEALER->ROUTER / ROUTER->DEALER with sizes below/at/above the buffer size and the "
         "16 KiB zero-copy threshold, HWM {2,16,1000}, fast or slow reader (accepted count, C01 oracle verdict, error kinds); nine handshake "
         "scenarios (compatible, incompatible type, PLAIN ok / bad password / vs NULL, raw garbage, raw ZMTP/2.0, raw >255 MORE frames, raw "
         "peer stalled mid-greeting: handshake events, delivery, whether rzmq closed the connection); two hostile peers that keep sending twice the "
         "ring's size in chunks after a bad greeting, followed by a healthy PUSH->PULL pair that must deliver as on tokio (ring buffers given back); "
         "then 60/300 connect-send-close cycles "
         "with RST peers on the io_uring backend; finally the registered-send-pool gauge must be 0 and /proc/self/fd back to its baseline. "
         "distinct = (scenario, seed).",
    assumptions=["kernel-side io_uring behaviour is whatever this VM's kernel does",
                 "for a DEALER sender both backends share the recorded C01 egress defect, so only integrity verdicts are compared there"],
    shards=_c20_shards,
    max_parallel=4,
    min_evaluations={"quick": 40, "thorough": 300},
)

"""Per-property shard plans for /verif/check. Each entry:
  title, rule (how cases are generated / what is distinct+non-trivial), assumptions,
  shards(tier, seed) -> list of shard specs:
     dict(bin=..., flavour=native|release|uring|tsan|asan|asan_uring, kind=native|miri,
          args=[...], timeout=secs, serial=bool, name=..., env={...}, miriflags=...)
"""

NCPU = 16


def _n(tier, q, t):
    return t if tier == "thorough" else q


def sharded(bin_, n, timeout, flavour="native", extra=None, name=None, serial=False):
    return [dict(bin=bin_, flavour=flavour, args=["--shard", "%d/%d" % (i, n)] + (extra or []), timeout=timeout,
                 name="%s-%s-%d" % (name or bin_, flavour, i), serial=serial) for i in range(n)]


PROPS = {}

PROPS["C03"] = dict(
    title="ZMTP framing round-trips and is independent of how the stream is cut",
    rule="random frame sequences (lengths biased to 0/1/2/254..257/65535..65537/70000, all MORE/COMMAND flag combinations, "
         "1..8 frames x 1..4 messages); each is encoded by every rzmq encoder entry point and compared byte-for-byte with an "
         "independent reference encoder, then decoded by every rzmq decoder entry point under segmentations (all single cuts, "
         "all pairs for small streams, byte-at-a-time, every header offset, random multi-cuts). evaluations = encoder comparisons + "
         "(stream, segmentation, decoder) triples + slice-decoder prefix probes; distinct_nontrivial = distinct frame-shape sequences",
    assumptions=["the reference encoder/decoder in harness/src/refzmtp.rs is a correct reading of RFC 23/37",
                 "MAXMSGSIZE=-1 here; limits are exercised under C07"],
    shards=lambda tier, seed: sharded("c03", _n(tier, 4, 16), _n(tier, 240, 1500))
    + ([dict(bin="c03", flavour="release", args=["--shard", "0/1"], timeout=1500, name="c03-release")] if tier == "thorough" else []),
    min_evaluations={"quick": 10000, "thorough": 100000},
)

PROPS["C05"] = dict(
    title="Handshakes converge, agree, and give one verdict on compatibility",
    rule="(a) two real engines joined by harness-owned byte queues; per configuration (mechanism x fault {none, bad secret, mechanism "
         "mismatch} x socket-type pair x routing ids {absent,1B,255B}) the schedules lock-step, one-byte-alternating, A-all-then-B, "
         "B-all-then-A and N seeded random chunkings; a case is distinct by (config, schedule, delivered chunk trace). "
         "(b) the complete 11x11 socket-type verdict table over v3, v2 (both roles) and 8x8 over inproc with real sockets, compared for "
         "symmetry, cross-transport equality and against the RFC pairing table. (c) real sockets over tcp/ipc: both monitors must agree.",
    assumptions=["engine-level 'both end in failure' treats a Closed engine as EOF for its peer (what the session actor does)",
                 "RFC 23/28-31 pairing table in refzmtp::rfc_compatible"],
    shards=lambda tier, seed: sharded("c05", _n(tier, 8, 16), _n(tier, 300, 1800))
    + [dict(bin="c05", args=["--only", "table"], timeout=600, name="c05-table"),
       dict(bin="c05", args=["--only", "stack"], timeout=600, name="c05-stack")],
    min_evaluations={"quick": 500, "thorough": 5000},
)

PROPS["C06"] = dict(
    title="A configured security mechanism cannot be bypassed or downgraded",
    rule="victim engine config derived through the real option path (PLAIN/CURVE/NOISE_XX x listener/connector x ALLOW_ZMTP2 "
         "default/false x socket type); attacker scripts = greeting (revision {0,2,3.0,3.1,4,255} x mechanism field {NULL,PLAIN,CURVE,"
         "NOISE_XX,BOGUS} x as-server bit, or a ZMTP/2.0 greeting) followed by every token sequence up to depth k (k=4 quick, 6 thorough) "
         "over 16 tokens, explored depth-first and pruned where the engine has closed (extensions of a closed prefix are equivalent); "
         "each script is played whole-token and byte-at-a-time; plus replay of a recorded honest transcript against a fresh engine. "
         "Oracle after every engine call: no HandshakeComplete, no DeliverMessage, phase != Data. A positive control (honest peer "
         "completes) runs per configuration. Stack layer: raw tcp attacker against real secured listeners and connectors.",
    assumptions=["the attacker does not know the random per-shard credentials / secret keys",
                 "a PLAIN transcript replay is not an attack in scope (it contains the valid credentials)"],
    shards=lambda tier, seed: sharded("c06", _n(tier, 8, 16), _n(tier, 300, 2400))
    + sharded("c06", _n(tier, 4, 8), _n(tier, 300, 1800), extra=["--only", "stack"], name="c06-stack"),
    min_evaluations={"quick": 2000, "thorough": 20000},
)

PROPS["C18"] = dict(
    title="Encrypted connections keep data secret, detect tampering, and stay decodable",
    rule="CURVE and NOISE_XX engine pairs (both directions): (1) messages of sizes {0,1,31,255,256,4096,65000,65500,65519,65520,65536,"
         "70000,+random} and small-message batches totalling >64 KiB through on_app_message and frame_batch: a 32-byte marker must not "
         "appear in the bytes sent and whatever was encoded without error must decode to the same frames; (2) heartbeats (on_tick) on an "
         "encrypted link must be decodable; (3) single mutations (bit flips: every bit of the first 3 records sampled 1/5 in quick, all "
         "in thorough; drop/duplicate/swap every record; cut at byte positions; junk injection) and sampled double mutations: the "
         "receiver may deliver only a prefix of the original messages and must end Closed unless the mutation is a pure truncation; "
         "(4) repeated sessions with identical static keys must not produce identical first ciphertext. distinct = (mech, direction, case).",
    assumptions=["cryptographic strength itself is out of scope; only observable consequences are checked",
                 "a pure truncation is indistinguishable from a slow link at engine level, so only 'prefix delivered' is required there"],
    shards=lambda tier, seed: sharded("c18", 16, _n(tier, 300, 1800)),
    min_evaluations={"quick": 1000, "thorough": 5000},
)

PROPS["C19"] = dict(
    title="Heartbeats detect dead peers and never kill live ones",
    rule="(engine) real engines in the data phase driven in real time (IVL/TIMEOUT pairs 10/30, 20/20, 8/60, 30/10, 15/45 ms) through "
         "seeded timelines of sleep / tick / inbound data / outbound write / PONG / peer PING (contexts 0..20 bytes) / malformed PING/"
         "PONG events, v3 and v2; a trace-specification monitor keeps (last activity, outstanding PING) from the events it injected and "
         "judges every on_tick/on_network_bytes output (PING too early / missing, close too early / missing, PONG count and context, any "
         "heartbeat output on v2) with a 1.5 ms undecided band around each threshold; distinct = distinct timelines. (egress) random "
         "push/push_priority/partial-write histories of EgressBuffer: written bytes must parse as whole chunks, data FIFO, priority "
         "chunks ahead of unstarted data. (session) raw tcp peers that answer PINGs, stay mute, or only send data, against a real ROUTER.",
    assumptions=["engine activity stamps use the real clock, so timelines run in real time with thresholds judged outside a 1.5 ms band",
                 "session timing bound for a mute peer: 2*IVL+TIMEOUT+1.5 s"],
    shards=lambda tier, seed: sharded("c19", _n(tier, 8, 16), _n(tier, 120, 600))
    + [dict(bin="c19", args=["--only", "egress"], timeout=600, name="c19-egress"),
       dict(bin="c19", args=["--only", "session"], timeout=300, name="c19-session", serial=True)],
    min_evaluations={"quick": 500, "thorough": 5000},
)

PROPS["C07"] = dict(
    title="No byte stream from a peer can crash rzmq or make it buffer without bound",
    rule="(engine) man-in-the-middle on live engine-pair handshakes and data exchanges for NULL/PLAIN/CURVE/NOISE_XX x victim role x "
         "MAXMSGSIZE {-1,0,64,1Mi}: a quarter of the chunks delivered to the victim are mutated (bit flip, truncate, length-field "
         "extremes {0,255,256,2^31,2^63,2^64-1}, duplicate, junk injection, invalid UTF-8, reorder, random bytes) under random read "
         "segmentation, plus hostile data-phase streams (>255 MORE frames, extreme headers, command garbage, reserved flag bits, "
         "trickled frames at the limit); after every engine call: panic hook (process-wide) and buffer_len bound. (limits) frames of "
         "limit-1/limit/limit+1 bytes against all six decoder entry points. (session) a hostile raw peer beside a healthy PUSH on a real "
         "PULL over tcp/ipc with the C01 oracle on the healthy stream. (pacing) silent / greeting-then-silent / drip-feeding peers against "
         "HANDSHAKE_IVL=500 ms, and MAX_CONNECTIONS slot release. distinct = (layer, config, mutation list / stream).",
    assumptions=["a panic is attributed to rzmq when its location or backtrace runs through /repo/core or xs_foundation",
                 "pacing bound: disconnected within 3*HANDSHAKE_IVL+1 s"],
    shards=lambda tier, seed: sharded("c07", _n(tier, 8, 16), _n(tier, 300, 2400))
    + [dict(bin="c07", args=["--only", "limits"], timeout=300, name="c07-limits")]
    + sharded("c07", _n(tier, 4, 8), _n(tier, 300, 1200), extra=["--only", "session"], name="c07-session")
    + sharded("c07", 5, 120, extra=["--only", "pacing"], name="c07-pacing"),
    min_evaluations={"quick": 1000, "thorough": 10000},
)

PROPS["C04"] = dict(
    title="What a connection delivers depends on the bytes sent, not on read boundaries",
    rule="a raw tcp/ipc peer plays a static transcript (v3 NULL, v3 PLAIN in rzmq's dialect, v2; peer as client or as server) = handshake "
         "bytes + 1..6 data messages (single/multipart, some > 255 bytes) against a real rzmq PULL/ROUTER/SUB listener or connector, once "
         "per segmentation: one write, handshake|data, every cut position in [handshake_end-12, handshake_end+12], byte-at-a-time, random "
         "multi-cuts (writes separated by short pauses so that write boundaries become read boundaries); for CURVE/NOISE_XX a facade engine "
         "answers the rzmq connector and the harness writes the server's final READY together with the first data records. Oracle: "
         "recv_multipart() sequence == data messages of the transcript. distinct = (transcript kind, socket, role, transport, backend, segmentation).",
    assumptions=["tcp/ipc write boundaries usually, not always, become read boundaries; the hook counter sca.hs.deliver_in_handshake records how often a data frame really shared a read with handshake bytes",
                 "io_uring backend shards run from the 'uring' build flavour"],
    shards=lambda tier, seed: sharded("c04", _n(tier, 12, 16), _n(tier, 300, 1800))
    + sharded("c04", _n(tier, 4, 8), _n(tier, 300, 1800), flavour="uring", extra=["--uring", "1"], name="c04-uring"),
    min_evaluations={"quick": 100, "thorough": 1000},
)

PROPS["C08"] = dict(
    title="A receiver never sleeps while a message is queued for it (no lost wake-ups)",
    rule="(rpq) short histories on the real ReadyPipeQueue: 1..4 producers (one pipe each) x 3..50 unique items, pipe capacity 1..2, ready-list "
         "capacity {1,2,4,16}, enqueue via async send / try_send / try_send_batch / mixed, 1..2 consumers mixing pop, try_pop and pops cancelled "
         "at their n-th Pending, optional pipe deregistration mid-stream, current-thread / 2 / 4 worker runtimes, seeded perturbation (spin, "
         "yield, sleep) at 12 schedule points between the individual channel-write / counter-update / arm steps. Oracle: popped multiset == "
         "accepted multiset, per-pipe order, no duplicates, and at quiescence queued_count == reserved_count == channel occupancy; a consumer "
         "asleep while a pipe holds items and the ready list is empty is a lost wake-up. (notify) a gate at the point between check and "
         "notified() in LoadBalancer::wait_for_connection and WaitGroup::wait holds the waiter while the condition is made true; the waiter "
         "must complete. distinct = (config, seed).",
    assumptions=["interleavings are sampled with widened windows, not enumerated; evidence counts distinct hook-hit orders sampled",
                 "stuck detection uses a 1.5 s no-progress window only after which the (stable) structural predicate is evaluated"],
    shards=lambda tier, seed: sharded("c08", _n(tier, 12, 16), _n(tier, 180, 900))
    + [dict(bin="c08", args=["--only", "notify"], timeout=120, name="c08-notify")],
    min_evaluations={"quick": 500, "thorough": 5000},
)

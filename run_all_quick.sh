#!/bin/bash
# usage: run_all_quick.sh <seed> : every property's quick check in sequence, one summary line each (exit codes at the end)
SEED=${1:-1}
cd "$(dirname "$0")"
rc_all=0
for id in C01 C02 C03 C04 C05 C06 C07 C08 C09 C10 C11 C12 C13 C14 C15 C16 C17 C18 C19 C20; do
  out=$(./check $id --tier quick --seed $SEED 2>&1)
  rc=$?
  echo "$out" | grep -E "VIOLATION|what:|INCONCLUSIVE|\] evaluations=" | cut -c1-400
  [ $rc -ne 0 ] && rc_all=1
done
echo "ALL-QUICK seed=$SEED rc=$rc_all"
exit $rc_all

#!/usr/bin/env python3
"""Summarise VH-RESULT lines on stdin (violation signatures, inconclusive, notes, selected counters)."""
import sys, json
for l in sys.stdin:
    if l.startswith('VH-RESULT '):
        d = json.loads(l[len('VH-RESULT '):])
        print('eval', d['evaluations'], 'viol', sorted(set(v['sig'] for v in d['violations'])), 'inconcl', d['inconclusive'][:4], 'notes', d['notes'][:6])
        for v in d['violations'][:int(sys.argv[1]) if len(sys.argv) > 1 else 0]:
            print('   ', v['sig'], '::', v['what'][:500])
    elif 'panic' in l:
        print(l.strip()[:300])

#!/bin/bash
# usage: run_thorough_seq.sh <ID> [<ID> ...] : thorough checks one after another, one summary block each
cd "$(dirname "$0")"
rc_all=0
for id in "$@"; do
  out=$(./check $id --tier thorough 2>&1); rc=$?
  echo "$out" | grep -E "VIOLATION|what:|INCONCLUSIVE|\] evaluations=" | cut -c1-420
  [ $rc -ne 0 ] && rc_all=1
done
echo "THOROUGH-SEQ $* rc=$rc_all"
exit $rc_all

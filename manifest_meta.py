HOOK_COMMITS = ["fbdaa93", "4826fd9", "abac571", "aacbbea"]
NOTES = ("Technique family: runtime monitoring and sanitizers. Every check runs the real rzmq code (rebuilt from /repo's working tree "
         "with --cfg rzmq_verif) under hostile workloads with an oracle observing executions; verdicts are three-valued "
         "(exit 0 held / exit 1 + VIOLATION line / exit 2 + INCONCLUSIVE lines when nothing conclusive was observed). Known findings "
         "are keyed on exact signatures in known_findings.json; fix: commits in /repo are listed there as 'fixed:' entries.")
NOT_APPLICABLE = {}
CLAIMS = {
 "C03": dict(
  technique="differential runtime monitor: every rzmq encoder/decoder entry point vs an independent reference codec over exhaustive/sampled stream cuts",
  level_text="Held on every encoded stream and segmentation explored: all rzmq encoders byte-identical to an RFC-derived reference encoder, all decoders return the encoded frame sequence under all single cuts, all cut pairs (small streams), byte-at-a-time, header-splitting and random multi-cuts. Exploration, exhaustive only for the stated small-stream cut sets.",
  level_note="Trusts harness/src/refzmtp.rs as the reading of RFC 23/37; MAXMSGSIZE=-1 (limits are under C07); frame lengths up to 70000 bytes."),
 "C05": dict(
  technique="engine-pair runtime monitor under seeded delivery schedules + complete socket-type verdict table over v3/v2/inproc + tcp/ipc stack sample",
  level_text="Held (apart from recorded findings) on every configuration x delivery schedule explored: compatible pairs converge and agree (types, identities, data flows both ways), incompatible pairs fail on both sides; the 11x11 verdict table is enumerated completely. Exploration with one finite sub-space enumerated.",
  level_note="Engine-level monitor treats a Closed engine as EOF for its peer; session-level timeouts are exercised under C07."),
 "C06": dict(
  technique="online assertion on every EngineOutput of a secured endpoint fed by a depth-bounded attacker grammar (pruned DFS, byte-wise replays, transcript replay) + raw-tcp attacker against real sockets",
  level_text="Held (apart from recorded findings) for every attacker script explored up to the depth bound: no HandshakeComplete, no DeliverMessage, phase never Data, with an honest-peer positive control per configuration. Exploration; complete only for the token vocabulary and depth stated in the evidence.",
  level_note="Attacker vocabulary is the 16-token grammar in c06.rs; credentials/keys are random per shard and unknown to the attacker; PLAIN's server side needs no secret, so a peer that plays it has completed PLAIN."),
 "C18": dict(
  technique="engine-pair runtime monitor with the harness as wire and attacker: marker search, decode-what-was-encoded, mutation of the ciphertext stream, repeated sessions",
  level_text="Held (apart from recorded findings) on all message sizes, batches, heartbeats and single/double stream mutations explored for CURVE and NOISE_XX in both directions. Exploration.",
  level_note="Cryptographic strength is out of scope; a still-open engine holding an incomplete record after a mutation is not judged (indistinguishable from a slow link at engine level)."),
 "C19": dict(
  technique="real-time trace-specification monitor over seeded heartbeat timelines (raw reference peer; second real engine under NULL/PLAIN/CURVE/NOISE_XX) + EgressBuffer differential model + raw-peer sessions",
  level_text="Held on every timeline explored (PING not early / not missing, close not early / not missing, one PONG with identical context, no heartbeat on v2), on every EgressBuffer history (whole chunks, FIFO, priority ahead) and on live/mute/traffic-only raw peers against a real ROUTER. Exploration.",
  level_note="Thresholds are judged outside a 1.5 ms band because the engine stamps activity with the real clock; io_uring sessions are covered under C20."),
 "C04": dict(
  technique="differential runtime monitor at the socket boundary: one peer transcript replayed under many write segmentations against real sockets (tcp, ipc, io_uring), delivered sequence compared with the transcript's data messages",
  level_text="Held on every (transcript, socket, role, transport, backend, segmentation) explored, including every cut position within 12 bytes of the end of the handshake and the all-in-one write; the hook counter shows how often a data frame really shared a read with handshake bytes. Exploration.",
  level_note="tcp/ipc write boundaries usually, not always, become read boundaries; CURVE/NOISE only with rzmq as connector (a facade engine plays the server)."),
 "C07": dict(
  technique="panic-hook + invariant monitor over man-in-the-middle mutated live handshakes and hostile data streams (engine), limit probes on every decoder entry point, hostile raw peer beside a healthy one on real sockets, drip-feed pacing against HANDSHAKE_IVL",
  level_text="Held on every mutated exchange, hostile stream, limit probe, hostile session and pacing mode explored: no panic attributable to rzmq, buffering within MAXMSGSIZE+header+one read, exact-limit accepted / limit+1 rejected on all six entry points, hostile connection closed while the healthy one keeps its exactly-once stream, never-completing peers disconnected within 3*HANDSHAKE_IVL+1s, slot released. Exploration.",
  level_note="Mutations are random, not coverage-guided; io_uring handshake timing is covered under C20; a panic is attributed to rzmq when its location/backtrace runs through /repo/core or xs_foundation."),
 "C08": dict(
  technique="offline history checker (multiset, per-pipe order, counters at quiescence) over thousands of short ReadyPipeQueue histories with seeded delays at hooked schedule points; gate-forced check/notified() windows for the Notify users; thorough tier repeats the histories under ThreadSanitizer and inside Miri (random preemption, weak-memory emulation, data-race detector)",
  level_text="Held on every history explored: no lost, duplicated or reordered item, counters consistent at quiescence, no consumer asleep with a non-empty pipe outside the ready list; the two Notify waiters complete when the condition becomes true inside the forced window. Exploration of sampled interleavings with widened windows, not enumeration.",
  level_note="The quantifier 'all interleavings' is out of reach for this family; evidence reports how many distinct hook-hit orders were sampled."),
 "C01": dict(
  technique="offline exactly-once / order / integrity checker over client-boundary histories with self-describing payloads, across randomized socket pairs, transports, HWM / batching options, pacing and first-send moments; session batching branch counters as coverage evidence; thorough tier adds Miri (data-race detector, weak-memory emulation) on tiny inproc histories",
  level_text="Held (apart from the recorded DEALER-egress findings) on every history explored: each accepted message received exactly once, byte-exact, in per-sender order while the monitor showed the connection up. Exploration; sizes up to 1 MiB and HWM x batch combinations are sampled, not swept.",
  level_note="'accepted' = send() returned Ok; loss = still missing after 6 s without progress; scenarios whose monitor reports a disconnect are discarded and counted; a send that stays blocked with nothing lost is left to C14."),
 "C12": dict(
  technique="reference-model differential monitor on the real SubscriptionTrie with an exhaustive probe set after every operation; concurrent matcher/mutator race monitor with a delay point; end-to-end PUB/SUB history checker with sentinel-delimited quiescent points; publisher-promptness monitor with stalled raw subscribers; thorough tier repeats the race monitor under ThreadSanitizer and inside Miri",
  level_text="Held (apart from the recorded publisher-blocking finding) on every history explored: matches() equals the reference multiset on all 341 probes after every op, never true for a never-covered family under concurrency, SUBs receive exactly the matching publications in order. Exploration with an exhaustive probe set.",
  level_note="Subscription changes are applied only at quiescent points so that 'when the message reaches it' is unambiguous; promptness bound 1 s per send."),
 "C13": dict(
  technique="property-level invariant monitor over the real LoadBalancer/Orchestrator driven with scripted connections under a paused clock (fairness, readiness patterns, churn) + end-to-end PUSH->PULLs with a stalled raw peer",
  level_text="Held (apart from the recorded wait-on-one-full-peer finding) on every history explored: exactly one peer per accepted message, round-robin spread <= 1 + extra sender tasks with all peers ready, no starvation, no duplicate around add/remove. Exploration.",
  level_note="Invariants, not an exact cursor model (unequal shares among partially ready peers are legitimate); the first-peer waiter race is decided under C08."),
 "C02": dict(
  technique="offline frame-stream checker at the receiving application's boundary (every recv()/recv_multipart() result flattened and parsed at frames without MORE) over randomized multipart shapes, call styles, peer attach/detach events and oversize sends; panic watch including the caller's task; reference-model differential monitor of the FrameBatch container (natively and, thorough tier, inside Miri)",
  level_text="Held (apart from the recorded REQ/REP frame-by-frame-read and PUSH frame-by-frame-send findings) on every history explored: the flattened stream is a concatenation of whole sent messages with MORE on all but the last frame, other peers attaching/detaching/dying mid-message change nothing, and over-long messages are refused with an error, never a panic or a truncated delivery. Exploration.",
  level_note="ROUTER.send_multipart receives correctly flagged frames as documented; DEALER senders are paced because DEALER egress ordering is a recorded C01 finding."),
 "C10": dict(
  technique="linearizability check of client-boundary call histories against the two-state alternation automaton (exhaustive search, histories <= 24 ops) + gate-forced check-then-act windows + reply-routing echo check",
  level_text="Held for sequential histories and for reply routing; for concurrent histories the recorded REQ/REP check-then-act findings apply. Every explored history's successful operations are searched exhaustively for an alternating linearisation. Exploration.",
  level_note="Histories are kept short (4..16 ops) so that the search is exact; a failed or timed-out call is assumed not to have changed state only insofar as the successful calls remain linearisable."),
 "C11": dict(
  technique="labelled-payload monitor at the ROUTER and peer boundaries (identity prefix vs announced id, frame-list equality over all 30 empty/non-empty shapes, claimant-only delivery, mandatory/non-mandatory unknown ids, reconnect with same id)",
  level_text="Held on every scenario explored: prefixes equal announced identities (no placeholder, no foreign id, stable for anonymous peers), payloads unchanged both ways, addressed messages reach only claimants, unknown ids give HostUnreachable / silent drop, a new connection with the same id is routed to. Exploration.",
  level_note="In AUTO_DELIMITER=0 mode frame lists are compared after dropping a leading routing-id frame and leading empty frames (rzmq's manual-mode delimiter conventions are not pinned down by the property); colliding identities: only the non-claimant rule is judged."),
 "C14": dict(
  technique="per-call boundary monitor (error variant + elapsed) against a peer that never reads, bound on accepted-but-undelivered messages, and the C01 conservation oracle once the peer drains; recv-side timeout monitor on empty queues",
  level_text="Held (apart from the recorded DEALER-egress findings) on every (pair, transport, HWM, timeout) explored: SNDTIMEO/RCVTIMEO 0 fail at once with would-block, T>0 fail within [T, T+2 s] with timeout/would-block, -1 does not fail while observed and completes once the peer reads, the accepted count stays under the HWM bound, and nothing refused is delivered later. Exploration with generous time bounds.",
  level_note="A timing regression smaller than the bounds (15 ms early, 2 s late) passes; the -1 observation lasts 3 s in quick and 35 s in thorough (one code path substitutes 30 s)."),
 "C15": dict(
  technique="C01 integrity/completeness oracle at the receiver of a sender that closes with a given LINGER (including bursts that had settled on the wire before the close, towards a late or slow reader with a small RCVHWM), plus wall-clock monitor of close()/term()",
  level_text="Held (apart from recorded findings) on every (sender, transport, LINGER, queued depth, close style, reader pace) explored: nothing truncated, corrupt or duplicated arrives, everything accepted arrives when LINGER is -1 or 10 s, LINGER 0 closes promptly and close/term never outlast LINGER by more than the slack. Exploration with generous time bounds.",
  level_note="'Ample' LINGER is 10 s for at most 20 MB over loopback; PUB completeness is not required; DEALER loss/reorder is recorded under C01."),
 "C16": dict(
  technique="end-of-history assertion monitor over chaos histories (blocked sends/recvs, connect retries, peers stalled mid-handshake, concurrent close/term): return times, panic hook, in-flight call ages, re-bind, live-actor gauge (hook), tokio alive tasks, /proc/self/fd; close()-only histories followed by listeners on the closed socket's old targets; ThreadSanitizer shards in the thorough tier",
  level_text="Held on every chaos history explored: close()/term() return within 30 s and not via term's internal 10 s timeout, no panic, no API call stays in flight for 2 s after term, endpoints of closed binders can be bound again, live actors 0, no inproc names, task and fd counts back to their pre-history values. Exploration of sampled schedules.",
  level_note="Baselines for tasks/fds are taken inside the same runtime just before each history; operations that keep succeeding after close are counted, not judged."),
 "C17": dict(
  technique="C01 traffic oracle on a healthy connection while a raw peer injects faults on other connections of the same socket, API/listener probes afterwards, refused-inproc-connect probe, reconnect-gap monitor at a raw listener, complete-grid check of the back-off arithmetic through the facade",
  level_text="Held on every scenario explored: the healthy stream stays exactly-once and in order under each injected fault (incl. a 400-connection burst), the socket's API answers and its listener serves a new honest peer, a refused inproc connector leaves the binder working, reconnect gaps respect RECONNECT_IVL / IVL_MAX / geometric growth and traffic resumes; the back-off arithmetic is enumerated completely on its grid. Exploration plus one finite sub-space enumerated.",
  level_note="Reconnect gaps are judged with 350 ms slack because the passive reconnect runs on a 100 ms tick; faults are injected one at a time in quick, three at a time in some thorough scenarios."),
 "C09": dict(
  technique="poll-indexed cancellation wrappers (drop at the n-th Pending; drop after being woken, unpolled - what select! does) around public API futures racing with the awaited event, followed by the C01/C02 conservation oracle on the continuing traffic and next-valid-call probes",
  level_text="Held on every (socket, operation, cancellation point, delay, timeout) explored: after the dropped future the stream contains every queued message exactly once and whole, a cancelled send is all-or-nothing, and REQ/REP/DEALER/ROUTER accept the next valid call. Exploration; the evidence lists which cancellation points were actually reached.",
  level_note="The number of Pending polls an operation goes through depends on scheduling (1-2 for most operations here); DEALER egress loss/reorder is recorded under C01 and not re-judged."),
 "C20": dict(
  technique="differential runtime monitor: every scenario executed with the same seed on the tokio and on the io_uring backend inside one process per UringConfig, outcomes compared (C01 oracle verdicts, accepted counts, error kinds, handshake events, whether rzmq closed the connection); conservation gauges at quiescence (hooked send-pool gauge, /proc/self/fd)",
  level_text="Streaming scenarios are observably equal on both backends for every UringConfig explored (zero-copy x multishot x cork x pool sizes, message sizes below/at/above buffer size and the zero-copy threshold); the recorded findings concern hostile/stalled peers, connection churn and fd release on the io_uring backend. Exploration.",
  level_note="Kernel behaviour is this VM's; TSan/Miri cannot observe kernel-written rings, so memory-level evidence for this backend is limited to the ASan shard; DEALER-sender scenarios compare integrity verdicts only (shared C01 defect)."),
}

HOOK_COMMITS = ["fbdaa93", "4826fd9"]
NOTES = ("Technique family: runtime monitoring and sanitizers. Every check runs the real rzmq code (rebuilt from /repo's working tree "
         "with --cfg rzmq_verif) under hostile workloads with an oracle observing executions; verdicts are three-valued "
         "(exit 0 held / exit 1 + VIOLATION line / exit 2 + INCONCLUSIVE lines when nothing conclusive was observed). Known findings "
         "are keyed on exact signatures in known_findings.json; fix: commits in /repo are listed there as 'fixed:' entries.")
NOT_APPLICABLE = {}
CLAIMS = {
 "C03": dict(
  technique="differential runtime monitor: every rzmq encoder/decoder entry point vs an independent reference codec over exhaustive/sampled stream cuts",
  level_text="Held on every encoded stream and segmentation explored: all rzmq encoders byte-identical to an RFC-derived reference encoder, all decoders return the encoded frame sequence under all single cuts, all cut pairs (small streams), byte-at-a-time, header-splitting and random multi-cuts. Exploration, exhaustive only for the stated small-stream cut sets.",
  level_note="Trusts harness/src/refzmtp.rs as the reading of RFC 23/37; MAXMSGSIZE=-1 (limits are under C07); frame lengths up to 70000 bytes."),
 "C05": dict(
  technique="engine-pair runtime monitor under seeded delivery schedules + complete socket-type verdict table over v3/v2/inproc + tcp/ipc stack sample",
  level_text="Held (apart from recorded findings) on every configuration x delivery schedule explored: compatible pairs converge and agree (types, identities, data flows both ways), incompatible pairs fail on both sides; the 11x11 verdict table is enumerated completely. Exploration with one finite sub-space enumerated.",
  level_note="Engine-level monitor treats a Closed engine as EOF for its peer; session-level timeouts are exercised under C07."),
 "C06": dict(
  technique="online assertion on every EngineOutput of a secured endpoint fed by a depth-bounded attacker grammar (pruned DFS, byte-wise replays, transcript replay) + raw-tcp attacker against real sockets",
  level_text="Held (apart from recorded findings) for every attacker script explored up to the depth bound: no HandshakeComplete, no DeliverMessage, phase never Data, with an honest-peer positive control per configuration. Exploration; complete only for the token vocabulary and depth stated in the evidence.",
  level_note="Attacker vocabulary is the 16-token grammar in c06.rs; credentials/keys are random per shard and unknown to the attacker; PLAIN's server side needs no secret, so a peer that plays it has completed PLAIN."),
 "C18": dict(
  technique="engine-pair runtime monitor with the harness as wire and attacker: marker search, decode-what-was-encoded, mutation of the ciphertext stream, repeated sessions",
  level_text="Held (apart from recorded findings) on all message sizes, batches, heartbeats and single/double stream mutations explored for CURVE and NOISE_XX in both directions. Exploration.",
  level_note="Cryptographic strength is out of scope; a still-open engine holding an incomplete record after a mutation is not judged (indistinguishable from a slow link at engine level)."),
 "C19": dict(
  technique="real-time trace-specification monitor over seeded heartbeat timelines + EgressBuffer differential model + raw-peer sessions",
  level_text="Held on every timeline explored (PING not early / not missing, close not early / not missing, one PONG with identical context, no heartbeat on v2), on every EgressBuffer history (whole chunks, FIFO, priority ahead) and on live/mute/traffic-only raw peers against a real ROUTER. Exploration.",
  level_note="Thresholds are judged outside a 1.5 ms band because the engine stamps activity with the real clock; io_uring sessions are covered under C20."),
}

#!/bin/bash
# Runs the repository's pinned baseline with the verif guard OFF and compares with BASELINE.json.
# exit 0 iff every stable_pass test passed.
set -u
cd /repo
export CARGO_NET_OFFLINE=true
unset RUSTFLAGS
OUT=$(mktemp -d /var/tmp/vbase.XXXXXX)
cargo nextest run --workspace --no-fail-fast --tool-config-file pb:/w/lib/nextest.toml --profile pb --test-threads 8 --offline >"$OUT/log" 2>&1
RC=$?
J=$(find /repo/target/nextest/pb -name junit.xml 2>/dev/null | head -1)
python3 - "$J" <<'PY'
import sys, json, xml.etree.ElementTree as ET
j=sys.argv[1]
base=json.load(open('/root/.vp/BASELINE.json'))
want=set(base['stable_pass'])
t=ET.parse(j).getroot()
passed=set(); failed=set()
for ts in t.iter('testsuite'):
    suite=ts.get('name')
    for tc in ts.iter('testcase'):
        name=tc.get('name'); cls=tc.get('classname') or suite
        crate=cls.split('::')[0]
        # nextest classname: "rzmq::tests_binary" or "rzmq" ; testcase name is path within binary
        full_candidates={f"{cls}::{name}", f"{crate}::{name}"}
        bad=any(ch.tag in('failure','error') for ch in tc)
        for f in full_candidates:
            (failed if bad else passed).add(f)
missing=sorted(x for x in want if x not in passed)
print(f"baseline: want={len(want)} passed_in_want={len(want)-len(missing)} missing_or_failed={len(missing)}")
# timing-dependent tests (e.g. stress::test_standard_connection_churn, statistical fairness) are flaky on the
# pristine tree in this sandbox as well: re-run each missing test alone, up to 3 times.
import subprocess
still=[]
for m in missing:
    crate, _, name = m.partition('::')
    ok=False
    for _ in range(3):
        r=subprocess.run(['cargo','nextest','run','--workspace','--offline','-E',f'test(={name})'],cwd='/repo',capture_output=True,text=True)
        if r.returncode==0 and 'PASS' in (r.stdout+r.stderr):
            ok=True; break
    print(("  passed on retry: " if ok else "  NOT PASSED: ")+m)
    if not ok: still.append(m)
tol=base.get('offline_check',{}).get('tolerance',0)
print(f"baseline: still failing after retries={len(still)} (BASELINE.json tolerance={tol})")
sys.exit(1 if len(still)>tol else 0)
PY
R=$?
rm -rf "$OUT"
exit $R

"""Parsing and attribution of ThreadSanitizer / AddressSanitizer reports.

A TSan report has several stacks (the two racing accesses, then allocation / thread-creation stacks). A report is
attributed by the INNERMOST frame of each of the two racing accesses that is not language runtime (core/std/alloc,
sanitizer runtime): if that frame is rzmq code (/repo/core/src) for either access, the race is in rzmq's own memory
accesses and is a violation candidate; if both are inside a third-party crate (tokio, mio, parking_lot ...) operating on
that crate's own objects, the report is about that crate's internal synchronisation (for tokio's I/O driver: the
epoll registration hand-off that TSan cannot see) and is recorded as 'third_party_internal', not judged."""
import re

FRAME_RE = re.compile(r"^\s+#(\d+) (.*?) (/[^ ]+?):(\d+)(?::\d+)? \(")
FRAME_NOPATH_RE = re.compile(r"^\s+#(\d+) (.*?) (?:\S+ )?\(")
RUNTIME_PREFIXES = ("core::", "<core::", "std::", "<std::", "alloc::", "<alloc::", "__tsan", "__rust", "__asan", "__interceptor", "__sanitizer", "memcpy", "memset", "memmove", "malloc", "free", "calloc", "realloc", "posix_memalign")


def _crate_of(path):
    if path.startswith("/repo/core/src"):
        return "rzmq"
    m = re.search(r"/registry/src/[^/]+/([A-Za-z0-9_\-]+?)-\d+\.\d+[^/]*/", path)
    if m:
        return m.group(1)
    if "/rustlib/src/rust/library/" in path or path.startswith("/rustc/"):
        return "rt"
    if path.startswith("/verif/harness"):
        return "harness"
    return "other"


def parse_stack(lines):
    """-> list of (func, path, line, crate)"""
    out = []
    for l in lines:
        m = FRAME_RE.match(l)
        if m:
            out.append((m.group(2), m.group(3), int(m.group(4)), _crate_of(m.group(3))))
    return out


def innermost_user(stack):
    for f in stack:
        func, path, line, crate = f
        if crate == "rt" or func.startswith(RUNTIME_PREFIXES):
            continue
        return f
    return None


def first_in(stack, crate):
    for f in stack:
        if f[3] == crate:
            return f
    return None


def _short(func):
    func = re.sub(r"::\{closure#\d+\}", "", func)
    func = re.sub(r"<[^<>]*>", "", func)
    func = re.sub(r"<[^<>]*>", "", func)
    return func.strip(":<> ")[-70:]


def split_tsan(text):
    """Yield report blocks of a TSan log."""
    blocks = re.split(r"^==================\s*$", text, flags=re.M)
    for b in blocks:
        if "WARNING: ThreadSanitizer" in b:
            yield b


def analyse_tsan(block):
    head = re.search(r"WARNING: ThreadSanitizer: ([^\n(]+)", block).group(1).strip()
    # sections are separated by blank lines; each starts with a description line followed by frames
    sections = []
    cur = None
    for l in block.splitlines():
        if re.match(r"^\s+#\d+ ", l):
            if cur is not None:
                cur[1].append(l)
        elif l.strip():
            cur = [l.strip(), []]
            sections.append(cur)
    access = [s for s in sections if re.match(r"(Previous )?(atomic )?(read|write)|(Previous )?Atomic (read|write)|Read|Write", s[0], re.I) and " of size " in s[0]]
    stacks = [parse_stack(s[1]) for s in access[:2]]
    inner = [innermost_user(s) for s in stacks]
    crates = [(f[3] if f else "none") for f in inner]
    repo_frames = [first_in(s, "rzmq") for s in stacks]
    if head.startswith("data race"):
        if "rzmq" in crates:
            cls = "rzmq"
        elif "harness" in crates and all(c in ("harness", "rt", "none") for c in crates):
            cls = "harness"
        elif "fibre" in crates:
            cls = "fibre"
        else:
            cls = "third_party_internal"
    else:
        # lock-order inversion, thread leak, signal-unsafe ...: attribute by any rzmq frame in the first stacks
        allst = [parse_stack(s[1]) for s in sections[:4]]
        cls = "rzmq" if any(first_in(s, "rzmq") for s in allst) else "third_party_internal"
        inner = [innermost_user(s) for s in allst[:2]]
    parts = []
    for f in inner:
        parts.append("%s:%s" % (f[3], _short(f[0])) if f else "?")
    sig = "sanitizer|tsan|%s|%s" % (head.split()[0] + "_" + head.split()[1] if len(head.split()) > 1 else head, "|".join(sorted(parts)))
    return dict(cls=cls, sig=sig, head=head, inner=[(f[0][:120], "%s:%d" % (f[1], f[2])) if f else None for f in inner],
                via_rzmq=[("%s:%d" % (f[1], f[2])) if f else None for f in repo_frames], text=block[:6000])


def split_asan(text):
    for m in re.finditer(r"==\d+==ERROR: (AddressSanitizer|LeakSanitizer): [^\n]+", text):
        yield text[m.start(): m.start() + 12000]


def analyse_asan(block):
    head = re.search(r"ERROR: (AddressSanitizer|LeakSanitizer): ([^\n]+)", block)
    kind = head.group(2).split()[0]
    lines = block.splitlines()
    # first stack = the faulting access (or first leak allocation)
    st = []
    started = False
    for l in lines[1:]:
        if re.match(r"^\s+#\d+ ", l):
            st.append(l); started = True
        elif started:
            break
    stack = parse_stack(st)
    inner = innermost_user(stack)
    rz = first_in(stack, "rzmq")
    cls = "rzmq" if (inner and inner[3] == "rzmq") or rz else ("harness" if inner and inner[3] == "harness" else "third_party_internal")
    sig = "sanitizer|asan|%s|%s" % (kind, ("%s:%s" % (inner[3], _short(inner[0]))) if inner else "?")
    return dict(cls=cls, sig=sig, head=head.group(0), inner=[(inner[0][:120], "%s:%d" % (inner[1], inner[2]))] if inner else [], via_rzmq=[("%s:%d" % (rz[1], rz[2])) if rz else None], text=block[:6000])


if __name__ == "__main__":
    import sys, collections
    t = open(sys.argv[1]).read()
    c = collections.Counter()
    for b in split_tsan(t):
        a = analyse_tsan(b)
        c[(a["cls"], a["sig"])] += 1
        if "-v" in sys.argv:
            print(a["cls"], a["sig"], a["inner"], a["via_rzmq"])
    for b in split_asan(t):
        a = analyse_asan(b)
        c[(a["cls"], a["sig"])] += 1
    for k, v in c.most_common():
        print(v, k)


# ---- valgrind memcheck -------------------------------------------------------------------------------------------
import re as _re

_MC_HEAD = _re.compile(r"^==\d+== (Invalid (?:read|write) of size \d+|Conditional jump or move depends on uninitialised value\(s\)|"
                       r"Use of uninitialised value of size \d+|Syscall param .* (?:uninitialised|unaddressable) byte\(s\)|"
                       r"Invalid free\(\) / delete / delete\[\] / realloc\(\)|Mismatched free\(\) / delete / delete \[\]|"
                       r"Source and destination overlap in .*|Jump to the invalid address .*|Process terminating with .*)")


def split_memcheck(err):
    """Split valgrind stderr into report blocks (one per error head line)."""
    blocks, cur = [], None
    for line in (err or "").splitlines():
        if _MC_HEAD.match(line):
            if cur:
                blocks.append("\n".join(cur))
            cur = [line]
        elif cur is not None:
            if line.startswith("==") and line.strip().endswith("=="):
                blocks.append("\n".join(cur))
                cur = None
            elif line.startswith("=="):
                cur.append(line)
            else:
                pass
    if cur:
        blocks.append("\n".join(cur))
    return blocks


def analyse_memcheck(block):
    head = _MC_HEAD.match(block.splitlines()[0]).group(1)
    kind = _re.sub(r"of size \d+", "", head).strip()
    frames = _re.findall(r"(?:at|by) 0x[0-9A-F]+: (.+?) \((?:in )?([^)]*)\)", block)
    first_rzmq = next((f for f, _ in frames if "rzmq::" in f), None)
    first_vh = next((f for f, _ in frames if f.startswith("vh::") or _re.match(r"c\d\d::", f)), None)
    if first_rzmq:
        cls, where = "rzmq", first_rzmq
    elif first_vh:
        cls, where = "harness", first_vh
    else:
        cls, where = "third_party_internal", (frames[0][0] if frames else "no-frame")
    where = _re.sub(r"::h[0-9a-f]{16}$", "", where)[:120]
    return dict(cls=cls, sig="sanitizer|memcheck|%s|%s" % (kind[:60], where), head=head, text=block)

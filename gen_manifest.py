#!/usr/bin/env python3
"""Regenerates MANIFEST.json from checks_config.py + manifest_meta.py (single source of truth)."""
import json, os, sys
sys.path.insert(0, os.path.dirname(os.path.abspath(__file__)))
import checks_config as CFG
import manifest_meta as META

ALL = ["C%02d" % i for i in range(1, 21)]
checks = []
for pid in ALL:
    if pid not in CFG.PROPS or pid not in META.CLAIMS:
        continue
    m = META.CLAIMS[pid]
    checks.append({
        "property_id": pid,
        "quick_cmd": "./check %s --tier quick" % pid,
        "thorough_cmd": "./check %s --tier thorough" % pid,
        "evidence_file": "/verif/evidence/%s.json" % pid,
        "replay_cmd_template": "./check %s --replay {path}" % pid,
        "engine": "vh-harness",
        "level_claimed": {"category": "exploration", "text": m["level_text"], "design_ref": m.get("design_ref", "DESIGN.md §4 " + pid)},
        "level_note": m["level_note"],
        "technique": m["technique"],
    })
na = [{"property_id": pid, "reason": META.NOT_APPLICABLE.get(pid, "no check is registered for this property yet (machinery under construction); not claimed")} for pid in ALL if pid not in [c["property_id"] for c in checks]]
man = {
    "version": 1,
    "setup_cmd": "./check --build",
    "hooks": {
        "guard": "rzmq_verif",
        "enable": "RUSTFLAGS=\"--cfg rzmq_verif\" (rustc cfg; every hook statement in /repo/core is #[cfg(rzmq_verif)])",
        "baseline_off_cmd": "./baseline_off.sh",
        "source_commits": META.HOOK_COMMITS,
        "add_only": True,
    },
    "engines": [{"name": "vh-harness", "path": "/verif/harness", "serves_properties": [c["property_id"] for c in checks],
                 "kind_free_text": "Rust harness crate (one shard binary per property) driving the real rzmq code under monitors; python driver /verif/check fans out shards, merges reports, classifies against known_findings.json"}],
    "checks": checks,
    "notes": META.NOTES,
    "not_applicable": na,
}
json.dump(man, open(os.path.join(os.path.dirname(os.path.abspath(__file__)), "MANIFEST.json"), "w"), indent=1)
print("claimed:", [c["property_id"] for c in checks], "not claimed:", [n["property_id"] for n in na])

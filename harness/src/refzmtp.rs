//! Independent reference implementation of the ZMTP 3.x / 2.0 wire format, written from the
//! RFCs (23/ZMTP 3.0, 37/ZMTP 3.1, 15/ZMTP 2.0) — deliberately NOT using any rzmq code.
//! Used as the reference model for framing (C03), transcripts (C04/C06/C07) and parsing what
//! rzmq puts on the wire.

pub const FLAG_MORE: u8 = 0x01;
pub const FLAG_LONG: u8 = 0x02;
pub const FLAG_COMMAND: u8 = 0x04;

#[derive(Clone, Debug, PartialEq, Eq, Hash)]
pub struct Frame {
  pub more: bool,
  pub command: bool,
  pub body: Vec<u8>,
}

impl Frame {
  pub fn data(body: &[u8], more: bool) -> Frame {
    Frame { more, command: false, body: body.to_vec() }
  }
  pub fn cmd(body: &[u8]) -> Frame {
    Frame { more: false, command: true, body: body.to_vec() }
  }
}

/// Encode one frame: short header for 0..=255 bytes, long header (BE u64) above.
pub fn encode_frame(f: &Frame, out: &mut Vec<u8>) {
  let mut flags = 0u8;
  if f.more {
    flags |= FLAG_MORE;
  }
  if f.command {
    flags |= FLAG_COMMAND;
  }
  if f.body.len() <= 255 {
    out.push(flags);
    out.push(f.body.len() as u8);
  } else {
    out.push(flags | FLAG_LONG);
    out.extend_from_slice(&(f.body.len() as u64).to_be_bytes());
  }
  out.extend_from_slice(&f.body);
}

pub fn encode_frames(fs: &[Frame]) -> Vec<u8> {
  let mut v = Vec::new();
  for f in fs {
    encode_frame(f, &mut v);
  }
  v
}

#[derive(Debug, PartialEq, Eq)]
pub enum Dec {
  Frame(Frame, usize),
  NeedMore,
}

/// Decode one frame from the front of `buf`.
pub fn decode_frame(buf: &[u8]) -> Dec {
  if buf.is_empty() {
    return Dec::NeedMore;
  }
  let flags = buf[0];
  let (hdr, len) = if flags & FLAG_LONG != 0 {
    if buf.len() < 9 {
      return Dec::NeedMore;
    }
    let mut l = [0u8; 8];
    l.copy_from_slice(&buf[1..9]);
    (9usize, u64::from_be_bytes(l))
  } else {
    if buf.len() < 2 {
      return Dec::NeedMore;
    }
    (2usize, buf[1] as u64)
  };
  if len > (usize::MAX / 2) as u64 || buf.len() < hdr + len as usize {
    return Dec::NeedMore;
  }
  let body = buf[hdr..hdr + len as usize].to_vec();
  Dec::Frame(Frame { more: flags & FLAG_MORE != 0, command: flags & FLAG_COMMAND != 0, body }, hdr + len as usize)
}

/// Decode as many whole frames as `buf` holds; returns frames and bytes consumed.
pub fn decode_all(buf: &[u8]) -> (Vec<Frame>, usize) {
  let mut off = 0;
  let mut v = Vec::new();
  while let Dec::Frame(f, n) = decode_frame(&buf[off..]) {
    v.push(f);
    off += n;
  }
  (v, off)
}

// ---- greetings -------------------------------------------------------------------------------

pub fn signature() -> [u8; 10] {
  [0xFF, 0, 0, 0, 0, 0, 0, 0, 0x01, 0x7F]
}

/// 64-byte ZMTP 3.x greeting.
pub fn greeting_v3(minor: u8, mechanism: &str, as_server: bool) -> Vec<u8> {
  greeting_raw(3, minor, mechanism.as_bytes(), as_server)
}

pub fn greeting_raw(major: u8, minor: u8, mechanism: &[u8], as_server: bool) -> Vec<u8> {
  let mut g = Vec::with_capacity(64);
  g.extend_from_slice(&signature());
  g.push(major);
  g.push(minor);
  let mut m = [0u8; 20];
  let n = mechanism.len().min(20);
  m[..n].copy_from_slice(&mechanism[..n]);
  g.extend_from_slice(&m);
  g.push(if as_server { 1 } else { 0 });
  g.extend_from_slice(&[0u8; 31]);
  assert_eq!(g.len(), 64);
  g
}

pub const V2_PAIR: u8 = 0;
pub const V2_PUB: u8 = 1;
pub const V2_SUB: u8 = 2;
pub const V2_REQ: u8 = 3;
pub const V2_REP: u8 = 4;
pub const V2_DEALER: u8 = 5;
pub const V2_ROUTER: u8 = 6;
pub const V2_PULL: u8 = 7;
pub const V2_PUSH: u8 = 8;
pub const V2_XPUB: u8 = 9;
pub const V2_XSUB: u8 = 10;

pub fn v2_code(name: &str) -> Option<u8> {
  Some(match name {
    "PAIR" => V2_PAIR,
    "PUB" => V2_PUB,
    "SUB" => V2_SUB,
    "REQ" => V2_REQ,
    "REP" => V2_REP,
    "DEALER" => V2_DEALER,
    "ROUTER" => V2_ROUTER,
    "PULL" => V2_PULL,
    "PUSH" => V2_PUSH,
    "XPUB" => V2_XPUB,
    "XSUB" => V2_XSUB,
    _ => return None,
  })
}

/// ZMTP 2.0 greeting (signature, revision 1, socket type) followed by the identity frame.
pub fn greeting_v2(socket_type: u8, identity: &[u8]) -> Vec<u8> {
  let mut g = Vec::new();
  g.extend_from_slice(&signature());
  g.push(0x01);
  g.push(socket_type);
  encode_frame(&Frame::data(identity, false), &mut g);
  g
}

/// Valid socket-type pairings per RFC 23 section "The Socket Type and Identity" + RFC 28..31.
pub fn rfc_compatible(a: &str, b: &str) -> bool {
  const OK: &[(&str, &str)] = &[
    ("PAIR", "PAIR"),
    ("PUB", "SUB"),
    ("PUB", "XSUB"),
    ("XPUB", "SUB"),
    ("XPUB", "XSUB"),
    ("REQ", "REP"),
    ("REQ", "ROUTER"),
    ("DEALER", "REP"),
    ("DEALER", "DEALER"),
    ("DEALER", "ROUTER"),
    ("ROUTER", "ROUTER"),
    ("PUSH", "PULL"),
  ];
  OK.iter().any(|(x, y)| (*x == a && *y == b) || (*x == b && *y == a))
}

// ---- commands --------------------------------------------------------------------------------

pub fn command_body(name: &str, data: &[u8]) -> Vec<u8> {
  let mut v = Vec::new();
  v.push(name.len() as u8);
  v.extend_from_slice(name.as_bytes());
  v.extend_from_slice(data);
  v
}

pub fn metadata(props: &[(&str, &[u8])]) -> Vec<u8> {
  let mut v = Vec::new();
  for (k, val) in props {
    v.push(k.len() as u8);
    v.extend_from_slice(k.as_bytes());
    v.extend_from_slice(&(val.len() as u32).to_be_bytes());
    v.extend_from_slice(val);
  }
  v
}

pub fn ready(socket_type: &str, identity: Option<&[u8]>) -> Frame {
  let mut props: Vec<(&str, &[u8])> = vec![("Socket-Type", socket_type.as_bytes())];
  if let Some(id) = identity {
    props.push(("Identity", id));
  }
  Frame::cmd(&command_body("READY", &metadata(&props)))
}

pub fn plain_hello(user: &[u8], pass: &[u8]) -> Frame {
  let mut d = Vec::new();
  d.push(user.len() as u8);
  d.extend_from_slice(user);
  d.push(pass.len() as u8);
  d.extend_from_slice(pass);
  Frame::cmd(&command_body("HELLO", &d))
}

pub fn plain_welcome() -> Frame {
  Frame::cmd(&command_body("WELCOME", &[]))
}

pub fn error_cmd(reason: &str) -> Frame {
  let mut d = vec![reason.len() as u8];
  d.extend_from_slice(reason.as_bytes());
  Frame::cmd(&command_body("ERROR", &d))
}

pub fn ping(ttl: u16, ctx: &[u8]) -> Frame {
  let mut d = ttl.to_be_bytes().to_vec();
  d.extend_from_slice(ctx);
  Frame::cmd(&command_body("PING", &d))
}

pub fn pong(ctx: &[u8]) -> Frame {
  Frame::cmd(&command_body("PONG", ctx))
}

/// Parse a command frame body into (name, data).
pub fn parse_command(body: &[u8]) -> Option<(String, Vec<u8>)> {
  let n = *body.first()? as usize;
  if body.len() < 1 + n {
    return None;
  }
  Some((String::from_utf8_lossy(&body[1..1 + n]).into_owned(), body[1 + n..].to_vec()))
}

/// Parse READY-style metadata into (name, value) pairs.
pub fn parse_metadata(mut d: &[u8]) -> Option<Vec<(String, Vec<u8>)>> {
  let mut out = Vec::new();
  while !d.is_empty() {
    let n = d[0] as usize;
    if d.len() < 1 + n + 4 {
      return None;
    }
    let name = String::from_utf8_lossy(&d[1..1 + n]).into_owned();
    let mut l = [0u8; 4];
    l.copy_from_slice(&d[1 + n..1 + n + 4]);
    let vl = u32::from_be_bytes(l) as usize;
    if d.len() < 1 + n + 4 + vl {
      return None;
    }
    out.push((name, d[1 + n + 4..1 + n + 4 + vl].to_vec()));
    d = &d[1 + n + 4 + vl..];
  }
  Some(out)
}

/// A whole client-side transcript as static bytes: what a ZMTP 3.x NULL client sends
/// (independent of the server's replies): greeting, READY, then data messages.
pub fn null_client_handshake(socket_type: &str, identity: Option<&[u8]>) -> Vec<u8> {
  let mut t = greeting_v3(0, "NULL", false);
  encode_frame(&ready(socket_type, identity), &mut t);
  t
}

/// rzmq's PLAIN dialect on the wire: greeting(PLAIN), HELLO, then READY (no INITIATE).
pub fn plain_client_handshake(socket_type: &str, user: &[u8], pass: &[u8], identity: Option<&[u8]>) -> Vec<u8> {
  let mut t = greeting_v3(0, "PLAIN", false);
  encode_frame(&plain_hello(user, pass), &mut t);
  encode_frame(&ready(socket_type, identity), &mut t);
  t
}

pub fn message(frames: &[&[u8]]) -> Vec<u8> {
  let mut v = Vec::new();
  for (i, f) in frames.iter().enumerate() {
    encode_frame(&Frame::data(f, i + 1 < frames.len()), &mut v);
  }
  v
}

//! Common command-line handling for shard binaries:
//!   <bin> --tier quick|thorough --seed N [--shard i/n] [--only name] [--replay path]
use std::collections::HashMap;

#[derive(Debug, Clone)]
pub struct Args {
  pub tier: String,
  pub seed: u64,
  pub shard: usize,
  pub nshards: usize,
  pub only: Option<String>,
  pub replay: Option<String>,
  pub extra: HashMap<String, String>,
}

impl Args {
  pub fn parse() -> Args {
    let mut a = Args { tier: "quick".into(), seed: 1, shard: 0, nshards: 1, only: None, replay: None, extra: HashMap::new() };
    let v: Vec<String> = std::env::args().skip(1).collect();
    let mut i = 0;
    while i < v.len() {
      let k = v[i].clone();
      let val = v.get(i + 1).cloned().unwrap_or_default();
      match k.as_str() {
        "--tier" => a.tier = val,
        "--seed" => a.seed = val.parse().unwrap_or(1),
        "--shard" => {
          let mut p = val.split('/');
          a.shard = p.next().and_then(|x| x.parse().ok()).unwrap_or(0);
          a.nshards = p.next().and_then(|x| x.parse().ok()).unwrap_or(1).max(1);
        }
        "--only" => a.only = Some(val),
        "--replay" => a.replay = Some(val),
        other if other.starts_with("--") => {
          a.extra.insert(other[2..].to_string(), val);
        }
        _ => {
          i += 1;
          continue;
        }
      }
      i += 2;
    }
    a
  }
  pub fn thorough(&self) -> bool {
    self.tier == "thorough"
  }
  pub fn shard_name(&self) -> String {
    format!("{}-s{}-{}of{}{}", self.tier, self.seed, self.shard, self.nshards, self.only.as_ref().map(|o| format!("-{}", o)).unwrap_or_default())
  }
  /// Does this shard own work item `k`?
  pub fn mine(&self, k: usize) -> bool {
    k % self.nshards == self.shard
  }
  pub fn get_usize(&self, k: &str, d: usize) -> usize {
    self.extra.get(k).and_then(|v| v.parse().ok()).unwrap_or(d)
  }
}

//! Runtime, endpoint, watchdog and panic-watch helpers shared by all shard binaries.

use rzmq::socket::options as opt;
use rzmq::socket::{MonitorReceiver, SocketEvent};
use rzmq::{Context, Msg, MsgFlags, Socket, SocketType, ZmqError};
use std::future::Future;
use std::sync::atomic::{AtomicU64, AtomicUsize, Ordering};
use std::sync::{Arc, Mutex};
use std::time::{Duration, Instant};

pub fn runtime(workers: usize) -> tokio::runtime::Runtime {
  if workers == 0 {
    tokio::runtime::Builder::new_current_thread().enable_all().build().unwrap()
  } else {
    tokio::runtime::Builder::new_multi_thread().worker_threads(workers).enable_all().build().unwrap()
  }
}

/// Outcome of a watchdogged scenario: Ok(value) or the watchdog fired (=> inconclusive,
/// never a violation by itself).
pub async fn watchdog<T>(secs: u64, f: impl Future<Output = T>) -> Option<T> {
  tokio::time::timeout(Duration::from_secs(secs), f).await.ok()
}

static EP_COUNTER: AtomicUsize = AtomicUsize::new(0);

#[derive(Clone, Copy, Debug, PartialEq, Eq, Hash)]
pub enum Transport {
  Tcp,
  Ipc,
  Inproc,
}

impl Transport {
  pub fn name(&self) -> &'static str {
    match self {
      Transport::Tcp => "tcp",
      Transport::Ipc => "ipc",
      Transport::Inproc => "inproc",
    }
  }
}

pub fn ipc_dir() -> String {
  let d = format!("/var/tmp/vh-ipc-{}", std::process::id());
  let _ = std::fs::create_dir_all(&d);
  d
}

pub fn cleanup_ipc_dir() {
  let _ = std::fs::remove_dir_all(format!("/var/tmp/vh-ipc-{}", std::process::id()));
}

/// Bind `sock` on a fresh endpoint of the given transport and return the endpoint string to
/// connect to.
pub async fn bind_fresh(sock: &Socket, t: Transport) -> Result<String, ZmqError> {
  let n = EP_COUNTER.fetch_add(1, Ordering::Relaxed);
  match t {
    Transport::Tcp => {
      sock.bind("tcp://127.0.0.1:0").await?;
      let ep = sock.get_option(opt::LAST_ENDPOINT).await?;
      Ok(String::from_utf8_lossy(&ep).trim_end_matches('\0').to_string())
    }
    Transport::Ipc => {
      let ep = format!("ipc://{}/s{}", ipc_dir(), n);
      sock.bind(&ep).await?;
      Ok(ep)
    }
    Transport::Inproc => {
      let ep = format!("inproc://vh-{}-{}", std::process::id(), n);
      sock.bind(&ep).await?;
      Ok(ep)
    }
  }
}

pub fn tcp_port_of(ep: &str) -> u16 {
  ep.rsplit(':').next().and_then(|p| p.parse().ok()).unwrap_or(0)
}

pub async fn set_i32(s: &Socket, o: i32, v: i32) {
  s.set_option(o, v).await.unwrap_or_else(|e| panic!("set_option({o},{v}) failed: {e}"));
}

pub async fn set_maxmsgsize(s: &Socket, v: i64) {
  s.set_option_raw(opt::MAXMSGSIZE, &v.to_ne_bytes()).await.unwrap_or_else(|e| panic!("set MAXMSGSIZE {v} failed: {e}"));
}

pub fn msg(data: Vec<u8>, more: bool) -> Msg {
  let mut m = Msg::from_vec(data);
  if more {
    m.set_flags(MsgFlags::MORE);
  }
  m
}

pub fn err_kind(e: &ZmqError) -> String {
  let s = format!("{:?}", e);
  s.split(|c| c == '(' || c == ' ' || c == '{').next().unwrap_or("?").to_string()
}

/// Wait until `pred` matches an event on the monitor, up to `dur`. Returns true if seen.
pub async fn wait_event(mon: &MonitorReceiver, dur: Duration, pred: impl Fn(&SocketEvent) -> bool) -> bool {
  let end = Instant::now() + dur;
  loop {
    let left = end.saturating_duration_since(Instant::now());
    if left.is_zero() {
      return false;
    }
    match tokio::time::timeout(left, mon.recv()).await {
      Ok(Ok(ev)) => {
        if pred(&ev) {
          return true;
        }
      }
      Ok(Err(_)) => return false,
      Err(_) => return false,
    }
  }
}

pub fn socket_type_name(t: SocketType) -> &'static str {
  match t {
    SocketType::Pub => "PUB",
    SocketType::Sub => "SUB",
    SocketType::Req => "REQ",
    SocketType::Rep => "REP",
    SocketType::Dealer => "DEALER",
    SocketType::Router => "ROUTER",
    SocketType::Push => "PUSH",
    SocketType::Pull => "PULL",
  }
}

pub const ALL_TYPES: [SocketType; 8] = [
  SocketType::Pub,
  SocketType::Sub,
  SocketType::Req,
  SocketType::Rep,
  SocketType::Dealer,
  SocketType::Router,
  SocketType::Push,
  SocketType::Pull,
];

pub fn new_ctx() -> Context {
  Context::new().expect("context")
}

// ---- panic watch -------------------------------------------------------------------------------

#[derive(Debug, Clone)]
pub struct PanicRecord {
  pub location: String,
  pub message: String,
  pub thread: String,
  pub in_rzmq: bool,
  pub backtrace_head: Vec<String>,
}

static PANICS: Mutex<Vec<PanicRecord>> = Mutex::new(Vec::new());
static PANIC_COUNT: AtomicU64 = AtomicU64::new(0);

/// Install a process-wide panic hook that records every panic (tokio catches panics of
/// spawned tasks, so they would otherwise go unnoticed). A panic whose backtrace runs through
/// rzmq / xs_foundation code (and not through the harness's own assertion) is a finding.
pub fn install_panic_watch() {
  std::panic::set_hook(Box::new(|info| {
    PANIC_COUNT.fetch_add(1, Ordering::SeqCst);
    let location = info.location().map(|l| format!("{}:{}", l.file(), l.line())).unwrap_or_default();
    let message = if let Some(s) = info.payload().downcast_ref::<&str>() {
      s.to_string()
    } else if let Some(s) = info.payload().downcast_ref::<String>() {
      s.clone()
    } else {
      "<non-string panic>".into()
    };
    let bt = std::backtrace::Backtrace::force_capture().to_string();
    let mut frames: Vec<String> = Vec::new();
    for l in bt.lines() {
      let l = l.trim();
      if l.contains("rzmq::") || l.contains("xs_foundation::") || l.contains("vh::") || l.contains("fibre::") {
        frames.push(l.chars().take(160).collect());
      }
    }
    let in_rzmq = location.contains("/repo/core/") || location.contains("xs_foundation") || location.contains("fibre-")
      || frames.iter().any(|f| f.contains("rzmq::") || f.contains("xs_foundation::"));
    frames.truncate(12);
    eprintln!("[panic-watch] {} at {} (thread {:?}, in_rzmq={})", message.chars().take(200).collect::<String>(), location, std::thread::current().name(), in_rzmq);
    let rec = PanicRecord {
      location,
      message: message.chars().take(300).collect(),
      thread: std::thread::current().name().unwrap_or("?").to_string(),
      in_rzmq,
      backtrace_head: frames,
    };
    if let Ok(mut g) = PANICS.lock() {
      if g.len() < 64 {
        g.push(rec);
      }
    }
  }));
}

pub fn take_panics() -> Vec<PanicRecord> {
  PANICS.lock().map(|mut g| std::mem::take(&mut *g)).unwrap_or_default()
}

pub fn panic_count() -> u64 {
  PANIC_COUNT.load(Ordering::SeqCst)
}

/// Stable signature for a panic site: file:line with the registry path prefix removed.
pub fn panic_site(loc: &str) -> String {
  let l = loc.rsplit("/registry/src/").next().unwrap_or(loc);
  let l = l.trim_start_matches("/repo/");
  // drop the index dir of registry paths: "index.crates.io-xxxx/crate-ver/src/..."
  match l.find('/') {
    Some(p) if l.starts_with("index.crates.io") => l[p + 1..].to_string(),
    _ => l.to_string(),
  }
}

pub fn open_fds() -> usize {
  // (the sanitizer/Miri slowdown announced by the driver - NOT the machine-load factor, which changes over time and
  // would make the two counts of one history disagree about the process's own stdout/stderr pipes)
  let under_sanitizer = std::env::var("VH_SLOW").ok().and_then(|v| v.parse::<u32>().ok()).unwrap_or(1) > 1;
  std::fs::read_dir("/proc/self/fd")
    .map(|d| {
      d.filter(|e| {
        // a sanitizer runtime that prints a report starts an external symbolizer and keeps the pipes to it open:
        // those are the monitor's descriptors, not the library's (rzmq and tokio open no pipes)
        if !under_sanitizer {
          return true;
        }
        match e.as_ref().ok().and_then(|e| std::fs::read_link(e.path()).ok()) {
          Some(t) => !t.to_string_lossy().starts_with("pipe:"),
          None => true,
        }
      })
      .count()
    })
    .unwrap_or(0)
}

pub fn arc<T>(t: T) -> Arc<T> {
  Arc::new(t)
}

/// Run one scenario to completion on `rt`; a panic of the scenario future itself (harness
/// `unwrap`s on flaky environment conditions, or rzmq panicking on the caller's stack) is caught
/// so that the shard continues. Returns false if it panicked (records stay in the panic watch).
pub fn guarded<F: Future<Output = ()>>(rt: &tokio::runtime::Runtime, f: F) -> bool {
  std::panic::catch_unwind(std::panic::AssertUnwindSafe(|| rt.block_on(f))).is_ok()
}

/// Wall-clock bounds used as verdicts ("must have happened within X") are multiplied by this factor:
/// VH_SLOW (set by the driver for sanitizer flavours and Miri, which slow the program down 5-1000x; default 1) times
/// an oversubscription factor read from /proc/loadavg - ceil(1-minute load / cpus), 1 on a machine that is not
/// oversubscribed, capped at 12, refreshed every 2 s. A bound that is really about rzmq's own timers (lower bounds,
/// "not before T") must not be scaled.
pub fn slow_factor() -> u32 {
  static ENV: std::sync::OnceLock<u32> = std::sync::OnceLock::new();
  static LOAD: AtomicU64 = AtomicU64::new(0); // (factor << 32) | seconds since START when measured (+1)
  static START: std::sync::OnceLock<Instant> = std::sync::OnceLock::new();
  let env = *ENV.get_or_init(|| std::env::var("VH_SLOW").ok().and_then(|v| v.parse().ok()).unwrap_or(1).max(1));
  let now_s = START.get_or_init(Instant::now).elapsed().as_secs() + 1;
  let cached = LOAD.load(Ordering::Relaxed);
  let (mut f, at) = ((cached >> 32) as u32, cached & 0xFFFF_FFFF);
  if f == 0 || now_s >= at + 2 {
    let cpus = std::thread::available_parallelism().map(|n| n.get()).unwrap_or(1) as f64;
    let load = std::fs::read_to_string("/proc/loadavg").ok().and_then(|t| t.split_whitespace().next().and_then(|x| x.parse::<f64>().ok())).unwrap_or(0.0);
    f = ((load / cpus).ceil() as u32).clamp(1, 12);
    LOAD.store(((f as u64) << 32) | now_s, Ordering::Relaxed);
  }
  env.saturating_mul(f)
}
pub fn scaled(d: Duration) -> Duration {
  d * slow_factor()
}
/// The oversubscription part alone (for evidence).
pub fn load_factor_now() -> u32 {
  let cpus = std::thread::available_parallelism().map(|n| n.get()).unwrap_or(1) as f64;
  let load = std::fs::read_to_string("/proc/loadavg").ok().and_then(|t| t.split_whitespace().next().and_then(|x| x.parse::<f64>().ok())).unwrap_or(0.0);
  ((load / cpus).ceil() as u32).clamp(1, 12)
}

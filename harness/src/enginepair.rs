//! Two real `ZmtpEngine`s with the harness as the network: two byte queues and a scheduler
//! choosing direction and chunk size. Also used with a scripted (non-rzmq) peer on one side.

use crate::gen::Rng;
use bytes::Bytes;
use rzmq::protocol::zmtp::actions::{AppAction, EngineOutput, NetAction};
use rzmq::protocol::zmtp::engine::{ZmtpEngine, ZmtpPhase};
use rzmq::verif::EngineCfg;
use rzmq::FrameBatch;
use std::collections::VecDeque;

pub struct Side {
  pub eng: ZmtpEngine,
  /// bytes on the wire towards this side, not yet delivered
  pub inbox: VecDeque<u8>,
  /// everything this side ever emitted, per NetAction::Send
  pub sent: Vec<Bytes>,
  pub hs: Option<(Option<Vec<u8>>, Option<String>)>,
  pub hs_count: usize,
  pub delivered: Vec<Vec<Vec<u8>>>,
  pub delivered_flags: Vec<Vec<(bool, bool)>>,
  pub errors: Vec<String>,
  pub saw_eof: bool,
  pub schedule_close: bool,
  /// ordered log: 'H' handshake complete, 'D' deliver, 'E' error
  pub order: String,
}

impl Side {
  pub fn new(eng: ZmtpEngine) -> Side {
    Side { eng, inbox: VecDeque::new(), sent: vec![], hs: None, hs_count: 0, delivered: vec![], delivered_flags: vec![], errors: vec![], saw_eof: false, schedule_close: false, order: String::new() }
  }
  pub fn closed(&self) -> bool {
    self.eng.phase == ZmtpPhase::Closed
  }
  pub fn in_data(&self) -> bool {
    self.eng.phase == ZmtpPhase::Data
  }
  /// Absorb an engine output; returns the bytes to put on the wire.
  pub fn absorb(&mut self, out: EngineOutput) -> Vec<u8> {
    let mut wire = Vec::new();
    for a in out.net_actions {
      match a {
        NetAction::Send { data, .. } => {
          wire.extend_from_slice(&data);
          self.sent.push(data);
        }
        NetAction::ScheduleClose(_) => self.schedule_close = true,
        NetAction::SetCork(_) => {}
      }
    }
    for a in out.app_actions {
      match a {
        AppAction::HandshakeComplete { peer_identity, peer_socket_type } => {
          self.hs = Some((peer_identity.map(|b| b.to_vec()), peer_socket_type));
          self.hs_count += 1;
          self.order.push('H');
        }
        AppAction::DeliverMessage(b) => {
          self.delivered_flags.push(b.iter().map(|m| (m.is_more(), m.is_command())).collect());
          self.delivered.push(b.iter().map(|m| m.data().unwrap_or(&[]).to_vec()).collect());
          self.order.push('D');
        }
        AppAction::PeerError(e) => {
          self.errors.push(format!("{:?}", e));
          self.order.push('E');
        }
      }
    }
    wire
  }
  pub fn feed(&mut self, data: &[u8]) -> Vec<u8> {
    let out = self.eng.on_network_bytes(Bytes::copy_from_slice(data));
    self.absorb(out)
  }
}

pub struct Pair {
  pub a: Side,
  pub b: Side,
  pub steps: usize,
  /// chunk sizes delivered, for evidence: (dir, n)
  pub trace: Vec<(u8, usize)>,
}

#[derive(Clone, Copy, Debug, PartialEq, Eq, Hash)]
pub enum Sched {
  LockStep,
  OneByteAlternating,
  AAllThenB,
  BAllThenA,
  Random,
}

pub const SCHEDS: [Sched; 5] = [Sched::LockStep, Sched::OneByteAlternating, Sched::AAllThenB, Sched::BAllThenA, Sched::Random];

impl Pair {
  /// `a` is conventionally the client (is_server=false), `b` the server.
  pub fn new(cfg_a: &EngineCfg, a_server: bool, cfg_b: &EngineCfg, b_server: bool) -> Pair {
    Pair { a: Side::new(cfg_a.engine(a_server)), b: Side::new(cfg_b.engine(b_server)), steps: 0, trace: vec![] }
  }

  pub fn start(&mut self) {
    let oa = self.a.eng.start();
    let wa = self.a.absorb(oa);
    self.b.inbox.extend(wa);
    let ob = self.b.eng.start();
    let wb = self.b.absorb(ob);
    self.a.inbox.extend(wb);
  }

  /// Deliver up to n bytes to side `to_a` (true: deliver to a). Returns bytes delivered.
  pub fn deliver(&mut self, to_a: bool, n: usize) -> usize {
    let (dst, src) = if to_a { (&mut self.a, &mut self.b) } else { (&mut self.b, &mut self.a) };
    let k = n.min(dst.inbox.len());
    if k == 0 {
      return 0;
    }
    let chunk: Vec<u8> = dst.inbox.drain(..k).collect();
    self.steps += 1;
    if self.trace.len() < 64 {
      self.trace.push((to_a as u8, k));
    }
    if dst.closed() {
      return k; // a closed engine's connection is gone; bytes are discarded by the kernel
    }
    let wire = dst.feed(&chunk);
    if !src.closed() {
      src.inbox.extend(wire);
    }
    k
  }

  fn propagate_eof(&mut self) {
    if self.a.closed() && !self.b.saw_eof && self.b.inbox.is_empty() {
      self.b.saw_eof = true;
    }
    if self.b.closed() && !self.a.saw_eof && self.a.inbox.is_empty() {
      self.a.saw_eof = true;
    }
  }

  /// Run until no bytes are in flight (or max steps). Returns true if quiescent.
  pub fn run(&mut self, sched: Sched, rng: &mut Rng, max_steps: usize) -> bool {
    let mut turn = false;
    for _ in 0..max_steps {
      let ea = self.a.inbox.is_empty();
      let eb = self.b.inbox.is_empty();
      if ea && eb {
        self.propagate_eof();
        return true;
      }
      match sched {
        Sched::LockStep => {
          // deliver everything pending to one side, then the other
          turn = !turn;
          let to_a = if turn { !ea } else { eb };
          let n = if to_a { self.a.inbox.len() } else { self.b.inbox.len() };
          self.deliver(to_a, n);
        }
        Sched::OneByteAlternating => {
          turn = !turn;
          let to_a = if turn { !ea } else { eb };
          self.deliver(to_a, 1);
        }
        Sched::AAllThenB => {
          // a's inbox first
          if !ea {
            let n = self.a.inbox.len();
            self.deliver(true, n);
          } else {
            let n = self.b.inbox.len();
            self.deliver(false, n);
          }
        }
        Sched::BAllThenA => {
          if !eb {
            let n = self.b.inbox.len();
            self.deliver(false, n);
          } else {
            let n = self.a.inbox.len();
            self.deliver(true, n);
          }
        }
        Sched::Random => {
          let to_a = if ea {
            false
          } else if eb {
            true
          } else {
            rng.chance(1, 2)
          };
          let avail = if to_a { self.a.inbox.len() } else { self.b.inbox.len() };
          let n = match rng.below(6) {
            0 => 1,
            1 => 2,
            2 => rng.range(1, 12),
            3 => rng.range(1, 70),
            4 => avail,
            _ => rng.range(1, avail.max(1)),
          };
          self.deliver(to_a, n.max(1));
        }
      }
    }
    false
  }

  /// After the handshake: have side a (true) or b send an application message.
  pub fn app_send(&mut self, from_a: bool, frames: &[Vec<u8>]) -> Result<(), String> {
    let mut fb = FrameBatch::new();
    for (i, f) in frames.iter().enumerate() {
      fb.push(crate::util::msg(f.clone(), i + 1 < frames.len()));
    }
    let (src, dst) = if from_a { (&mut self.a, &mut self.b) } else { (&mut self.b, &mut self.a) };
    let out = src.eng.on_app_message(fb);
    let before = src.errors.len();
    let wire = src.absorb(out);
    if src.errors.len() > before {
      return Err(src.errors.last().cloned().unwrap_or_default());
    }
    dst.inbox.extend(wire);
    Ok(())
  }
}

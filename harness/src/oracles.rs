//! Offline history checkers over client-boundary logs.

use crate::payload::{self, FrameId, Parsed, HDR};
use serde_json::{json, Value};
use std::collections::{BTreeMap, HashMap, HashSet};

#[derive(Clone, Copy, Debug, PartialEq, Eq)]
pub enum SendStatus {
  /// send() returned Ok.
  Accepted,
  /// The call was cancelled / timed out / failed in a way that may still take effect.
  Maybe,
  /// send() returned a definite refusal (would-block / timeout error): must never arrive.
  Refused,
}

#[derive(Clone, Debug)]
pub struct SentMsg {
  pub sender: u32,
  pub seq: u32,
  pub dest: u32,
  pub frame_lens: Vec<usize>,
  pub status: SendStatus,
}

/// Build the frames of message (sender, seq) with the given frame lengths. At least one
/// frame must be >= HDR bytes so the message is identifiable.
pub fn build_message(run: u32, sender: u32, seq: u32, dest: u32, lens: &[usize]) -> Vec<Vec<u8>> {
  assert!(lens.iter().any(|l| *l >= HDR), "message needs one self-describing frame");
  let cnt = lens.len() as u16;
  lens
    .iter()
    .enumerate()
    .map(|(i, &l)| {
      if l >= HDR {
        payload::make_frame(FrameId { run, sender, seq, idx: i as u16, cnt, dest }, l)
      } else {
        payload::tiny_frame(seq, i as u16, l)
      }
    })
    .collect()
}

#[derive(Debug, Default, Clone)]
pub struct StreamFindings {
  pub lost: Vec<(u32, u32)>,
  pub duplicated: Vec<(u32, u32)>,
  pub reordered: Vec<(u32, u32, u32)>, // sender, seq seen, previous seq
  pub corrupt: Vec<String>,
  pub refused_delivered: Vec<(u32, u32)>,
  pub unknown: Vec<String>,
  pub misrouted: Vec<String>,
  pub received: usize,
}

impl StreamFindings {
  pub fn ok(&self) -> bool {
    self.lost.is_empty()
      && self.duplicated.is_empty()
      && self.reordered.is_empty()
      && self.corrupt.is_empty()
      && self.refused_delivered.is_empty()
      && self.unknown.is_empty()
      && self.misrouted.is_empty()
  }
  pub fn kinds(&self) -> Vec<&'static str> {
    let mut v = vec![];
    if !self.lost.is_empty() {
      v.push("lost");
    }
    if !self.duplicated.is_empty() {
      v.push("duplicated");
    }
    if !self.reordered.is_empty() {
      v.push("reordered");
    }
    if !self.corrupt.is_empty() {
      v.push("corrupt");
    }
    if !self.refused_delivered.is_empty() {
      v.push("refused_delivered");
    }
    if !self.unknown.is_empty() {
      v.push("unknown");
    }
    if !self.misrouted.is_empty() {
      v.push("misrouted");
    }
    v
  }
  pub fn to_json(&self) -> Value {
    let cap = |v: &Vec<(u32, u32)>| v.iter().take(12).map(|x| json!([x.0, x.1])).collect::<Vec<_>>();
    json!({
      "received": self.received,
      "lost_n": self.lost.len(), "lost": cap(&self.lost),
      "duplicated_n": self.duplicated.len(), "duplicated": cap(&self.duplicated),
      "reordered_n": self.reordered.len(),
      "reordered": self.reordered.iter().take(12).map(|x| json!({"sender":x.0,"seq":x.1,"after_seq":x.2})).collect::<Vec<_>>(),
      "corrupt": self.corrupt.iter().take(6).collect::<Vec<_>>(),
      "refused_delivered": cap(&self.refused_delivered),
      "unknown": self.unknown.iter().take(6).collect::<Vec<_>>(),
      "misrouted": self.misrouted.iter().take(6).collect::<Vec<_>>(),
    })
  }
}

/// Identify a received message (list of frames) and validate every frame against what was sent.
/// Returns Ok((sender, seq, dest)) or Err(description).
pub fn identify(run: u32, frames: &[Vec<u8>], sent: &HashMap<(u32, u32), &SentMsg>) -> Result<(u32, u32, u32), String> {
  let mut id: Option<FrameId> = None;
  for f in frames {
    match payload::parse_frame(f) {
      Parsed::Ok(fid) => {
        id = Some(fid);
        break;
      }
      Parsed::Corrupt(why) => return Err(format!("corrupt frame: {}", why)),
      Parsed::Tiny(_) => {}
    }
  }
  let id = id.ok_or_else(|| format!("message of {} frames has no self-describing frame (lens {:?})", frames.len(), frames.iter().map(|f| f.len()).collect::<Vec<_>>()))?;
  if id.run != run {
    return Err(format!("frame from another run: {:?}", id));
  }
  let s = sent.get(&(id.sender, id.seq)).ok_or_else(|| format!("message ({},{}) was never sent", id.sender, id.seq))?;
  if frames.len() != s.frame_lens.len() {
    return Err(format!("message ({},{}) sent with {} frames, delivered with {} (lens sent {:?}, got {:?})", id.sender, id.seq, s.frame_lens.len(), frames.len(), s.frame_lens, frames.iter().map(|f| f.len()).collect::<Vec<_>>()));
  }
  let expect = build_message(run, s.sender, s.seq, s.dest, &s.frame_lens);
  for (i, (got, want)) in frames.iter().zip(expect.iter()).enumerate() {
    if got != want {
      return Err(format!("message ({},{}) frame {} differs: got {} bytes, want {} bytes, first diff at {:?}", id.sender, id.seq, i, got.len(), want.len(), got.iter().zip(want.iter()).position(|(a, b)| a != b)));
    }
  }
  Ok((id.sender, id.seq, s.dest))
}

/// Exactly-once / order / integrity over what ONE receiver obtained.
/// `expect_from`: senders whose *accepted* messages addressed to this receiver (dest == me, or
/// any dest if `me` is None) must all have arrived (completeness); pass an empty set to skip
/// the loss check.
pub fn check_receiver(run: u32, sent: &[SentMsg], received: &[Vec<Vec<u8>>], me: Option<u32>, check_loss: bool) -> StreamFindings {
  let mut f = StreamFindings::default();
  let index: HashMap<(u32, u32), &SentMsg> = sent.iter().map(|s| ((s.sender, s.seq), s)).collect();
  let mut seen: HashSet<(u32, u32)> = HashSet::new();
  let mut last: BTreeMap<u32, u32> = BTreeMap::new();
  for m in received {
    f.received += 1;
    match identify(run, m, &index) {
      Err(why) => {
        if why.starts_with("corrupt") || why.contains("differs") || why.contains("delivered with") {
          f.corrupt.push(why)
        } else {
          f.unknown.push(why)
        }
      }
      Ok((sender, seq, dest)) => {
        if let Some(me) = me {
          if dest != me && dest != u32::MAX {
            f.misrouted.push(format!("({},{}) addressed to {} arrived at {}", sender, seq, dest, me));
          }
        }
        if !seen.insert((sender, seq)) {
          f.duplicated.push((sender, seq));
          continue;
        }
        if index[&(sender, seq)].status == SendStatus::Refused {
          f.refused_delivered.push((sender, seq));
        }
        if let Some(&p) = last.get(&sender) {
          if seq < p {
            f.reordered.push((sender, seq, p));
          }
        }
        let e = last.entry(sender).or_insert(seq);
        if seq > *e {
          *e = seq;
        }
      }
    }
  }
  if check_loss {
    for s in sent {
      if s.status == SendStatus::Accepted && me.map_or(true, |m| s.dest == m || s.dest == u32::MAX) && !seen.contains(&(s.sender, s.seq)) {
        f.lost.push((s.sender, s.seq));
      }
    }
  }
  f
}

/// Set of accepted ids (for progress loops).
pub fn accepted_ids(sent: &[SentMsg]) -> HashSet<(u32, u32)> {
  sent.iter().filter(|s| s.status == SendStatus::Accepted).map(|s| (s.sender, s.seq)).collect()
}

/// Quick id extraction (no validation) for progress tracking.
pub fn peek_id(frames: &[Vec<u8>]) -> Option<(u32, u32)> {
  for f in frames {
    if let Parsed::Ok(id) = payload::parse_frame(f) {
      return Some((id.sender, id.seq));
    }
  }
  None
}

// ---- REQ/REP alternation linearizability -----------------------------------------------------

#[derive(Clone, Debug)]
pub struct Op {
  pub task: usize,
  pub kind: char, // 'S' send, 'R' recv
  pub call: u64,
  pub ret: u64, // u64::MAX = still open
  pub ok: bool,
}

/// Is there a linearisation of the *successful* operations, consistent with real-time order
/// (a.ret < b.call => a before b), that alternates first,other,first,... starting with `first`?
/// Exhaustive DFS with memoisation on the set of placed ops (histories are small).
pub fn alternation_linearizable(ops: &[Op], first: char) -> bool {
  let ok: Vec<&Op> = ops.iter().filter(|o| o.ok).collect();
  let n = ok.len();
  if n > 24 {
    // too large for exhaustive search: fall back to the necessary condition only
    return alternation_necessary(ops, first);
  }
  let mut memo: HashSet<u32> = HashSet::new();
  fn rec(ok: &[&Op], placed: u32, first: char, memo: &mut HashSet<u32>) -> bool {
    let n = ok.len();
    if placed.count_ones() as usize == n {
      return true;
    }
    if !memo.insert(placed) {
      return false;
    }
    let k = placed.count_ones() as usize;
    let want = if k % 2 == 0 { first } else if first == 'S' { 'R' } else { 'S' };
    for i in 0..n {
      if placed & (1 << i) != 0 || ok[i].kind != want {
        continue;
      }
      // i may go next only if no unplaced op j finished before i was called
      let blocked = (0..n).any(|j| j != i && placed & (1 << j) == 0 && ok[j].ret < ok[i].call);
      if blocked {
        continue;
      }
      if rec(ok, placed | (1 << i), first, memo) {
        return true;
      }
    }
    false
  }
  rec(&ok, 0, first, &mut memo)
}

pub fn alternation_necessary(ops: &[Op], first: char) -> bool {
  let s = ops.iter().filter(|o| o.ok && o.kind == first).count() as i64;
  let r = ops.iter().filter(|o| o.ok && o.kind != first).count() as i64;
  (s - r) == 0 || (s - r) == 1
}

//! Shard report: what one process explored and found. Printed as one JSON line prefixed
//! with `VH-RESULT ` which the driver (`/verif/check`) collects and merges.

use serde_json::{json, Value};
use std::collections::{BTreeMap, BTreeSet};
use std::hash::{Hash, Hasher};

#[derive(Debug, Clone)]
pub struct Violation {
  /// Stable signature used for known-finding classification (no seeds, no counts).
  pub sig: String,
  pub what: String,
  pub witness: Value,
}

#[derive(Default)]
pub struct Report {
  pub prop: String,
  pub shard: String,
  pub evaluations: u64,
  pub fingerprints: BTreeSet<u64>,
  pub violations: Vec<Violation>,
  pub samples: Vec<Value>,
  pub counters: BTreeMap<String, u64>,
  pub inconclusive: Vec<String>,
  pub notes: Vec<String>,
  pub exhaustive_parts: Vec<String>,
  max_samples: usize,
  max_viol_per_sig: usize,
}

pub fn hash_of<T: Hash>(t: &T) -> u64 {
  let mut h = std::collections::hash_map::DefaultHasher::new();
  t.hash(&mut h);
  h.finish()
}

impl Report {
  pub fn new(prop: &str, shard: &str) -> Self {
    Report { prop: prop.into(), shard: shard.into(), max_samples: 6, max_viol_per_sig: 3, ..Default::default() }
  }
  /// Record one evaluated case. `fp` identifies the case up to what makes it distinct;
  /// `nontrivial` says whether it counts towards distinct_nontrivial.
  pub fn case<T: Hash>(&mut self, fp: &T, nontrivial: bool) {
    self.evaluations += 1;
    if nontrivial {
      self.fingerprints.insert(hash_of(fp));
    }
  }
  pub fn cases(&mut self, n: u64) {
    self.evaluations += n;
  }
  pub fn sample(&mut self, v: Value) {
    if self.samples.len() < self.max_samples {
      self.samples.push(v);
    }
  }
  pub fn count(&mut self, k: &str, n: u64) {
    *self.counters.entry(k.to_string()).or_insert(0) += n;
  }
  pub fn max(&mut self, k: &str, n: u64) {
    let e = self.counters.entry(k.to_string()).or_insert(0);
    if n > *e {
      *e = n;
    }
  }
  pub fn violation(&mut self, sig: impl Into<String>, what: impl Into<String>, witness: Value) {
    let sig = sig.into();
    self.count(&format!("violations[{}]", sig), 1);
    let n = self.violations.iter().filter(|v| v.sig == sig).count();
    if n < self.max_viol_per_sig {
      self.violations.push(Violation { sig, what: what.into(), witness });
    }
  }
  pub fn inconclusive(&mut self, why: impl Into<String>) {
    let s = why.into();
    if self.inconclusive.len() < 20 {
      self.inconclusive.push(s);
    }
    self.count("inconclusive", 1);
  }
  pub fn note(&mut self, s: impl Into<String>) {
    if self.notes.len() < 20 {
      self.notes.push(s.into());
    }
  }
  pub fn merge_hooks(&mut self) {
    #[cfg(rzmq_verif)]
    for (k, v) in rzmq::verif::counters() {
      self.count(&format!("hook:{}", k), v);
    }
  }
  pub fn to_json(&self) -> Value {
    json!({
      "prop": self.prop,
      "shard": self.shard,
      "evaluations": self.evaluations,
      "fingerprints": self.fingerprints.iter().map(|f| format!("{:016x}", f)).collect::<Vec<_>>(),
      "violations": self.violations.iter().map(|v| json!({"sig": v.sig, "what": v.what, "witness": v.witness})).collect::<Vec<_>>(),
      "samples": self.samples,
      "counters": self.counters,
      "inconclusive": self.inconclusive,
      "notes": self.notes,
      "exhaustive_parts": self.exhaustive_parts,
    })
  }
  pub fn emit(&self) {
    use std::io::Write;
    // how oversubscribed the machine was (wall-clock bounds used as verdicts were scaled by it); the driver merges
    // "max:" counters by maximum
    let mut me = self.to_json();
    me["counters"]["max:machine_oversubscription_factor"] = json!(crate::util::load_factor_now());
    let s = format!("VH-RESULT {}\n", me);
    let _ = std::io::stdout().write_all(s.as_bytes());
    let _ = std::io::stdout().flush();
  }
}

pub fn hex(b: &[u8]) -> String {
  let mut s = String::with_capacity(b.len() * 2);
  for x in b.iter().take(96) {
    s.push_str(&format!("{:02x}", x));
  }
  if b.len() > 96 {
    s.push_str(&format!("..(+{})", b.len() - 96));
  }
  s
}

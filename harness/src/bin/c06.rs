//! C06 — a configured security mechanism cannot be bypassed or downgraded.
//! Online assertion on every EngineOutput of a secured endpoint fed by an attacker grammar
//! (DFS over token sequences, pruned where the engine has closed), replayed byte-wise;
//! replay of recorded honest transcripts against fresh CURVE/NOISE engines; honest positive
//! control in every configuration; stack-level sample against real sockets over tcp.

use rzmq::socket::options as opt;
use rzmq::verif::EngineCfg;
use rzmq::SocketType;
use serde_json::json;
use std::time::Duration;
use vh::args::Args;
use vh::enginepair::{Pair, Sched, Side};
use vh::gen::Rng;
use vh::rawpeer::RawStream;
use vh::refzmtp::{self, Frame};
use vh::report::{hex, Report};
use vh::util;

#[derive(Clone, Copy, Debug, PartialEq, Eq, Hash)]
enum Mech {
  Plain,
  Curve,
  Noise,
}

struct Secrets {
  user: String,
  pass: String,
  curve_srv: ([u8; 32], [u8; 32]),
  curve_cli: ([u8; 32], [u8; 32]),
  noise_srv: ([u8; 32], [u8; 32]),
  noise_cli: ([u8; 32], [u8; 32]),
}

fn k32(r: &mut Rng) -> [u8; 32] {
  let mut k = [0u8; 32];
  k.copy_from_slice(&r.bytes(32));
  k
}

fn secrets(r: &mut Rng) -> Secrets {
  Secrets {
    user: format!("u{:08x}", r.next() as u32),
    pass: format!("p{:016x}", r.next()),
    curve_srv: rzmq::verif::curve_keypair_from(k32(r)),
    curve_cli: rzmq::verif::curve_keypair_from(k32(r)),
    noise_srv: rzmq::verif::noise_keypair_from(k32(r)),
    noise_cli: rzmq::verif::noise_keypair_from(k32(r)),
  }
}

/// Local (victim) configuration built through the *real* option-to-config derivation.
fn victim_cfg(m: Mech, server: bool, allow_v2: Option<bool>, stype: &str, s: &Secrets) -> EngineCfg {
  let mut o: Vec<(i32, Vec<u8>)> = vec![];
  let b = |v: bool| (v as i32).to_ne_bytes().to_vec();
  match m {
    Mech::Plain => {
      o.push((opt::PLAIN_SERVER, b(server)));
      o.push((opt::PLAIN_USERNAME, s.user.as_bytes().to_vec()));
      o.push((opt::PLAIN_PASSWORD, s.pass.as_bytes().to_vec()));
    }
    Mech::Curve => {
      if server {
        o.push((opt::CURVE_SERVER, b(true)));
        o.push((opt::CURVE_SECRET_KEY, s.curve_srv.0.to_vec()));
      } else {
        o.push((opt::CURVE_SECRET_KEY, s.curve_cli.0.to_vec()));
        o.push((opt::CURVE_SERVER_KEY, s.curve_srv.1.to_vec()));
      }
    }
    Mech::Noise => {
      o.push((opt::NOISE_XX_ENABLED, b(true)));
      if server {
        o.push((opt::NOISE_XX_STATIC_SECRET_KEY, s.noise_srv.0.to_vec()));
      } else {
        o.push((opt::NOISE_XX_STATIC_SECRET_KEY, s.noise_cli.0.to_vec()));
        o.push((opt::NOISE_XX_REMOTE_STATIC_PUBLIC_KEY, s.noise_srv.1.to_vec()));
      }
    }
  }
  if let Some(a) = allow_v2 {
    o.push((opt::ALLOW_ZMTP2, b(a)));
  }
  rzmq::verif::engine_cfg_from_options(stype, &o).expect("victim options must apply")
}

fn honest_peer_cfg(m: Mech, victim_is_server: bool, stype: &str, s: &Secrets) -> EngineCfg {
  // the honest counterpart plays the other role with the right secrets
  victim_cfg(m, !victim_is_server, None, stype, s)
}

fn peer_type(stype: &str) -> &'static str {
  match stype {
    "PULL" => "PUSH",
    "PUSH" => "PULL",
    "ROUTER" => "DEALER",
    "DEALER" => "ROUTER",
    "REP" => "REQ",
    "REQ" => "REP",
    "SUB" => "PUB",
    _ => "SUB",
  }
}

#[derive(Clone, Debug)]
struct Tok {
  name: &'static str,
  bytes: Vec<u8>,
}

fn enc(f: Frame) -> Vec<u8> {
  let mut v = Vec::new();
  refzmtp::encode_frame(&f, &mut v);
  v
}

fn tokens(r: &mut Rng, stype: &str, s: &Secrets) -> Vec<Tok> {
  let pt = peer_type(stype);
  let junk = |n: usize, r: &mut Rng| r.bytes(n);
  vec![
    Tok { name: "READY", bytes: enc(refzmtp::ready(pt, None)) },
    Tok { name: "READY+id", bytes: enc(refzmtp::ready(pt, Some(b"attacker"))) },
    Tok { name: "HELLO(wrong)", bytes: enc(refzmtp::plain_hello(b"mallory", b"guess")) },
    Tok { name: "HELLO(empty)", bytes: enc(refzmtp::plain_hello(b"", b"")) },
    Tok { name: "HELLO(user-ok,pass-wrong)", bytes: enc(refzmtp::plain_hello(s.user.as_bytes(), b"guess")) },
    Tok { name: "HELLO(junk194)", bytes: enc(Frame::cmd(&refzmtp::command_body("HELLO", &junk(194, r)))) },
    Tok { name: "WELCOME", bytes: enc(refzmtp::plain_welcome()) },
    Tok { name: "WELCOME(junk160)", bytes: enc(Frame::cmd(&refzmtp::command_body("WELCOME", &junk(160, r)))) },
    Tok { name: "INITIATE(junk)", bytes: enc(Frame::cmd(&refzmtp::command_body("INITIATE", &junk(120, r)))) },
    Tok { name: "ERROR", bytes: enc(refzmtp::error_cmd("nope")) },
    Tok { name: "UNKNOWN", bytes: enc(Frame::cmd(&refzmtp::command_body("FROB", &junk(5, r)))) },
    Tok { name: "NOISE(junk48)", bytes: enc(Frame::cmd(&junk(48, r))) },
    Tok { name: "DATA", bytes: enc(Frame::data(b"UNAUTH", false)) },
    Tok { name: "DATA+MORE", bytes: enc(Frame::data(b"UNAUTH-part", true)) },
    Tok { name: "V2ID", bytes: enc(Frame::data(b"", false)) },
    Tok { name: "PING", bytes: enc(refzmtp::ping(0, b"x")) },
  ]
}

fn greetings(stype: &str) -> Vec<Tok> {
  let mut v = vec![];
  let pt = peer_type(stype);
  for (rev, minor) in [(3u8, 0u8), (3, 1), (4, 0), (255, 0), (2, 0), (0, 0)] {
    for mech in ["NULL", "PLAIN", "CURVE", "NOISE_XX", "BOGUS"] {
      for srv in [false, true] {
        v.push(Tok { name: Box::leak(format!("G(rev{}.{},{},srv={})", rev, minor, mech, srv as u8).into_boxed_str()), bytes: refzmtp::greeting_raw(rev, minor, mech.as_bytes(), srv) });
      }
    }
  }
  // ZMTP/2.0 greeting: signature, revision 1, socket type, identity frame
  v.push(Tok { name: "G(v2,anon)", bytes: refzmtp::greeting_v2(refzmtp::v2_code(pt).unwrap(), b"") });
  v.push(Tok { name: "G(v2,id)", bytes: refzmtp::greeting_v2(refzmtp::v2_code(pt).unwrap(), b"evil") });
  // v2 header only (identity to follow as a token)
  let mut h = refzmtp::signature().to_vec();
  h.push(1);
  h.push(refzmtp::v2_code(pt).unwrap());
  v.push(Tok { name: "G(v2,hdr-only)", bytes: h });
  v
}

struct Verdict {
  breached: Option<String>,
  alive: bool,
}

/// Play `script` against a fresh victim engine; check the C06 invariant after every call.
fn play(cfg: &EngineCfg, server: bool, script: &[&Tok], bytewise: bool) -> Verdict {
  // a panic inside rzmq while parsing attacker bytes is C07's business; here it simply ends the script
  match std::panic::catch_unwind(std::panic::AssertUnwindSafe(|| play_inner(cfg, server, script, bytewise))) {
    Ok(v) => v,
    Err(_) => Verdict { breached: None, alive: false },
  }
}

fn play_inner(cfg: &EngineCfg, server: bool, script: &[&Tok], bytewise: bool) -> Verdict {
  let mut side = Side::new(cfg.engine(server));
  let o = side.eng.start();
  let _ = side.absorb(o);
  let check = |side: &Side| -> Option<String> {
    if side.hs.is_some() {
      return Some("HandshakeComplete".into());
    }
    if !side.delivered.is_empty() {
      return Some("DeliverMessage".into());
    }
    if side.in_data() {
      return Some("phase=Data".into());
    }
    None
  };
  for t in script {
    if bytewise {
      for b in &t.bytes {
        let _ = side.feed(&[*b]);
        if let Some(w) = check(&side) {
          return Verdict { breached: Some(w), alive: true };
        }
      }
    } else {
      let _ = side.feed(&t.bytes);
      if let Some(w) = check(&side) {
        return Verdict { breached: Some(w), alive: true };
      }
    }
    if side.closed() {
      return Verdict { breached: None, alive: false };
    }
  }
  Verdict { breached: None, alive: !side.closed() }
}

/// For a PLAIN *connector*: did the peer script play PLAIN's server side (greeting announcing
/// PLAIN over v3, then WELCOME, then READY)?
fn plain_connector_legit(cfgname: &str, names: &[&str]) -> bool {
  if !(cfgname.starts_with("Plain connector")) {
    return false;
  }
  let g = names[0];
  if !(g.starts_with("G(rev3") || g.starts_with("G(rev4") || g.starts_with("G(rev255")) || !g.contains(",PLAIN,") {
    return false;
  }
  let w = names.iter().position(|n| *n == "WELCOME" || *n == "WELCOME(junk160)");
  let r = names.iter().rposition(|n| n.starts_with("READY"));
  matches!((w, r), (Some(w), Some(r)) if w < r)
}

fn greeting_class(name: &str) -> &'static str {
  if name.starts_with("G(v2") {
    "v2"
  } else if name.starts_with("G(rev3") {
    "v3"
  } else {
    "other-rev"
  }
}

#[allow(clippy::too_many_arguments)]
fn dfs(rep: &mut Report, cfg: &EngineCfg, server: bool, cfgname: &str, sigbase: &str, toks: &[Tok], prefix: &mut Vec<usize>, g: &Tok, depth: usize, stats: &mut (u64, u64)) {
  for (i, t) in toks.iter().enumerate() {
    prefix.push(i);
    let mut script: Vec<&Tok> = vec![g];
    script.extend(prefix.iter().map(|&j| &toks[j]));
    let names: Vec<&str> = script.iter().map(|t| t.name).collect();
    let mut alive = false;
    let mut breached_here = false;
    for bytewise in [false, true] {
      let v = play(cfg, server, &script, bytewise);
      stats.0 += 1;
      rep.case(&(cfgname, &names, bytewise), true);
      if let Some(w) = v.breached {
        breached_here = true;
        if plain_connector_legit(cfgname, &names) {
          // PLAIN authenticates the client to the server only: a peer that plays the server side
          // (PLAIN greeting, WELCOME, READY) HAS completed that very mechanism - nothing to hold
          // against the connector.
          rep.count("plain_connector_legit_completions", 1);
          continue;
        }
        rep.violation(
          format!("{}|greeting={}|last={}", sigbase, greeting_class(g.name), t.name),
          format!("{} reported {} for an unauthenticated peer script {:?} (bytewise={})", cfgname, w, names, bytewise),
          json!({"config": cfgname, "script": names, "bytewise": bytewise, "breach": w,
                 "bytes": script.iter().map(|t| hex(&t.bytes)).collect::<Vec<_>>()}),
        );
      }
      alive |= v.alive;
    }
    if alive && !breached_here && prefix.len() < depth {
      stats.1 += 1;
      dfs(rep, cfg, server, cfgname, sigbase, toks, prefix, g, depth, stats);
    }
    prefix.pop();
  }
}

fn engine_layer(rep: &mut Report, args: &Args, rng: &mut Rng) {
  let s = secrets(rng);
  let depth = if args.thorough() { 6 } else { 4 };
  let stypes = ["PULL", "ROUTER", "REP", "SUB", "DEALER"];
  let mut idx = 0;
  for m in [Mech::Plain, Mech::Curve, Mech::Noise] {
    for server in [true, false] {
      for allow in [None, Some(false)] {
        for stype in stypes {
          idx += 1;
          if !args.mine(idx) || (!args.thorough() && idx % 2 == 1 && stype != "PULL") {
            continue;
          }
          let cfg = victim_cfg(m, server, allow, stype, &s);
          let cfgname = format!("{:?} {} allow_zmtp2={} type={}", m, if server { "listener" } else { "connector" }, allow.map(|a| a.to_string()).unwrap_or("default".into()), stype);
          let sigbase = format!("bypass|{:?}|{}|allow_zmtp2={}", m, if server { "listener" } else { "connector" }, allow.map(|a| a.to_string()).unwrap_or("default".into()));
          // positive control: an honest peer with the right secrets completes
          {
            let honest = honest_peer_cfg(m, server, peer_type(stype), &s);
            let mut p = if server { Pair::new(&honest, false, &cfg, true) } else { Pair::new(&cfg, false, &honest, true) };
            p.start();
            let q = p.run(Sched::Random, rng, 20000);
            rep.cases(1);
            if !(q && p.a.in_data() && p.b.in_data()) {
              rep.violation(format!("positive_control_failed|{:?}", m), format!("honest peer could not complete {}", cfgname), json!({"a_errors": p.a.errors, "b_errors": p.b.errors}));
              continue;
            }
            rep.count("positive_controls_ok", 1);
            // replay the honest peer's recorded bytes against a FRESH victim (CURVE/NOISE: must fail)
            if m != Mech::Plain {
              let honest_side = if server { &p.a } else { &p.b };
              let transcript: Vec<u8> = honest_side.sent.iter().flat_map(|b| b.iter().copied()).collect();
              let t = Tok { name: "REPLAY(honest transcript)", bytes: transcript };
              for bytewise in [false, true] {
                let v = play(&cfg, server, &[&t], bytewise);
                rep.case(&(&cfgname, "replay", bytewise), true);
                if let Some(w) = v.breached {
                  rep.violation(format!("{}|replay", sigbase), format!("{} accepted a replayed handshake transcript ({})", cfgname, w), json!({"config": cfgname, "bytewise": bytewise}));
                }
              }
            }
          }
          let toks = tokens(rng, stype, &s);
          let mut stats = (0u64, 0u64);
          for g in greetings(stype) {
            // the greeting alone
            let v = play(&cfg, server, &[&g], false);
            rep.case(&(&cfgname, g.name), true);
            if let Some(w) = v.breached {
              rep.violation(format!("{}|greeting={}|last=greeting", sigbase, greeting_class(g.name)), format!("{} reported {} after only a greeting {}", cfgname, w, g.name), json!({"config": cfgname, "greeting": g.name}));
            }
            if v.alive {
              let mut prefix = vec![];
              dfs(rep, &cfg, server, &cfgname, &sigbase, &toks, &mut prefix, &g, depth, &mut stats);
            }
          }
          rep.count("scripts_played", stats.0);
          rep.count("alive_prefixes_expanded", stats.1);
          if idx % 7 == 0 {
            rep.sample(json!({"config": cfgname, "scripts_played": stats.0, "alive_prefixes_expanded": stats.1, "depth": depth, "token_vocabulary": toks.iter().map(|t| t.name).collect::<Vec<_>>()}));
          }
        }
      }
    }
  }
}

/// What mechanism does an endpoint with this configuration announce in its own greeting? (bytes 12..32 of the 64 it
/// sends once it has seen a ZMTP/3 peer's greeting)
fn announced_mechanism(cfg: &EngineCfg, server: bool) -> Option<String> {
  let mut side = Side::new(cfg.engine(server));
  let o = side.eng.start();
  let _ = side.absorb(o);
  let _ = side.feed(&refzmtp::greeting_raw(3, 0, b"NULL", !server));
  let sent: Vec<u8> = side.sent.iter().flat_map(|b| b.iter().copied()).collect();
  if sent.len() < 32 {
    return None;
  }
  Some(String::from_utf8_lossy(&sent[12..32]).trim_end_matches('\0').to_string())
}

/// (partial) option sets that switch a mechanism on without the usual companions - a CURVE secret key with neither
/// CURVE_SERVER nor a server key, PLAIN credentials without PLAIN_SERVER, NOISE_XX enabled with a secret key but no
/// pinned remote key - on listeners and connectors, ALLOW_ZMTP2 default / false. Whatever such a socket ANNOUNCES in
/// its own greeting is what it is configured with: if that is not NULL, no peer may reach the data phase without
/// completing that very mechanism (same attacker grammar, depth 3).
fn partial_layer(rep: &mut Report, args: &Args, rng: &mut Rng) {
  let s = secrets(rng);
  let b = |v: bool| (v as i32).to_ne_bytes().to_vec();
  let variants: Vec<(&'static str, Vec<(i32, Vec<u8>)>)> = vec![
    ("CURVE secret key only", vec![(opt::CURVE_SECRET_KEY, s.curve_srv.0.to_vec())]),
    ("CURVE secret key + CURVE_SERVER=false", vec![(opt::CURVE_SERVER, b(false)), (opt::CURVE_SECRET_KEY, s.curve_srv.0.to_vec())]),
    ("PLAIN username+password, no PLAIN_SERVER", vec![(opt::PLAIN_USERNAME, s.user.as_bytes().to_vec()), (opt::PLAIN_PASSWORD, s.pass.as_bytes().to_vec())]),
    ("PLAIN_SERVER=true, no credentials", vec![(opt::PLAIN_SERVER, b(true))]),
    ("NOISE_XX enabled + secret key, no remote key", vec![(opt::NOISE_XX_ENABLED, b(true)), (opt::NOISE_XX_STATIC_SECRET_KEY, s.noise_srv.0.to_vec())]),
  ];
  let mut idx = 0;
  for (vname, opts) in &variants {
    for server in [true, false] {
      for allow in [None, Some(false)] {
        for stype in ["PULL", "ROUTER"] {
          idx += 1;
          if !args.mine(idx) {
            continue;
          }
          let mut o = opts.clone();
          if let Some(a) = allow {
            o.push((opt::ALLOW_ZMTP2, b(a)));
          }
          let Ok(cfg) = rzmq::verif::engine_cfg_from_options(stype, &o) else {
            rep.count("partial_option_sets_refused_by_set_option", 1);
            continue;
          };
          let ann = announced_mechanism(&cfg, server);
          let cfgname = format!("[{}] {} allow_zmtp2={} type={} (announces {:?})", vname, if server { "listener" } else { "connector" }, allow.map(|a| a.to_string()).unwrap_or("default".into()), stype, ann);
          rep.cases(1);
          match ann.as_deref() {
            None | Some("NULL") | Some("") => {
              // these options do not switch the mechanism on: nothing to hold the socket to
              rep.count("partial_option_sets_that_announce_NULL", 1);
              continue;
            }
            Some(_) => rep.count("partial_option_sets_that_announce_a_mechanism", 1),
          }
          let mech = ann.clone().unwrap();
          // a PLAIN connector completes legitimately against a peer that plays PLAIN's server side
          let dfs_name = if mech == "PLAIN" && !server { format!("Plain connector {}", cfgname) } else { cfgname.clone() };
          let sigbase = format!("bypass|partial_options|{}|{}", mech, if server { "listener" } else { "connector" });
          let toks = tokens(rng, stype, &s);
          let mut stats = (0u64, 0u64);
          for g in greetings(stype) {
            let v = play(&cfg, server, &[&g], false);
            rep.case(&(&cfgname, g.name), true);
            if let Some(w) = v.breached {
              rep.violation(format!("{}|greeting={}|last=greeting", sigbase, greeting_class(g.name)), format!("{} reported {} after only a greeting {}", cfgname, w, g.name), json!({"config": cfgname, "greeting": g.name}));
            }
            if v.alive {
              let mut prefix = vec![];
              dfs(rep, &cfg, server, &dfs_name, &sigbase, &toks, &mut prefix, &g, 3, &mut stats);
            }
          }
          rep.count("scripts_played", stats.0);
        }
      }
    }
  }
  rep.sample(json!({"layer": "partial", "option_sets": variants.iter().map(|v| v.0).collect::<Vec<_>>()}));
}

// ---- stack level -------------------------------------------------------------------------------

async fn secure_socket(ctx: &rzmq::Context, t: SocketType, m: Mech, server: bool, s: &Secrets) -> rzmq::Socket {
  let sock = ctx.socket(t).unwrap();
  match m {
    Mech::Plain => {
      sock.set_option(opt::PLAIN_SERVER, server).await.unwrap();
      sock.set_option(opt::PLAIN_USERNAME, s.user.as_str()).await.unwrap();
      sock.set_option(opt::PLAIN_PASSWORD, s.pass.as_str()).await.unwrap();
    }
    Mech::Curve => {
      if server {
        sock.set_option(opt::CURVE_SERVER, true).await.unwrap();
        sock.set_option_raw(opt::CURVE_SECRET_KEY, &s.curve_srv.0).await.unwrap();
      } else {
        sock.set_option_raw(opt::CURVE_SECRET_KEY, &s.curve_cli.0).await.unwrap();
        sock.set_option_raw(opt::CURVE_SERVER_KEY, &s.curve_srv.1).await.unwrap();
      }
    }
    Mech::Noise => {
      sock.set_option(opt::NOISE_XX_ENABLED, true).await.unwrap();
      if server {
        sock.set_option_raw(opt::NOISE_XX_STATIC_SECRET_KEY, &s.noise_srv.0).await.unwrap();
      } else {
        sock.set_option_raw(opt::NOISE_XX_STATIC_SECRET_KEY, &s.noise_cli.0).await.unwrap();
        sock.set_option_raw(opt::NOISE_XX_REMOTE_STATIC_PUBLIC_KEY, &s.noise_srv.1).await.unwrap();
      }
    }
  }
  util::set_i32(&sock, opt::RCVTIMEO, 400).await;
  util::set_i32(&sock, opt::HANDSHAKE_IVL, 2000).await;
  sock
}

/// A real secured listener (PULL / ROUTER) fed by a raw attacker over tcp.
async fn stack_listener_case(rep: &mut Report, m: Mech, t: SocketType, script: &[Tok], s: &Secrets) {
  use rzmq::socket::SocketEvent;
  let ctx = util::new_ctx();
  let sock = secure_socket(&ctx, t, m, true, s).await;
  let mon = sock.monitor(64).await.unwrap();
  let ep = util::bind_fresh(&sock, util::Transport::Tcp).await.unwrap();
  let names: Vec<&str> = script.iter().map(|t| t.name).collect();
  let mut raw = match RawStream::connect(&ep).await {
    Ok(r) => r,
    Err(e) => {
      rep.inconclusive(format!("raw connect failed: {e}"));
      return;
    }
  };
  for tk in script {
    if raw.write_all(&tk.bytes).await.is_err() {
      break;
    }
    tokio::time::sleep(Duration::from_millis(15)).await;
  }
  let got = sock.recv().await;
  let hs = util::wait_event(&mon, Duration::from_millis(100), |e| matches!(e, SocketEvent::HandshakeSucceeded { .. })).await;
  rep.case(&("stack-listener", m, util::socket_type_name(t), &names), true);
  let gclass = greeting_class(script[0].name);
  if let Ok(msg) = &got {
    rep.violation(
      format!("stack_bypass|{:?}|listener|greeting={}|delivered", m, gclass),
      format!("{:?} listener ({}) delivered {:?} from an unauthenticated raw tcp peer playing {:?}", m, util::socket_type_name(t), String::from_utf8_lossy(msg.data().unwrap_or(&[])), names),
      json!({"script": names}),
    );
  } else if hs {
    rep.violation(format!("stack_bypass|{:?}|listener|greeting={}|handshake_succeeded", m, gclass), format!("{:?} listener reported HandshakeSucceeded for unauthenticated raw peer playing {:?}", m, names), json!({"script": names}));
  }
  drop(raw);
  let _ = tokio::time::timeout(Duration::from_secs(12), ctx.term()).await;
}

/// A real secured connector (PULL) connecting to a raw attacker "server".
async fn stack_connector_case(rep: &mut Report, m: Mech, script: &[Tok], s: &Secrets) {
  use rzmq::socket::SocketEvent;
  let ctx = util::new_ctx();
  let sock = secure_socket(&ctx, SocketType::Pull, m, false, s).await;
  let mon = sock.monitor(64).await.unwrap();
  let (lst, ep) = vh::rawpeer::RawListener::bind_tcp().await.unwrap();
  let names: Vec<&str> = script.iter().map(|t| t.name).collect();
  let _ = sock.connect(&ep).await;
  let mut raw = match tokio::time::timeout(Duration::from_secs(3), lst.accept()).await {
    Ok(Ok(r)) => r,
    _ => {
      rep.inconclusive("connector never reached the raw listener".to_string());
      return;
    }
  };
  for tk in script {
    if raw.write_all(&tk.bytes).await.is_err() {
      break;
    }
    tokio::time::sleep(Duration::from_millis(15)).await;
  }
  let got = sock.recv().await;
  let hs = util::wait_event(&mon, Duration::from_millis(100), |e| matches!(e, SocketEvent::HandshakeSucceeded { .. })).await;
  rep.case(&("stack-connector", m, &names), true);
  let gclass = greeting_class(script[0].name);
  if got.is_ok() {
    rep.violation(format!("stack_bypass|{:?}|connector|greeting={}|delivered", m, gclass), format!("{:?} connector delivered a message from an unauthenticated raw tcp listener playing {:?}", m, names), json!({"script": names}));
  } else if hs {
    rep.violation(format!("stack_bypass|{:?}|connector|greeting={}|handshake_succeeded", m, gclass), format!("{:?} connector reported HandshakeSucceeded for unauthenticated raw listener playing {:?}", m, names), json!({"script": names}));
  }
  drop(raw);
  let _ = tokio::time::timeout(Duration::from_secs(12), ctx.term()).await;
}

async fn stack_positive_control(rep: &mut Report, m: Mech, s: &Secrets) {
  let ctx = util::new_ctx();
  let srv = secure_socket(&ctx, SocketType::Pull, m, true, s).await;
  util::set_i32(&srv, opt::RCVTIMEO, 3000).await;
  let cli = secure_socket(&ctx, SocketType::Push, m, false, s).await;
  let ep = util::bind_fresh(&srv, util::Transport::Tcp).await.unwrap();
  cli.connect(&ep).await.unwrap();
  let _ = tokio::time::timeout(Duration::from_secs(3), cli.send(util::msg(b"hello".to_vec(), false))).await;
  let r = srv.recv().await;
  rep.cases(1);
  match r {
    Ok(mg) if mg.data() == Some(b"hello") => rep.count("stack_positive_controls_ok", 1),
    other => rep.violation(format!("stack_positive_control_failed|{:?}", m), format!("honest {:?} PUSH->PULL over tcp did not deliver: {:?}", m, other.map(|m| m.size())), json!({})),
  }
  let _ = tokio::time::timeout(Duration::from_secs(12), ctx.term()).await;
}

fn stack_layer(rep: &mut Report, args: &Args, rng: &mut Rng) {
  let rt = util::runtime(2);
  let s = secrets(rng);
  let n = if args.thorough() { 40 } else { 5 };
  let mut idx = 0;
  for m in [Mech::Plain, Mech::Curve, Mech::Noise] {
    idx += 1;
    if args.mine(idx) {
      rt.block_on(stack_positive_control(rep, m, &s));
    }
    for t in [SocketType::Pull, SocketType::Router] {
      let stype = util::socket_type_name(t);
      let toks = tokens(rng, stype, &s);
      let gs = greetings(stype);
      // always include the decisive scripts; then random ones
      let mut scripts: Vec<Vec<Tok>> = vec![];
      let g = |n: &str| gs.iter().find(|x| x.name == n).unwrap().clone();
      let tk = |n: &str| toks.iter().find(|x| x.name == n).unwrap().clone();
      scripts.push(vec![g("G(v2,anon)"), tk("DATA")]);
      scripts.push(vec![g("G(rev3.0,NULL,srv=0)"), tk("READY"), tk("DATA")]);
      scripts.push(vec![g("G(rev3.0,PLAIN,srv=0)"), tk("HELLO(wrong)"), tk("READY"), tk("DATA")]);
      scripts.push(vec![g("G(rev3.0,PLAIN,srv=0)"), tk("READY"), tk("DATA")]);
      if m == Mech::Plain {
        // near-miss credentials against the live listener (the engine-level sweep is the creds layer)
        let pw = s.pass.as_bytes();
        let mut ext = pw.to_vec();
        ext.extend_from_slice(b"-and-more");
        for (name, p) in [("HELLO(user-ok,pass-empty)", vec![]), ("HELLO(user-ok,pass-prefix)", pw[..pw.len() / 2].to_vec()), ("HELLO(user-ok,pass-extended)", ext)] {
          let h = Tok { name, bytes: enc(refzmtp::plain_hello(s.user.as_bytes(), &p)) };
          scripts.push(vec![g("G(rev3.0,PLAIN,srv=0)"), h, tk("READY"), tk("DATA")]);
        }
      }
      for _ in 0..n {
        let mut sc = vec![rng.pick(&gs).clone()];
        for _ in 0..rng.range(1, 4) {
          sc.push(rng.pick(&toks).clone());
        }
        sc.push(tk("DATA"));
        scripts.push(sc);
      }
      for sc in scripts {
        idx += 1;
        if !args.mine(idx) {
          continue;
        }
        rt.block_on(stack_listener_case(rep, m, t, &sc, &s));
        if t == SocketType::Pull {
          rt.block_on(stack_connector_case(rep, m, &sc, &s));
        }
      }
    }
  }
}

/// (creds) the PLAIN server's credential comparison, probed exhaustively around the configured pair: every proper
/// prefix, extensions, every single-byte change, empty fields, swapped fields. Only the exact pair may be admitted.
fn cred_variants(user: &[u8], pass: &[u8]) -> Vec<(&'static str, Vec<u8>, Vec<u8>)> {
  let mut v: Vec<(&'static str, Vec<u8>, Vec<u8>)> = vec![];
  let near = |x: &[u8], tag: [&'static str; 4]| -> Vec<(&'static str, Vec<u8>)> {
    let mut o: Vec<(&'static str, Vec<u8>)> = vec![(tag[0], vec![])];
    for k in 1..x.len() {
      o.push((tag[1], x[..k].to_vec()));
    }
    for ext in [&b"x"[..], &b"\0"[..], x, &b"-and-more"[..]] {
      let mut e = x.to_vec();
      e.extend_from_slice(ext);
      o.push((tag[2], e));
    }
    for i in 0..x.len() {
      for m in [0x01u8, 0x20, 0x80] {
        let mut f = x.to_vec();
        f[i] ^= m;
        o.push((tag[3], f));
      }
    }
    o.retain(|(_, y)| y.as_slice() != x && y.len() <= 255);
    o
  };
  for (c, p) in near(pass, ["pass_empty", "pass_prefix", "pass_extended", "pass_byte_changed"]) {
    v.push((c, user.to_vec(), p));
  }
  for (c, u) in near(user, ["user_empty", "user_prefix", "user_extended", "user_byte_changed"]) {
    v.push((c, u, pass.to_vec()));
  }
  v.push(("both_empty", vec![], vec![]));
  if user != pass {
    v.push(("swapped", pass.to_vec(), user.to_vec()));
  }
  if user.len() > 1 && pass.len() > 1 {
    v.push(("both_prefix", user[..user.len() - 1].to_vec(), pass[..pass.len() - 1].to_vec()));
  }
  v
}

fn creds_layer(rep: &mut Report, args: &Args, rng: &mut Rng) {
  let n = if args.thorough() { 60 } else { 12 };
  for k in 0..n {
    if !args.mine(k) {
      continue;
    }
    let mut s = secrets(rng);
    match k % 4 {
      0 => {
        s.user = "admin".into();
        s.pass = "secret".into();
      }
      1 => {
        s.user = String::from_utf8(rng.bytes_in(1, 1).iter().map(|b| b'a' + b % 26).collect()).unwrap();
        s.pass = String::from_utf8(rng.bytes_in(1, 2).iter().map(|b| b'a' + b % 26).collect()).unwrap();
      }
      2 => {
        s.user = String::from_utf8(rng.bytes_in(2, 10).iter().map(|b| b'!' + b % 90).collect()).unwrap();
        s.pass = String::from_utf8(rng.bytes_in(3, 14).iter().map(|b| b'!' + b % 90).collect()).unwrap();
      }
      _ => {}
    }
    let stype = if k % 2 == 0 { "PULL" } else { "ROUTER" };
    let pt = peer_type(stype);
    let cfg = victim_cfg(Mech::Plain, true, None, stype, &s);
    let g = Tok { name: "G(rev3.0,PLAIN,srv=0)", bytes: refzmtp::greeting_raw(3, 0, b"PLAIN", false) };
    let ready = Tok { name: "READY", bytes: enc(refzmtp::ready(pt, None)) };
    let data = Tok { name: "DATA", bytes: enc(Frame::data(b"UNAUTH", false)) };
    // positive control: the monitor must be able to see an admission
    let good = Tok { name: "HELLO(exact)", bytes: enc(refzmtp::plain_hello(s.user.as_bytes(), s.pass.as_bytes())) };
    let ctl = play(&cfg, true, &[&g, &good, &ready, &data], false);
    if ctl.breached.is_none() {
      rep.inconclusive(format!("creds: the exact PLAIN credentials were not admitted by the engine (user len {}, pass len {}): admission is not observable", s.user.len(), s.pass.len()));
      continue;
    }
    for (class, u, p) in cred_variants(s.user.as_bytes(), s.pass.as_bytes()) {
      let hello = Tok { name: "HELLO(variant)", bytes: enc(refzmtp::plain_hello(&u, &p)) };
      for bytewise in [false, true] {
        let v = play(&cfg, true, &[&g, &hello, &ready, &data], bytewise);
        rep.case(&("creds", class, u.len(), p.len(), s.user.len(), s.pass.len(), bytewise, stype), true);
        if let Some(w) = v.breached {
          rep.violation(
            format!("plain_wrong_credentials_admitted|{}", class),
            format!("PLAIN server configured with user {:?} / password {:?} reported {} for HELLO({:?}, {:?})", s.user, s.pass, w, String::from_utf8_lossy(&u), String::from_utf8_lossy(&p)),
            json!({"class": class, "configured": [s.user, s.pass], "offered": [hex(&u), hex(&p)], "bytewise": bytewise}),
          );
        }
      }
    }
  }
}

fn main() {
  let args = Args::parse();
  util::install_panic_watch();
  let mut rep = Report::new("C06", &args.shard_name());
  let mut rng = Rng::new(args.seed.wrapping_mul(104729).wrapping_add(args.shard as u64));
  match args.only.as_deref() {
    Some("stack") => stack_layer(&mut rep, &args, &mut rng),
    Some("creds") => creds_layer(&mut rep, &args, &mut rng),
    Some("partial") => partial_layer(&mut rep, &args, &mut rng),
    _ => engine_layer(&mut rep, &args, &mut rng),
  }
  // panics inside rzmq while parsing attacker input belong to C07; note them here without verdict
  let ps = util::take_panics();
  if !ps.is_empty() {
    rep.note(format!("{} panic(s) observed while playing attacker scripts (decided under C07), first at {}", ps.len(), ps[0].location));
    rep.count("panics_observed(C07)", ps.len() as u64);
  }
  rep.merge_hooks();
  rep.emit();
}

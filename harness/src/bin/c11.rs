//! C11 — ROUTER addresses by true peer identity; envelopes round-trip unchanged.
//! Each payload carries the true label of its sender and of its intended recipient; identity
//! prefixes reported by ROUTER are compared with what each peer announced; frame lists are
//! compared exactly (empty frames in every position).

use rzmq::socket::options as opt;
use rzmq::{Socket, SocketType};
use serde_json::json;
use std::collections::HashMap;
use std::time::Duration;
use vh::args::Args;
use vh::gen::Rng;
use vh::report::{hex, Report};
use vh::util::{self, Transport};

#[derive(Clone, Debug, PartialEq, Eq, Hash)]
enum IdKind {
  Absent,
  One,
  Max255,
  Named(u8),
}

fn id_bytes(k: &IdKind, idx: usize) -> Option<Vec<u8>> {
  match k {
    IdKind::Absent => None,
    IdKind::One => Some(vec![b'A' + idx as u8]),
    IdKind::Max255 => Some((0..255u32).map(|i| ((i * 7 + idx as u32) % 250) as u8 + 1).collect()),
    IdKind::Named(n) => Some(format!("peer-{}", n).into_bytes()),
  }
}

/// payload shapes: 1..4 frames, empty / non-empty in every position; the label frame is marked
fn shapes() -> Vec<Vec<bool>> {
  // true = non-empty frame, false = empty frame
  let mut v = vec![];
  for n in 1..=4usize {
    for mask in 0..(1u32 << n) {
      v.push((0..n).map(|i| mask & (1 << i) != 0).collect());
    }
  }
  v
}

fn build_payload(shape: &[bool], label: &str) -> Vec<Vec<u8>> {
  shape.iter().enumerate().map(|(i, ne)| if *ne { format!("{}#f{}", label, i).into_bytes() } else { vec![] }).collect()
}

fn to_vecs(m: Vec<rzmq::Msg>) -> Vec<Vec<u8>> {
  m.into_iter().map(|f| f.data().unwrap_or(&[]).to_vec()).collect()
}

fn msgs(frames: &[Vec<u8>]) -> Vec<rzmq::Msg> {
  let n = frames.len();
  frames.iter().enumerate().map(|(i, f)| util::msg(f.clone(), i + 1 < n)).collect()
}

/// With AUTO_DELIMITER off the application handles the envelope itself and rzmq's conventions
/// for who adds/strips the empty delimiter (and whether a routing-id frame is kept) differ per
/// peer type; nothing in the property pins them down. In manual mode frame lists are therefore
/// compared after dropping a leading routing-id frame and leading empty frames - everything after
/// the first non-empty payload frame (interior and trailing empties included) must be identical.
fn norm(v: &[Vec<u8>], id: Option<&[u8]>, manual: bool) -> Vec<Vec<u8>> {
  if !manual {
    return v.to_vec();
  }
  let mut v = v.to_vec();
  if let (Some(id), Some(f)) = (id, v.first()) {
    if f.as_slice() == id {
      v.remove(0);
    }
  }
  while v.first().map_or(false, |f| f.is_empty()) {
    v.remove(0);
  }
  v
}

struct PeerH {
  sock: Socket,
  kind: SocketType,
  announced: Option<Vec<u8>>,
  label: String,
}

async fn mk_peer(ctx: &rzmq::Context, kind: SocketType, id: Option<Vec<u8>>, manual: bool, label: &str) -> PeerH {
  let s = ctx.socket(kind).unwrap();
  util::set_i32(&s, opt::RCVTIMEO, 1500).await;
  util::set_i32(&s, opt::SNDTIMEO, 1500).await;
  util::set_i32(&s, opt::RECONNECT_IVL, 60_000).await;
  if let Some(i) = &id {
    s.set_option_raw(opt::ROUTING_ID, i).await.unwrap();
  }
  if manual && kind != SocketType::Req {
    let _ = s.set_option(opt::AUTO_DELIMITER, false).await;
  }
  PeerH { sock: s, kind, announced: id, label: label.to_string() }
}

#[allow(clippy::too_many_arguments)]
async fn scenario(rep: &mut Report, rng: &mut Rng, tr: Transport, peer_kinds: &[SocketType], ids: &[IdKind], manual: bool, mandatory: bool, first_at_connect: bool, use_recv_frames: bool) {
  let ctx = util::new_ctx();
  let router = ctx.socket(SocketType::Router).unwrap();
  util::set_i32(&router, opt::RCVTIMEO, 1500).await;
  util::set_i32(&router, opt::SNDTIMEO, 1500).await;
  router.set_option(opt::ROUTER_MANDATORY, mandatory).await.unwrap();
  router.set_option_raw(opt::ROUTING_ID, b"THE-ROUTER").await.unwrap();
  if manual {
    router.set_option(opt::AUTO_DELIMITER, false).await.unwrap();
  }
  let ep = match util::bind_fresh(&router, tr).await {
    Ok(e) => e,
    Err(e) => {
      rep.inconclusive(format!("bind: {e}"));
      return;
    }
  };
  let cfg = format!("tr={} peers={:?} ids={:?} auto_delimiter={} mandatory={} first_at_connect={} read={}", tr.name(), peer_kinds.iter().map(|k| util::socket_type_name(*k)).collect::<Vec<_>>(), ids, !manual, mandatory, first_at_connect, if use_recv_frames { "recv" } else { "recv_multipart" });
  let sigbase = format!("auto_delimiter={}", !manual);
  let all_shapes = shapes();
  let mut peers: Vec<PeerH> = vec![];
  for (i, k) in peer_kinds.iter().enumerate() {
    let idk = &ids[i % ids.len()];
    let p = mk_peer(&ctx, *k, id_bytes(idk, i), manual, &format!("P{}", i)).await;
    peers.push(p);
  }
  // ---- connect (+ first message in the same instant) ----
  let mut expected_from: Vec<(usize, Vec<Vec<u8>>)> = vec![]; // (peer idx, payload)
  for (i, p) in peers.iter().enumerate() {
    if let Err(e) = p.sock.connect(&ep).await {
      rep.inconclusive(format!("connect: {e}"));
      return;
    }
    if first_at_connect && p.kind == SocketType::Dealer {
      let pl = build_payload(&[true], &format!("{}>R:first", p.label));
      let wire = if manual { [vec![vec![]], pl.clone()].concat() } else { pl.clone() };
      if p.sock.send_multipart(msgs(&wire)).await.is_ok() {
        expected_from.push((i, if manual { wire } else { pl }));
      }
    }
  }
  if !first_at_connect {
    tokio::time::sleep(Duration::from_millis(if tr == Transport::Inproc { 60 } else { 250 })).await;
  }
  // ---- peers -> ROUTER ----
  let mut reported_id: HashMap<usize, Vec<u8>> = HashMap::new();
  let read_one = |router: Socket, frames_style: bool| async move {
    if frames_style {
      let mut v = vec![];
      loop {
        match router.recv().await {
          Ok(f) => {
            let more = f.is_more();
            v.push(f.data().unwrap_or(&[]).to_vec());
            if !more {
              return Ok(v);
            }
          }
          Err(e) => return Err(e),
        }
      }
    } else {
      router.recv_multipart().await.map(to_vecs)
    }
  };
  let rounds = 3;
  for round in 0..rounds {
    for (i, p) in peers.iter().enumerate() {
      let shape = rng.pick(&all_shapes).clone();
      let pl = build_payload(&shape, &format!("{}>R:{}", p.label, round));
      let sendres = match p.kind {
        SocketType::Req => {
          // REQ carries one frame
          let one = vec![pl.iter().find(|f| !f.is_empty()).cloned().unwrap_or_else(|| format!("{}>R:{}#only", p.label, round).into_bytes())];
          let r = p.sock.send(util::msg(one[0].clone(), false)).await;
          if r.is_ok() {
            // a ROUTER in manual mode sees the raw wire frames: REQ's empty delimiter included
            expected_from.push((i, if manual { [vec![vec![]], one].concat() } else { one }));
          }
          r
        }
        SocketType::Router => {
          let mut w = vec![b"THE-ROUTER".to_vec()];
          w.extend(pl.clone());
          let r = p.sock.send_multipart(msgs(&w)).await;
          if r.is_ok() {
            expected_from.push((i, pl.clone()));
          }
          r
        }
        _ => {
          let wire = if manual { [vec![vec![]], pl.clone()].concat() } else { pl.clone() };
          let r = p.sock.send_multipart(msgs(&wire)).await;
          if r.is_ok() {
            expected_from.push((i, if manual { wire } else { pl.clone() }));
          }
          r
        }
      };
      if let Err(e) = sendres {
        rep.note(format!("peer send failed: {:?} ({})", e, cfg));
      }
      // read what is there so far (lock-step keeps DEALER egress ordered)
      while !expected_from.is_empty() {
        let got = match read_one(router.clone(), use_recv_frames).await {
          Ok(g) => g,
          Err(_) => break,
        };
        rep.cases(1);
        if got.is_empty() {
          continue;
        }
        let idf = got[0].clone();
        let payload: Vec<Vec<u8>> = got[1..].to_vec();
        // which peer really sent it? (label inside the payload)
        let who = expected_from.iter().position(|(_, pl)| norm(pl, None, manual) == norm(&payload, None, manual));
        match who {
          None => {
            // payload not equal to anything sent: envelope damage (or misdelivery)
            let label_hit = expected_from.iter().find(|(_, pl)| pl.iter().filter(|f| !f.is_empty()).all(|f| payload.contains(f)));
            rep.violation(
              format!("payload_changed_towards_router|{}|peer={}", sigbase, label_hit.map(|(i, _)| util::socket_type_name(peers[*i].kind)).unwrap_or("?")),
              format!("ROUTER delivered a frame list that no peer sent: got {:?}, closest sent {:?} ({})", payload.iter().map(|f| String::from_utf8_lossy(f).into_owned()).collect::<Vec<_>>(), label_hit.map(|(_, pl)| pl.iter().map(|f| String::from_utf8_lossy(f).into_owned()).collect::<Vec<_>>()), cfg),
              json!({"config": cfg, "got_frames": payload.iter().map(|f| f.len()).collect::<Vec<_>>(), "sent_frames": label_hit.map(|(_, pl)| pl.iter().map(|f| f.len()).collect::<Vec<_>>())}),
            );
            if let Some(pos) = label_hit.map(|(i, _)| *i).and_then(|i| expected_from.iter().position(|(j, _)| *j == i)) {
              expected_from.remove(pos);
            } else {
              break;
            }
          }
          Some(pos) => {
            let (pi, _) = expected_from.remove(pos);
            let p = &peers[pi];
            match &p.announced {
              Some(a) => {
                let collides = peers.iter().filter(|q| q.announced.as_ref() == Some(a)).count() > 1;
                if idf != *a && !collides {
                  let placeholder = idf.starts_with(b"pipe:");
                  rep.violation(
                    format!("wrong_identity_prefix|{}|{}", if placeholder { "placeholder_for_announced_identity" } else { "another_identity" }, if first_at_connect { "first_message_at_connect" } else { "steady" }),
                    format!("ROUTER prefixed a message from the peer that announced {} with {} ({})", hex(a), hex(&idf), cfg),
                    json!({"config": cfg, "announced": hex(a), "reported": hex(&idf)}),
                  );
                }
              }
              None => {
                if let Some(prev) = reported_id.get(&pi) {
                  if *prev != idf {
                    rep.violation("anonymous_peer_identity_changed".to_string(), format!("ROUTER reported {} and then {} for the same anonymous peer ({})", hex(prev), hex(&idf), cfg), json!({"config": cfg}));
                  }
                }
                if peers.iter().enumerate().any(|(j, q)| j != pi && q.announced.as_ref() == Some(&idf)) {
                  rep.violation("anonymous_peer_got_anothers_identity".to_string(), format!("ROUTER reported another peer's identity {} for an anonymous peer ({})", hex(&idf), cfg), json!({"config": cfg}));
                }
              }
            }
            reported_id.insert(pi, idf.clone());
            // REQ peers need their reply now
            if p.kind == SocketType::Req {
              let reply = vec![idf.clone(), format!("R>{}:reply{}", p.label, round).into_bytes()];
              let w = if manual { vec![reply[0].clone(), vec![], reply[1].clone()] } else { reply.clone() };
              let _ = router.send_multipart(msgs(&w)).await;
              match p.sock.recv_multipart().await {
                Ok(m) => {
                  let v = to_vecs(m);
                  if norm(&v, None, manual) != vec![reply[1].clone()] {
                    rep.violation(format!("payload_changed_towards_peer|{}|peer=REQ", sigbase), format!("REQ received {:?} for a one-frame reply ({})", v.iter().map(|f| String::from_utf8_lossy(f).into_owned()).collect::<Vec<_>>(), cfg), json!({"config": cfg}));
                  }
                }
                Err(e) => rep.violation(format!("reply_not_delivered|{}|peer=REQ", sigbase), format!("REQ got no reply from ROUTER addressed to {}: {:?} ({})", hex(&idf), e, cfg), json!({"config": cfg})),
              }
            }
          }
        }
      }
    }
  }
  if !expected_from.is_empty() {
    rep.violation(format!("message_to_router_lost|{}|{}", sigbase, if first_at_connect { "first_message_at_connect" } else { "steady" }), format!("{} message(s) sent by peers never reached ROUTER.recv ({})", expected_from.len(), cfg), json!({"config": cfg, "missing_from": expected_from.iter().map(|(i, _)| peers[*i].label.clone()).collect::<Vec<_>>()}));
  }
  // ---- ROUTER -> peers, addressed by the identity ROUTER itself reported ----
  for (pi, idf) in reported_id.clone() {
    let p = &peers[pi];
    if p.kind == SocketType::Req {
      continue;
    }
    let shape = rng.pick(&all_shapes).clone();
    let pl = build_payload(&shape, &format!("R>{}", p.label));
    let mut w = vec![idf.clone()];
    if manual && p.kind != SocketType::Router {
      w.push(vec![]);
    }
    w.extend(pl.clone());
    let r = router.send_multipart(msgs(&w)).await;
    rep.cases(1);
    if let Err(e) = r {
      rep.violation(format!("send_to_reported_identity_failed|{}", sigbase), format!("ROUTER could not send to the identity {} it reported itself: {:?} ({})", hex(&idf), e, cfg), json!({"config": cfg}));
      continue;
    }
    // exactly the claimant(s) of that identity may receive it
    let mut receivers = vec![];
    for (qi, q) in peers.iter().enumerate() {
      if q.kind == SocketType::Req {
        continue;
      }
      let claimant = qi == pi || (q.announced.is_some() && q.announced == p.announced);
      let wait = if claimant { 1200 } else { 120 };
      if let Ok(Ok(m)) = tokio::time::timeout(Duration::from_millis(wait), q.sock.recv_multipart()).await {
        let mut v = to_vecs(m);
        if q.kind == SocketType::Router && !v.is_empty() {
          v.remove(0); // identity of THE-ROUTER
        }
        receivers.push((qi, v));
      }
    }
    let want = if manual && p.kind != SocketType::Router { [vec![vec![]], pl.clone()].concat() } else { pl.clone() };
    let mut delivered_ok = false;
    for (qi, v) in &receivers {
      let q = &peers[*qi];
      let claimant = *qi == pi || (q.announced.is_some() && q.announced == p.announced);
      if !claimant {
        rep.violation("delivered_to_peer_that_did_not_announce_identity".to_string(), format!("a message addressed to {} was received by {} which announced {:?} ({})", hex(&idf), q.label, q.announced.as_ref().map(|a| hex(a)), cfg), json!({"config": cfg}));
      } else if peers.iter().filter(|x| x.announced.is_some() && x.announced == q.announced).count() > 1 {
        // colliding identities: either claimant may receive, and which of the interleaved
        // messages it sees first is not determined - only the non-claimant rule is judged
        delivered_ok = true;
      } else if norm(v, Some(&idf), manual) != norm(&want, Some(&idf), manual) {
        rep.violation(format!("payload_changed_towards_peer|{}|peer={}", sigbase, util::socket_type_name(q.kind)), format!("{} received {:?} but ROUTER sent payload {:?} ({})", q.label, v.iter().map(|f| String::from_utf8_lossy(f).into_owned()).collect::<Vec<_>>(), want.iter().map(|f| String::from_utf8_lossy(f).into_owned()).collect::<Vec<_>>(), cfg), json!({"config": cfg, "got_frames": v.iter().map(|f| f.len()).collect::<Vec<_>>(), "sent_frames": want.iter().map(|f| f.len()).collect::<Vec<_>>()}));
        delivered_ok = true;
      } else {
        delivered_ok = true;
      }
    }
    if !delivered_ok {
      rep.violation(format!("not_delivered_to_identity|{}|peer={}", sigbase, util::socket_type_name(p.kind)), format!("a message addressed to {} reached nobody ({})", hex(&idf), cfg), json!({"config": cfg}));
    }
  }
  // ---- unknown identity ----
  {
    let w = vec![b"nobody-has-this-id".to_vec(), b"lost?".to_vec()];
    let r = router.send_multipart(msgs(&w)).await;
    rep.cases(1);
    if mandatory {
      if !matches!(r, Err(rzmq::ZmqError::HostUnreachable(_))) {
        rep.violation("mandatory_unknown_identity_not_host_unreachable".to_string(), format!("ROUTER_MANDATORY=1, unknown identity: send returned {:?} ({})", r.map_err(|e| util::err_kind(&e)), cfg), json!({"config": cfg}));
      }
    } else {
      if r.is_err() {
        rep.violation("non_mandatory_unknown_identity_errors".to_string(), format!("ROUTER_MANDATORY=0, unknown identity: send returned {:?} instead of dropping silently ({})", r.map_err(|e| util::err_kind(&e)), cfg), json!({"config": cfg}));
      }
      for q in &peers {
        if q.kind == SocketType::Req {
          continue;
        }
        if let Ok(Ok(m)) = tokio::time::timeout(Duration::from_millis(80), q.sock.recv_multipart()).await {
          rep.violation("unknown_identity_message_delivered_to_someone".to_string(), format!("a message for an unknown identity was delivered to {}: {:?} ({})", q.label, to_vecs(m).iter().map(|f| String::from_utf8_lossy(f).into_owned()).collect::<Vec<_>>(), cfg), json!({"config": cfg}));
        }
      }
    }
  }
  // ---- disconnect + reconnect with the same identity ----
  if let Some((pi, p)) = peers.iter().enumerate().find(|(_, p)| p.kind == SocketType::Dealer && p.announced.is_some() && peers.iter().filter(|q| q.announced == p.announced).count() == 1) {
    let id = p.announced.clone().unwrap();
    let _ = p.sock.close().await;
    tokio::time::sleep(Duration::from_millis(300)).await;
    let np = mk_peer(&ctx, SocketType::Dealer, Some(id.clone()), manual, "P-re").await;
    if np.sock.connect(&ep).await.is_ok() {
      tokio::time::sleep(Duration::from_millis(300)).await;
      // new peer says hello so that the ROUTER learns it
      let hello = vec![b"P-re>R:hello".to_vec()];
      let wire = if manual { [vec![vec![]], hello.clone()].concat() } else { hello.clone() };
      let _ = np.sock.send_multipart(msgs(&wire)).await;
      let got = router.recv_multipart().await.map(to_vecs);
      rep.cases(1);
      match got {
        Ok(g) if !g.is_empty() && g[0] == id => {
          let pl = vec![b"R>P-re:welcome-back".to_vec()];
          let mut w = vec![id.clone()];
          if manual {
            w.push(vec![]);
          }
          w.extend(pl.clone());
          let _ = router.send_multipart(msgs(&w)).await;
          match np.sock.recv_multipart().await.map(to_vecs) {
            Ok(v) if norm(&v, Some(&id), manual) == norm(&pl, Some(&id), manual) => {}
            other => rep.violation("reconnect_same_identity_not_routed_to_new_connection".to_string(), format!("after peer {} closed and a new socket connected with the same identity {}, a message for that identity did not reach the new connection: {:?} ({})", pi, hex(&id), other.map(|v| v.len()).map_err(|e| util::err_kind(&e)), cfg), json!({"config": cfg})),
          }
        }
        other => rep.violation("reconnect_same_identity_wrong_prefix".to_string(), format!("after reconnecting with identity {} the ROUTER reported {:?} ({})", hex(&id), other.map(|g| g.first().map(|f| hex(f))).map_err(|e| util::err_kind(&e)), cfg), json!({"config": cfg})),
      }
    }
  }
  rep.case(&cfg, true);
  let _ = tokio::time::timeout(Duration::from_secs(12), ctx.term()).await;
}

/// (poll) a ROUTER read by polling (RCVTIMEO 0 / 1 / 5 ms) or blocking while waves of peers connect at once and send
/// their first message in the same instant: the identity frame of every message must be the identity its peer announced
/// (the payload names the peer), anonymous peers get one stable placeholder, and a reply to the reported identity reaches
/// that very peer.
async fn poll_case(rep: &mut Report, tr: Transport, rcvtimeo: i32, wave: usize, waves: usize, with_anonymous: bool) {
  let ctx = util::new_ctx();
  let router = ctx.socket(SocketType::Router).unwrap();
  util::set_i32(&router, opt::RCVTIMEO, rcvtimeo).await;
  util::set_i32(&router, opt::SNDTIMEO, 1500).await;
  router.set_option(opt::ROUTER_MANDATORY, true).await.unwrap();
  let ep = match util::bind_fresh(&router, tr).await {
    Ok(e) => e,
    Err(e) => {
      rep.inconclusive(format!("bind: {e}"));
      return;
    }
  };
  let total = wave * waves;
  let r2 = router.clone();
  // poller: records (identity frame, payload) for every message and answers to the reported identity
  let poller = tokio::spawn(async move {
    let mut seen: Vec<(Vec<u8>, Vec<u8>, bool)> = vec![];
    let t0 = std::time::Instant::now();
    while seen.len() < total && t0.elapsed() < util::scaled(Duration::from_secs(20)) {
      match r2.recv_multipart().await {
        Ok(m) => {
          let v = to_vecs(m);
          if v.len() >= 2 {
            let id = v[0].clone();
            let payload = v[v.len() - 1].clone();
            let reply = msgs(&[id.clone(), [b"re:".to_vec(), payload.clone()].concat()]);
            let routable = r2.send_multipart(reply).await.is_ok();
            seen.push((id, payload, routable));
          }
        }
        Err(_) => tokio::task::yield_now().await,
      }
    }
    seen
  });
  let mut peers: Vec<(Socket, Option<Vec<u8>>, Vec<u8>)> = vec![];
  for w in 0..waves {
    let mut hs = vec![];
    for k in 0..wave {
      let anonymous = with_anonymous && k % 4 == 3;
      let name = format!("peer-{:02}-{:02}", w, k).into_bytes();
      let ctx2 = ctx.clone();
      let ep2 = ep.clone();
      hs.push(tokio::spawn(async move {
        let d = ctx2.socket(SocketType::Dealer).unwrap();
        util::set_i32(&d, opt::RCVTIMEO, 3000 * util::slow_factor() as i32).await;
        util::set_i32(&d, opt::SNDTIMEO, 1500 * util::slow_factor() as i32).await;
        if !anonymous {
          d.set_option_raw(opt::ROUTING_ID, &name).await.unwrap();
        }
        let _ = d.connect(&ep2).await;
        let sent = d.send(util::msg(name.clone(), false)).await.is_ok();
        (d, if anonymous { None } else { Some(name.clone()) }, name, sent)
      }));
    }
    for h in hs {
      if let Ok((d, ann, name, sent)) = h.await {
        if sent {
          peers.push((d, ann, name));
        }
      }
    }
  }
  let seen = match tokio::time::timeout(util::scaled(Duration::from_secs(25)), poller).await {
    Ok(Ok(s)) => s,
    _ => {
      rep.inconclusive("poll case: the poller did not finish".to_string());
      let _ = tokio::time::timeout(Duration::from_secs(12), ctx.term()).await;
      return;
    }
  };
  let mode = if rcvtimeo == 0 { "rcvtimeo=0" } else if rcvtimeo < 0 { "blocking" } else { "timed" };
  rep.case(&("poll", tr, rcvtimeo, wave, waves, with_anonymous, seen.len()), true);
  rep.count("poll_messages_observed", seen.len() as u64);
  let mut wrong = 0usize;
  let mut unroutable = 0usize;
  let mut first: Option<String> = None;
  for (id, payload, routable) in &seen {
    let peer = peers.iter().find(|p| &p.2 == payload);
    let Some((_, ann, _)) = peer else { continue };
    match ann {
      Some(a) => {
        if id != a {
          wrong += 1;
          first.get_or_insert(format!("message of the peer that announced {:?} was prefixed with {:?}", String::from_utf8_lossy(a), String::from_utf8_lossy(id)));
        }
      }
      None => {}
    }
    if !routable {
      unroutable += 1;
      first.get_or_insert(format!("reply addressed to the reported identity {:?} (peer {:?}) was refused as unroutable", String::from_utf8_lossy(id), String::from_utf8_lossy(payload)));
    }
  }
  // every peer whose first message was seen must get its own reply
  let mut misdelivered = 0usize;
  for (d, _, name) in &peers {
    if !seen.iter().any(|(_, p, r)| p == name && *r) {
      continue;
    }
    match d.recv().await {
      Ok(m) => {
        let want = [b"re:".to_vec(), name.clone()].concat();
        if m.data() != Some(&want[..]) {
          misdelivered += 1;
          first.get_or_insert(format!("peer {:?} received a reply meant for someone else: {:?}", String::from_utf8_lossy(name), String::from_utf8_lossy(m.data().unwrap_or(&[]))));
        }
      }
      Err(_) => {
        misdelivered += 1;
        first.get_or_insert(format!("peer {:?} never received the reply the ROUTER accepted for its reported identity", String::from_utf8_lossy(name)));
      }
    }
  }
  if wrong > 0 {
    rep.violation(format!("placeholder_or_foreign_identity_reported|first_message_at_connect|{}", mode), format!("{} of {} first messages carried an identity other than the announced one ({} peers per wave over {}, RCVTIMEO {}): {}", wrong, seen.len(), wave, tr.name(), rcvtimeo, first.clone().unwrap_or_default()), json!({"transport": tr.name(), "rcvtimeo": rcvtimeo, "wave": wave}));
  }
  if unroutable > 0 || misdelivered > 0 {
    rep.violation(format!("reply_to_reported_identity_lost|first_message_at_connect|{}", mode), format!("{} replies unroutable, {} not delivered to the right peer, of {} ({} peers per wave over {}, RCVTIMEO {}): {}", unroutable, misdelivered, seen.len(), wave, tr.name(), rcvtimeo, first.unwrap_or_default()), json!({"transport": tr.name(), "rcvtimeo": rcvtimeo, "wave": wave}));
  }
  if seen.len() < peers.len() {
    let missing: Vec<String> = peers.iter().filter(|p| !seen.iter().any(|(_, pl, _)| pl == &p.2)).map(|p| format!("{}{}", String::from_utf8_lossy(&p.2), if p.1.is_none() { "(anon)" } else { "" })).collect();
    rep.inconclusive(format!("poll case: only {} of {} first messages were observed within the watchdog over {} rcvtimeo={}; missing {:?}", seen.len(), peers.len(), tr.name(), rcvtimeo, missing));
  }
  let _ = tokio::time::timeout(Duration::from_secs(12), ctx.term()).await;
}

/// (replace) the peer behind an identity goes away and ANOTHER peer with a different identity takes its place - on the
/// same endpoint the ROUTER reconnects to (ROUTER as connector), or as a new connection (ROUTER as binder). A message
/// addressed to the old identity must go to nobody (HostUnreachable with ROUTER_MANDATORY, silently dropped without),
/// a message addressed to the new identity must arrive, and nothing addressed to the old identity may show up at the
/// new peer.
async fn replace_case(rep: &mut Report, tr: Transport, router_connects: bool, peer_kind: SocketType, mandatory: bool) {
  let ctx = util::new_ctx();
  let router = ctx.socket(SocketType::Router).unwrap();
  util::set_i32(&router, opt::RCVTIMEO, 3000 * util::slow_factor() as i32).await;
  util::set_i32(&router, opt::SNDTIMEO, 1500).await;
  util::set_i32(&router, opt::RECONNECT_IVL, 50).await;
  router.set_option(opt::ROUTER_MANDATORY, mandatory).await.unwrap();
  if peer_kind == SocketType::Router {
    router.set_option_raw(opt::ROUTING_ID, b"the-router").await.unwrap();
  }
  let cfg = format!("ROUTER ({}, ROUTER_MANDATORY={}) over {} with a {} peer replaced by another one", if router_connects { "connector" } else { "binder" }, mandatory, tr.name(), util::socket_type_name(peer_kind));
  let mk = |ctx: rzmq::Context, id: &'static [u8]| async move {
    let p = ctx.socket(peer_kind).unwrap();
    p.set_option_raw(opt::ROUTING_ID, id).await.unwrap();
    util::set_i32(&p, opt::RCVTIMEO, 1200).await;
    util::set_i32(&p, opt::SNDTIMEO, 1500).await;
    util::set_i32(&p, opt::LINGER, 0).await;
    p
  };
  // first incarnation
  let ctx1 = util::new_ctx();
  let p1 = mk(ctx1.clone(), b"server-one").await;
  let ep = if router_connects {
    let ep = match util::bind_fresh(&p1, tr).await {
      Ok(e) => e,
      Err(e) => {
        rep.inconclusive(format!("bind: {e}"));
        return;
      }
    };
    let _ = router.connect(&ep).await;
    ep
  } else {
    let ep = match util::bind_fresh(&router, tr).await {
      Ok(e) => e,
      Err(e) => {
        rep.inconclusive(format!("bind: {e}"));
        return;
      }
    };
    let _ = p1.connect(&ep).await;
    ep
  };
  // the peer introduces itself; the ROUTER must report "server-one"
  let hello = |from: &'static [u8]| -> Vec<rzmq::Msg> {
    if peer_kind == SocketType::Router { msgs(&[b"the-router".to_vec(), [b"hello-from-".to_vec(), from.to_vec()].concat()]) } else { msgs(&[[b"hello-from-".to_vec(), from.to_vec()].concat()]) }
  };
  let mut intro_ok = false;
  for _ in 0..40 {
    if p1.send_multipart(hello(b"server-one")).await.is_ok() {
      if let Ok(m) = router.recv_multipart().await {
        let v = to_vecs(m);
        intro_ok = v.first().map(|f| f.as_slice()) == Some(b"server-one");
        break;
      }
    }
    tokio::time::sleep(Duration::from_millis(50)).await;
  }
  if !intro_ok {
    rep.inconclusive(format!("{}: the first peer never got through", cfg));
    let _ = tokio::time::timeout(Duration::from_secs(10), ctx.term()).await;
    let _ = tokio::time::timeout(Duration::from_secs(10), ctx1.term()).await;
    return;
  }
  // it goes away
  let _ = p1.close().await;
  let _ = tokio::time::timeout(Duration::from_secs(10), ctx1.term()).await;
  tokio::time::sleep(Duration::from_millis(150)).await;
  // the replacement: different identity, same place
  let ctx2 = util::new_ctx();
  let p2 = mk(ctx2.clone(), b"server-two").await;
  let mut placed = false;
  for _ in 0..40 {
    let r = if router_connects { p2.bind(&ep).await } else { p2.connect(&ep).await };
    if r.is_ok() {
      placed = true;
      break;
    }
    tokio::time::sleep(Duration::from_millis(100)).await;
  }
  if !placed {
    rep.inconclusive(format!("{}: the replacement could not take the endpoint", cfg));
    let _ = tokio::time::timeout(Duration::from_secs(10), ctx.term()).await;
    return;
  }
  let mut second_seen = false;
  for _ in 0..60 {
    if p2.send_multipart(hello(b"server-two")).await.is_ok() {
      if let Ok(m) = router.recv_multipart().await {
        let v = to_vecs(m);
        if v.first().map(|f| f.as_slice()) == Some(b"server-two") {
          second_seen = true;
          break;
        }
      }
    }
    tokio::time::sleep(Duration::from_millis(50)).await;
  }
  rep.case(&("replace", tr, router_connects, util::socket_type_name(peer_kind), mandatory), true);
  if !second_seen {
    rep.inconclusive(format!("{}: the replacement peer never got through to the ROUTER", cfg));
  } else {
    // to the OLD identity
    let stale = router.send_multipart(msgs(&[b"server-one".to_vec(), b"for-server-one-only".to_vec()])).await;
    // to the NEW identity
    let fresh = router.send_multipart(msgs(&[b"server-two".to_vec(), b"for-server-two".to_vec()])).await;
    let mut got: Vec<Vec<Vec<u8>>> = vec![];
    while let Ok(m) = p2.recv_multipart().await {
      got.push(to_vecs(m));
      if got.len() >= 4 {
        break;
      }
    }
    let flat: Vec<&[u8]> = got.iter().flat_map(|m| m.iter().map(|f| f.as_slice())).collect();
    let leaked = flat.iter().any(|f| *f == b"for-server-one-only");
    let arrived = flat.iter().any(|f| *f == b"for-server-two");
    let wit = json!({"config": cfg, "send_to_old_identity": format!("{:?}", stale.as_ref().map_err(|e| util::err_kind(e))), "send_to_new_identity": format!("{:?}", fresh.as_ref().map_err(|e| util::err_kind(e))), "new_peer_received": got.iter().map(|m| m.iter().map(|f| String::from_utf8_lossy(f).to_string()).collect::<Vec<_>>()).collect::<Vec<_>>()});
    if leaked {
      rep.violation(format!("message_for_departed_identity_delivered_to_its_replacement|{}", if router_connects { "router_connects" } else { "router_binds" }), format!("{}: a message addressed to \"server-one\" (gone) was received by \"server-two\"; the send returned {:?}", cfg, stale.as_ref().map_err(|e| util::err_kind(e))), wit.clone());
    } else if mandatory && stale.is_ok() {
      rep.violation(format!("departed_identity_still_routable|{}", if router_connects { "router_connects" } else { "router_binds" }), format!("{}: send to the departed identity \"server-one\" returned Ok with ROUTER_MANDATORY set", cfg), wit.clone());
    }
    if !arrived {
      rep.violation(format!("message_for_new_identity_not_delivered|{}", if router_connects { "router_connects" } else { "router_binds" }), format!("{}: the message addressed to \"server-two\" did not arrive (send: {:?})", cfg, fresh.as_ref().map_err(|e| util::err_kind(e))), wit);
    }
  }
  let _ = tokio::time::timeout(Duration::from_secs(10), ctx.term()).await;
  let _ = tokio::time::timeout(Duration::from_secs(10), ctx2.term()).await;
}

/// (order) per-connection order at a ROUTER whose peers talk before they are known: waves of raw DEALER peers, each
/// writing its whole transcript - greeting, READY with its identity, and five numbered messages - in ONE write, so the
/// messages are queued at the ROUTER before the peer's identity has been applied. Read with RCVTIMEO 0 / 1 ms /
/// blocking: every peer's messages must come out in the order they were written, under its announced identity.
async fn order_case(rep: &mut Report, tr: Transport, rcvtimeo: i32, wave: usize, waves: usize) {
  use vh::rawpeer::RawStream;
  use vh::refzmtp;
  let ctx = util::new_ctx();
  let router = ctx.socket(SocketType::Router).unwrap();
  util::set_i32(&router, opt::RCVTIMEO, rcvtimeo).await;
  let ep = match util::bind_fresh(&router, tr).await {
    Ok(e) => e,
    Err(e) => {
      rep.inconclusive(format!("bind: {e}"));
      return;
    }
  };
  let per_peer = 5usize;
  let total = wave * waves * per_peer;
  let r2 = router.clone();
  let reader = tokio::spawn(async move {
    let mut seen: Vec<(Vec<u8>, Vec<u8>)> = vec![];
    let t0 = std::time::Instant::now();
    while seen.len() < total && t0.elapsed() < util::scaled(Duration::from_secs(25)) {
      match r2.recv_multipart().await {
        Ok(m) => {
          let v = to_vecs(m);
          if v.len() >= 2 {
            seen.push((v[0].clone(), v[v.len() - 1].clone()));
          }
        }
        Err(_) => tokio::task::yield_now().await,
      }
    }
    seen
  });
  let mut raws = vec![];
  for w in 0..waves {
    let mut hs = vec![];
    for k in 0..wave {
      let ep2 = ep.clone();
      let name = format!("raw-{:02}-{:02}", w, k).into_bytes();
      hs.push(tokio::spawn(async move {
        let mut r = RawStream::connect(&ep2).await.ok()?;
        let mut t = refzmtp::null_client_handshake("DEALER", Some(&name));
        for i in 0..5u8 {
          let body = [&name[..], &b"#"[..], &[b'0' + i][..]].concat();
          t.extend(refzmtp::message(&[b"", &body]));
        }
        r.write_all(&t).await.ok()?;
        Some(r)
      }));
    }
    for h in hs {
      if let Ok(Some(r)) = h.await {
        raws.push(r);
      }
    }
    tokio::time::sleep(Duration::from_millis(30)).await;
  }
  let seen = tokio::time::timeout(util::scaled(Duration::from_secs(30)), reader).await.ok().and_then(|x| x.ok()).unwrap_or_default();
  drop(raws);
  let mode = if rcvtimeo == 0 { "rcvtimeo=0" } else if rcvtimeo < 0 { "blocking" } else { "timed" };
  rep.case(&("order", tr, rcvtimeo, wave, waves, seen.len()), true);
  rep.count("order_messages_observed", seen.len() as u64);
  if seen.len() < total / 2 {
    rep.inconclusive(format!("order case: only {} of {} messages observed over {} ({})", seen.len(), total, tr.name(), mode));
  }
  // per peer (named by the payload): sequence numbers ascending, identity frame == announced identity
  let mut last: HashMap<Vec<u8>, u8> = HashMap::new();
  let mut first_bad: Option<String> = None;
  let mut reordered = 0usize;
  let mut wrong_id = 0usize;
  for (id, payload) in &seen {
    let Some(pos) = payload.iter().position(|b| *b == b'#') else { continue };
    let (name, seq) = (payload[..pos].to_vec(), payload[pos + 1]);
    if id != &name {
      wrong_id += 1;
      first_bad.get_or_insert(format!("message {:?} arrived under identity {:?}", String::from_utf8_lossy(payload), String::from_utf8_lossy(id)));
    }
    if let Some(prev) = last.get(&name) {
      if seq <= *prev {
        reordered += 1;
        first_bad.get_or_insert(format!("peer {:?}: message #{} delivered after #{}", String::from_utf8_lossy(&name), seq as char, *prev as char));
      }
    }
    last.insert(name, seq);
  }
  if reordered > 0 {
    rep.violation(format!("per_connection_order_broken_at_router|{}", mode), format!("{} of {} messages out of order ({} raw peers per wave over {}, RCVTIMEO {}): {}", reordered, seen.len(), wave, tr.name(), rcvtimeo, first_bad.clone().unwrap_or_default()), json!({"transport": tr.name(), "rcvtimeo": rcvtimeo, "wave": wave}));
  }
  if wrong_id > 0 {
    rep.violation(format!("placeholder_or_foreign_identity_reported|pipelined_first_messages|{}", mode), format!("{} of {} messages under another identity than the announced one: {}", wrong_id, seen.len(), first_bad.unwrap_or_default()), json!({"transport": tr.name(), "rcvtimeo": rcvtimeo}));
  }
  let _ = tokio::time::timeout(Duration::from_secs(12), ctx.term()).await;
}

fn main() {
  let args = Args::parse();
  util::install_panic_watch();
  let mut rep = Report::new("C11", &args.shard_name());
  let mut rng = Rng::new(args.seed.wrapping_mul(236887691).wrapping_add(args.shard as u64));
  if args.only.as_deref() == Some("order") {
    let rt = util::runtime(4);
    let n = if args.thorough() { 24 } else { 8 };
    for i in 0..n {
      if !args.mine(i) {
        continue;
      }
      let tr = [Transport::Tcp, Transport::Ipc][i % 2];
      let rcvtimeo = [0, -1, 1, 0][i % 4];
      // seeded delays at the ready-pipe-queue schedule points (between the individual pops) widen the window in which a
      // peer's identity is applied between two pops of its messages
      rzmq::verif::set_perturbation((args.seed.wrapping_mul(7919) + i as u64) | 1);
      util::guarded(&rt, order_case(&mut rep, tr, rcvtimeo, if i % 3 == 0 { 32 } else { 12 }, if args.thorough() { 10 } else { 6 }));
      rzmq::verif::set_perturbation(0);
    }
    util::cleanup_ipc_dir();
    rep.merge_hooks();
    rep.emit();
    return;
  }
  if args.only.as_deref() == Some("replace") {
    let rt = util::runtime(2);
    let mut i = 0;
    for tr in [Transport::Tcp, Transport::Ipc] {
      for router_connects in [true, false] {
        for peer_kind in [SocketType::Dealer, SocketType::Router] {
          for mandatory in [true, false] {
            i += 1;
            if !args.mine(i) {
              continue;
            }
            if !args.thorough() && tr == Transport::Ipc && peer_kind == SocketType::Router {
              continue;
            }
            util::guarded(&rt, replace_case(&mut rep, tr, router_connects, peer_kind, mandatory));
          }
        }
      }
    }
    util::cleanup_ipc_dir();
    for p in util::take_panics() {
      if p.in_rzmq {
        rep.violation(format!("panic|{}", util::panic_site(&p.location)), format!("panic at {}: {}", p.location, p.message), json!({"frames": p.backtrace_head}));
      } else {
        rep.inconclusive(format!("harness panic at {}: {}", p.location, p.message));
      }
    }
    rep.merge_hooks();
    rep.emit();
    return;
  }
  if args.only.as_deref() == Some("poll") {
    let rt = util::runtime(4);
    let n = if args.thorough() { 48 } else { 12 };
    for i in 0..n {
      if !args.mine(i) {
        continue;
      }
      let tr = [Transport::Tcp, Transport::Ipc, Transport::Tcp, Transport::Inproc][i % 4];
      let rcvtimeo = [0, 0, 1, -1, 0, 5][i % 6];
      util::guarded(&rt, poll_case(&mut rep, tr, rcvtimeo, if i % 2 == 0 { 16 } else { 6 }, if args.thorough() { 6 } else { 4 }, i % 3 == 2));
    }
    util::cleanup_ipc_dir();
    for p in util::take_panics() {
      if p.in_rzmq {
        rep.violation(format!("panic|{}", util::panic_site(&p.location)), format!("panic at {}: {}", p.location, p.message), json!({"frames": p.backtrace_head}));
      }
    }
    rep.merge_hooks();
    rep.emit();
    return;
  }
  let rt = util::runtime(2);
  let n = if args.thorough() { 160 } else { 32 };
  for i in 0..n {
    if !args.mine(i) {
      continue;
    }
    let tr = [Transport::Tcp, Transport::Inproc, Transport::Ipc, Transport::Tcp][i % 4];
    let npeers = rng.range(1, 4);
    let colliding = i % 5 == 3;
    let mut kinds: Vec<SocketType> = (0..npeers).map(|_| if tr == Transport::Inproc || colliding { SocketType::Dealer } else { *rng.pick(&[SocketType::Dealer, SocketType::Dealer, SocketType::Req]) }).collect();
    if i % 8 == 5 && tr != Transport::Inproc {
      kinds = vec![SocketType::Router]; // ROUTER<->ROUTER
    }
    let ids: Vec<IdKind> = match i % 5 {
      0 => vec![IdKind::Absent],
      1 => vec![IdKind::One],
      2 => vec![IdKind::Max255, IdKind::Named(1), IdKind::Absent],
      3 => vec![IdKind::Named(7), IdKind::Named(7), IdKind::Named(8)], // colliding pair
      _ => vec![IdKind::Named(1), IdKind::Named(2), IdKind::Named(3), IdKind::Absent],
    };
    let ids = if kinds[0] == SocketType::Router { vec![IdKind::Named(9)] } else { ids };
    let manual = i % 3 == 2;
    let mandatory = i % 2 == 0;
    let first_at_connect = i % 4 == 1;
    let use_recv = i % 6 == 4;
    if !util::guarded(&rt, scenario(&mut rep, &mut rng, tr, &kinds, &ids, manual, mandatory, first_at_connect, use_recv)) {
      for p in util::take_panics() {
        if p.in_rzmq {
          rep.violation(format!("panic|{}", util::panic_site(&p.location)), format!("panic at {}: {}", p.location, p.message), json!({"frames": p.backtrace_head}));
        } else {
          rep.inconclusive(format!("scenario aborted by harness panic at {}: {}", p.location, p.message));
        }
      }
    }
    if i < 2 {
      rep.sample(json!({"transport": tr.name(), "peers": kinds.iter().map(|k| util::socket_type_name(*k)).collect::<Vec<_>>(), "ids": format!("{:?}", ids), "auto_delimiter": !manual, "mandatory": mandatory, "first_message_at_connect": first_at_connect}));
    }
  }
  util::cleanup_ipc_dir();
  for p in util::take_panics() {
    if p.in_rzmq {
      rep.violation(format!("panic|{}", util::panic_site(&p.location)), format!("panic at {}: {}", p.location, p.message), json!({"frames": p.backtrace_head}));
    } else {
      rep.inconclusive(format!("harness panic at {}: {}", p.location, p.message));
    }
  }
  rep.merge_hooks();
  rep.emit();
}

//! C09 — dropping a send or recv future is safe at every await point.
//! The future of one operation is dropped at its n-th `Pending` (CancelAfter) while the event it
//! waits for (peer sends / peer starts reading / peer connects) is racing with it; afterwards
//! normal traffic continues and the conservation oracle (C01/C02) plus "the next valid call
//! succeeds" are checked.

use rzmq::socket::options as opt;
use rzmq::{Socket, SocketType};
use serde_json::json;
use std::collections::BTreeSet;
use std::time::Duration;
use vh::args::Args;
use vh::cancel::{CancelAfter, CancelOnWake, CancelOutcome};
use vh::gen::Rng;
use vh::oracles::{self, SendStatus, SentMsg};
use vh::payload::HDR;
use vh::report::Report;
use vh::util::{self, Transport};

/// `n < 100`: drop at the n-th Pending; `n >= 100`: drop once woken (n-100) times, unpolled.
async fn cancel<F: std::future::Future>(f: F, n: usize) -> CancelOutcome<F::Output> {
  if n >= 100 {
    CancelOnWake::new(f, n - 100).await
  } else {
    CancelAfter::new(f, n).await
  }
}

fn cname(n: usize) -> String {
  if n >= 100 {
    format!("woken x{} then dropped unpolled", n - 100)
  } else {
    format!("Pending #{}", n)
  }
}

fn to_vecs(m: Vec<rzmq::Msg>) -> Vec<Vec<u8>> {
  m.into_iter().map(|f| f.data().unwrap_or(&[]).to_vec()).collect()
}

fn mk_msgs(frames: &[Vec<u8>], prefix: Option<&[u8]>) -> Vec<rzmq::Msg> {
  let mut v = vec![];
  if let Some(p) = prefix {
    v.push(util::msg(p.to_vec(), true));
  }
  let n = frames.len();
  for (i, f) in frames.iter().enumerate() {
    v.push(util::msg(f.clone(), i + 1 < n));
  }
  v
}

#[derive(Clone, Copy, Debug, PartialEq, Eq, Hash)]
enum RecvKind {
  Pull,
  Sub,
  Dealer,
  Router,
}

/// recv()/recv_multipart() cancelled at its n-th Pending while the peer's messages arrive.
async fn recv_cancel_case(rep: &mut Report, rng: &mut Rng, rk: RecvKind, tr: Transport, multi: bool, n_cancel: usize, delay_ms: u64, with_timeout: bool) -> Option<usize> {
  let ctx = util::new_ctx();
  let (rt, st) = match rk {
    RecvKind::Pull => (SocketType::Pull, SocketType::Push),
    RecvKind::Sub => (SocketType::Sub, SocketType::Pub),
    RecvKind::Dealer => (SocketType::Dealer, SocketType::Router),
    RecvKind::Router => (SocketType::Router, SocketType::Dealer),
  };
  let r = ctx.socket(rt).ok()?;
  if rk == RecvKind::Sub {
    r.set_option(opt::SUBSCRIBE, "").await.ok()?;
  }
  if rk == RecvKind::Dealer {
    r.set_option_raw(opt::ROUTING_ID, b"RX").await.ok()?;
  }
  if with_timeout {
    util::set_i32(&r, opt::RCVTIMEO, 40).await;
  }
  let ep = util::bind_fresh(&r, tr).await.ok()?;
  let s = ctx.socket(st).ok()?;
  util::set_i32(&s, opt::SNDTIMEO, 2000).await;
  if st == SocketType::Router {
    s.set_option(opt::ROUTER_MANDATORY, true).await.ok()?;
  }
  s.connect(&ep).await.ok()?;
  tokio::time::sleep(Duration::from_millis(if tr == Transport::Inproc { 60 } else { 250 })).await;
  let run = (rng.next() & 0x7FFF_FFFF) as u32;
  let total = 6u32;
  let prefix: Option<Vec<u8>> = if st == SocketType::Router { Some(b"RX".to_vec()) } else { None };
  // the peer sends its messages after `delay_ms`, paced (DEALER egress ordering is a C01 finding)
  let sender = {
    let s = s.clone();
    let prefix = prefix.clone();
    tokio::spawn(async move {
      tokio::time::sleep(Duration::from_millis(delay_ms)).await;
      let mut sent = vec![];
      for seq in 0..total {
        let lens = if seq % 2 == 0 { vec![HDR + 3, 0, 70] } else { vec![HDR + 40] };
        let fr = oracles::build_message(run, 1, seq, u32::MAX, &lens);
        let ok = s.send_multipart(mk_msgs(&fr, prefix.as_deref())).await.is_ok();
        sent.push(SentMsg { sender: 1, seq, dest: u32::MAX, frame_lens: lens, status: if ok { SendStatus::Accepted } else { SendStatus::Maybe } });
        tokio::time::sleep(Duration::from_millis(12)).await;
      }
      sent
    })
  };
  // the operation under test
  let mut frames: Vec<(Vec<u8>, bool)> = vec![];
  let pendings;
  if multi {
    match cancel(r.recv_multipart(), n_cancel).await {
      CancelOutcome::Completed(res, p) => {
        pendings = p;
        if let Ok(m) = res {
          for f in m {
            frames.push((f.data().unwrap_or(&[]).to_vec(), f.is_more()));
          }
        }
      }
      CancelOutcome::Cancelled(p) => pendings = p,
    }
  } else {
    match cancel(r.recv(), n_cancel).await {
      CancelOutcome::Completed(res, p) => {
        pendings = p;
        if let Ok(f) = res {
          frames.push((f.data().unwrap_or(&[]).to_vec(), f.is_more()));
        }
      }
      CancelOutcome::Cancelled(p) => pendings = p,
    }
  }
  // afterwards: the socket must be fully usable and nothing may be lost / duplicated / torn
  util::set_i32(&r, opt::RCVTIMEO, 700).await;
  let mut idle = 0;
  while idle < 3 {
    match r.recv().await {
      Ok(f) => {
        idle = 0;
        frames.push((f.data().unwrap_or(&[]).to_vec(), f.is_more()));
      }
      Err(_) => idle += 1,
    }
  }
  let sent = sender.await.ok()?;
  let mut msgs: Vec<Vec<Vec<u8>>> = vec![];
  let mut cur = vec![];
  for (d, more) in frames {
    cur.push(d);
    if !more {
      msgs.push(std::mem::take(&mut cur));
    }
  }
  if rk == RecvKind::Router {
    for m in msgs.iter_mut() {
      if !m.is_empty() {
        m.remove(0);
      }
    }
  }
  let f = oracles::check_receiver(run, &sent, &msgs, None, true);
  let opname = if multi { "recv_multipart" } else { "recv" };
  rep.case(&("recv", rk, tr, multi, n_cancel, delay_ms, with_timeout), true);
  if !f.ok() || !cur.is_empty() {
    rep.violation(
      format!("cancelled_{}_corrupts_stream|{:?}|{}", opname, rk, f.kinds().join("+")),
      format!("{:?}.{}() dropped at {} (peer traffic starts after {} ms, RCVTIMEO {}): afterwards {} (dangling partial message: {})", rk, opname, cname(n_cancel), delay_ms, with_timeout, f.kinds().join("+"), !cur.is_empty()),
      json!({"socket": format!("{:?}", rk), "transport": tr.name(), "op": opname, "cancel_at_pending": n_cancel, "pendings_seen": pendings, "delay_ms": delay_ms, "findings": f.to_json()}),
    );
  }
  let _ = tokio::time::timeout(Duration::from_secs(12), ctx.term()).await;
  Some(pendings)
}

/// (drain) a deep backlog drained by "poll once, drop if Pending" (what now_or_never / futures::poll! / a hand-written
/// select does), the drain loop running inside ONE task poll for `burst` receives at a time: every receive future is
/// dropped at its first Pending, whatever made it Pending (an empty queue, a re-arm, the task's cooperative budget
/// running out after 128 operations). A message that had already been taken off the queue when the future went
/// Pending would be lost with it - the stream must stay complete and in order.
async fn drain_case(rep: &mut Report, rng: &mut Rng, rk: RecvKind, tr: Transport, multi: bool, total: u32, burst: usize) {
  let ctx = util::new_ctx();
  let (rt, st) = match rk {
    RecvKind::Pull => (SocketType::Pull, SocketType::Push),
    RecvKind::Sub => (SocketType::Sub, SocketType::Pub),
    RecvKind::Dealer => (SocketType::Dealer, SocketType::Dealer),
    RecvKind::Router => (SocketType::Router, SocketType::Dealer),
  };
  let Ok(r) = ctx.socket(rt) else { return };
  if rk == RecvKind::Sub {
    let _ = r.set_option(opt::SUBSCRIBE, "").await;
  }
  util::set_i32(&r, opt::RCVHWM, 4000).await;
  let Ok(ep) = util::bind_fresh(&r, tr).await else {
    rep.inconclusive("drain: bind failed".to_string());
    return;
  };
  let Ok(s) = ctx.socket(st) else { return };
  util::set_i32(&s, opt::SNDHWM, 4000).await;
  util::set_i32(&s, opt::SNDTIMEO, 3000).await;
  if s.connect(&ep).await.is_err() {
    rep.inconclusive("drain: connect failed".to_string());
    return;
  }
  tokio::time::sleep(Duration::from_millis(if tr == Transport::Inproc { 60 } else { 300 })).await;
  let run = (rng.next() & 0x7FFF_FFFF) as u32;
  let mut sent = vec![];
  for seq in 0..total {
    let lens = if multi { vec![HDR + 3, 20] } else { vec![HDR + 10] };
    let fr = oracles::build_message(run, 1, seq, u32::MAX, &lens);
    let ok = s.send_multipart(mk_msgs(&fr, None)).await.is_ok();
    sent.push(SentMsg { sender: 1, seq, dest: u32::MAX, frame_lens: lens, status: if ok { SendStatus::Accepted } else { SendStatus::Maybe } });
    // DEALER egress keeps order only when paced (recorded under C01)
    if st == SocketType::Dealer && seq % 16 == 15 {
      tokio::time::sleep(Duration::from_millis(2)).await;
    }
  }
  // let the backlog settle in the receiving socket's queue
  tokio::time::sleep(Duration::from_millis(500)).await;
  let mut msgs: Vec<Vec<Vec<u8>>> = vec![];
  let mut partial: Vec<Vec<u8>> = vec![];
  let mut dropped_pending = 0u64;
  let mut empty_rounds = 0;
  let t0 = std::time::Instant::now();
  while (msgs.len() as u32) < total && empty_rounds < 40 && t0.elapsed() < util::scaled(Duration::from_secs(30)) {
    let mut got_this_burst = 0;
    // `burst` poll-once receives without ever yielding to the runtime
    for _ in 0..burst {
      if multi {
        match cancel(r.recv_multipart(), 1).await {
          CancelOutcome::Completed(Ok(m), _) => {
            msgs.push(to_vecs(m));
            got_this_burst += 1;
          }
          CancelOutcome::Completed(Err(_), _) => {}
          CancelOutcome::Cancelled(_) => dropped_pending += 1,
        }
      } else {
        match cancel(r.recv(), 1).await {
          CancelOutcome::Completed(Ok(f), _) => {
            // frame-by-frame reading: a message ends at the frame without MORE (a ROUTER yields the identity first)
            partial.push(f.data().unwrap_or(&[]).to_vec());
            if !f.is_more() {
              msgs.push(std::mem::take(&mut partial));
            }
            got_this_burst += 1;
          }
          CancelOutcome::Completed(Err(_), _) => {}
          CancelOutcome::Cancelled(_) => dropped_pending += 1,
        }
      }
      if (msgs.len() as u32) >= total {
        break;
      }
    }
    if got_this_burst == 0 {
      empty_rounds += 1;
      tokio::time::sleep(Duration::from_millis(25)).await;
    } else {
      empty_rounds = 0;
      tokio::task::yield_now().await;
    }
  }
  if rk == RecvKind::Router {
    for m in msgs.iter_mut() {
      if !m.is_empty() {
        m.remove(0);
      }
    }
  }
  let f = oracles::check_receiver(run, &sent, &msgs, None, true);
  let opname = if multi { "recv_multipart" } else { "recv" };
  rep.case(&("drain", rk, tr, multi, total, burst), true);
  rep.count("drain_futures_dropped_at_pending", dropped_pending);
  rep.count("drain_messages_received", msgs.len() as u64);
  if !f.ok() || !partial.is_empty() {
    rep.violation(
      format!("poll_once_drain_corrupts_stream|{:?}|{}", rk, if f.ok() { "dangling_partial_message".to_string() } else { f.kinds().join("+") }),
      format!("{:?}.{}() over {}: a backlog of {} messages drained with poll-once-and-drop ({} receives per task poll, {} futures dropped at Pending): {} - received {}", rk, opname, tr.name(), total, burst, dropped_pending, f.kinds().join("+"), msgs.len()),
      json!({"socket": format!("{:?}", rk), "transport": tr.name(), "op": opname, "burst": burst, "findings": f.to_json()}),
    );
  }
  let _ = tokio::time::timeout(Duration::from_secs(12), ctx.term()).await;
}

#[derive(Clone, Copy, Debug, PartialEq, Eq, Hash)]
enum SendKind {
  Push,
  Dealer,
  Router,
  Pub,
}

/// send()/send_multipart() cancelled at its n-th Pending while blocked at HWM=1 and the peer
/// starts reading after `delay_ms`.
async fn send_cancel_case(rep: &mut Report, rng: &mut Rng, sk: SendKind, tr: Transport, multi: bool, n_cancel: usize, delay_ms: u64, with_timeout: bool) -> Option<usize> {
  let ctx = util::new_ctx();
  let (st, rt) = match sk {
    SendKind::Push => (SocketType::Push, SocketType::Pull),
    SendKind::Dealer => (SocketType::Dealer, SocketType::Router),
    SendKind::Router => (SocketType::Router, SocketType::Dealer),
    SendKind::Pub => (SocketType::Pub, SocketType::Sub),
  };
  let r = ctx.socket(rt).ok()?;
  let s = ctx.socket(st).ok()?;
  for x in [&r, &s] {
    util::set_i32(x, opt::SNDHWM, 1).await;
    util::set_i32(x, opt::RCVHWM, 1).await;
    let _ = x.set_option(opt::SNDBUF, 16 * 1024).await;
    let _ = x.set_option(opt::RCVBUF, 16 * 1024).await;
  }
  if rt == SocketType::Sub {
    r.set_option(opt::SUBSCRIBE, "").await.ok()?;
  }
  if rt == SocketType::Dealer {
    r.set_option_raw(opt::ROUTING_ID, b"RX").await.ok()?;
  }
  if st == SocketType::Router {
    s.set_option(opt::ROUTER_MANDATORY, true).await.ok()?;
  }
  if with_timeout {
    util::set_i32(&s, opt::SNDTIMEO, 40).await;
  } else {
    util::set_i32(&s, opt::SNDTIMEO, 3000).await;
  }
  let ep = util::bind_fresh(&r, tr).await.ok()?;
  s.connect(&ep).await.ok()?;
  tokio::time::sleep(Duration::from_millis(if tr == Transport::Inproc { 60 } else { 250 })).await;
  let run = (rng.next() & 0x7FFF_FFFF) as u32;
  let prefix: Option<Vec<u8>> = if st == SocketType::Router { Some(b"RX".to_vec()) } else { None };
  let len = if tr == Transport::Inproc { HDR + 50 } else { 32 * 1024 };
  let mut sent: Vec<SentMsg> = vec![];
  // fill until a send blocks (bounded): those are plain sends with a short deadline
  let mut seq = 0u32;
  while seq < 40 {
    let lens = if multi { vec![len, 0, HDR] } else { vec![len] };
    let fr = oracles::build_message(run, 1, seq, u32::MAX, &lens);
    let res = tokio::time::timeout(Duration::from_millis(150), s.send_multipart(mk_msgs(&fr, prefix.as_deref()))).await;
    match res {
      Ok(Ok(())) => sent.push(SentMsg { sender: 1, seq, dest: u32::MAX, frame_lens: lens, status: SendStatus::Accepted }),
      Ok(Err(_)) => {
        sent.push(SentMsg { sender: 1, seq, dest: u32::MAX, frame_lens: lens, status: SendStatus::Refused });
        seq += 1;
        break;
      }
      Err(_) => {
        // that send future was dropped by the timeout: itself a cancellation (may take effect)
        sent.push(SentMsg { sender: 1, seq, dest: u32::MAX, frame_lens: lens, status: SendStatus::Maybe });
        seq += 1;
        break;
      }
    }
    seq += 1;
  }
  // the peer starts reading after delay_ms
  let reader = {
    let r = r.clone();
    let strip = rt == SocketType::Router;
    tokio::spawn(async move {
      tokio::time::sleep(Duration::from_millis(delay_ms)).await;
      let _ = r.set_option(opt::RCVTIMEO, 700).await;
      let mut got: Vec<Vec<Vec<u8>>> = vec![];
      let mut idle = 0;
      while idle < 3 {
        match r.recv_multipart().await {
          Ok(m) => {
            idle = 0;
            let mut v = to_vecs(m);
            if strip && !v.is_empty() {
              v.remove(0);
            }
            got.push(v);
          }
          Err(_) => idle += 1,
        }
      }
      got
    })
  };
  // the operation under test: one more send, cancelled at its n-th Pending
  let lens = if multi { vec![len, 5, HDR] } else { vec![len] };
  let fr = oracles::build_message(run, 1, seq, u32::MAX, &lens);
  let pend;
  let status;
  if multi || prefix.is_some() {
    match cancel(s.send_multipart(mk_msgs(&fr, prefix.as_deref())), n_cancel).await {
      CancelOutcome::Completed(res, p) => {
        pend = p;
        status = if res.is_ok() { SendStatus::Accepted } else { SendStatus::Maybe };
      }
      CancelOutcome::Cancelled(p) => {
        pend = p;
        status = SendStatus::Maybe;
      }
    }
  } else {
    match cancel(s.send(util::msg(fr[0].clone(), false)), n_cancel).await {
      CancelOutcome::Completed(res, p) => {
        pend = p;
        status = if res.is_ok() { SendStatus::Accepted } else { SendStatus::Maybe };
      }
      CancelOutcome::Cancelled(p) => {
        pend = p;
        status = SendStatus::Maybe;
      }
    }
  }
  sent.push(SentMsg { sender: 1, seq, dest: u32::MAX, frame_lens: lens, status });
  seq += 1;
  // the next valid calls must work: three more messages, generous timeout
  util::set_i32(&s, opt::SNDTIMEO, 4000).await;
  tokio::time::sleep(Duration::from_millis(delay_ms + 30)).await;
  let mut next_ok = true;
  for _ in 0..3 {
    let lens = vec![HDR + 9];
    let fr = oracles::build_message(run, 1, seq, u32::MAX, &lens);
    let res = s.send_multipart(mk_msgs(&fr, prefix.as_deref())).await;
    if res.is_err() {
      next_ok = false;
    }
    sent.push(SentMsg { sender: 1, seq, dest: u32::MAX, frame_lens: lens, status: if res.is_ok() { SendStatus::Accepted } else { SendStatus::Maybe } });
    seq += 1;
    tokio::time::sleep(Duration::from_millis(15)).await;
  }
  let got = reader.await.ok()?;
  let opname = if multi { "send_multipart" } else { "send" };
  rep.case(&("send", sk, tr, multi, n_cancel, delay_ms, with_timeout), true);
  let dealer = sk == SendKind::Dealer;
  let check_loss = sk != SendKind::Pub;
  let f = oracles::check_receiver(run, &sent, &got, None, check_loss);
  let mut kinds = f.kinds();
  if dealer {
    kinds.retain(|k| *k != "lost" && *k != "reordered"); // DEALER egress: recorded under C01
  }
  let wit = json!({"socket": format!("{:?}", sk), "transport": tr.name(), "op": opname, "cancel_at_pending": n_cancel, "pendings_seen": pend, "reader_starts_after_ms": delay_ms, "findings": f.to_json()});
  if !kinds.is_empty() {
    rep.violation(format!("cancelled_{}_breaks_delivery|{:?}|{}", opname, sk, kinds.join("+")), format!("{:?}.{}() dropped at {} while blocked at HWM 1 (peer reads after {} ms): afterwards {}", sk, opname, cname(n_cancel), delay_ms, kinds.join("+")), wit.clone());
  }
  if !next_ok && !dealer {
    rep.violation(format!("socket_unusable_after_cancelled_{}|{:?}", opname, sk), format!("{:?}: after a cancelled {}() the following sends failed although the peer was reading", sk, opname), wit);
  }
  let _ = tokio::time::timeout(Duration::from_secs(12), ctx.term()).await;
  Some(pend)
}

/// ROUTER frame-by-frame: send(identity+MORE), then the payload send() is cancelled.
async fn router_frames_case(rep: &mut Report, rng: &mut Rng, n_cancel: usize) {
  let ctx = util::new_ctx();
  let r = ctx.socket(SocketType::Router).unwrap();
  r.set_option(opt::ROUTER_MANDATORY, true).await.unwrap();
  util::set_i32(&r, opt::SNDTIMEO, 2000).await;
  let d = ctx.socket(SocketType::Dealer).unwrap();
  d.set_option_raw(opt::ROUTING_ID, b"RX").await.unwrap();
  util::set_i32(&d, opt::RCVTIMEO, 600).await;
  let ep = util::bind_fresh(&r, Transport::Tcp).await.unwrap();
  d.connect(&ep).await.unwrap();
  tokio::time::sleep(Duration::from_millis(250)).await;
  let run = (rng.next() & 0x7FFF_FFFF) as u32;
  let mut sent = vec![];
  // message 0 frame by frame; the last send() is the one we may cancel
  let fr0 = oracles::build_message(run, 1, 0, u32::MAX, &[HDR, HDR + 7]);
  let a = r.send(util::msg(b"RX".to_vec(), true)).await;
  let b = r.send(util::msg(fr0[0].clone(), true)).await;
  let st = match cancel(r.send(util::msg(fr0[1].clone(), false)), n_cancel).await {
    CancelOutcome::Completed(res, _) => {
      if res.is_ok() && a.is_ok() && b.is_ok() {
        SendStatus::Accepted
      } else {
        SendStatus::Maybe
      }
    }
    CancelOutcome::Cancelled(_) => SendStatus::Maybe,
  };
  sent.push(SentMsg { sender: 1, seq: 0, dest: u32::MAX, frame_lens: vec![HDR, HDR + 7], status: st });
  // next whole messages must arrive intact, not glued to leftovers of message 0
  let mut next_ok = true;
  for seq in 1..4u32 {
    let lens = vec![HDR + seq as usize];
    let fr = oracles::build_message(run, 1, seq, u32::MAX, &lens);
    let res = r.send_multipart(mk_msgs(&fr, Some(b"RX"))).await;
    if res.is_err() {
      next_ok = false;
    }
    sent.push(SentMsg { sender: 1, seq, dest: u32::MAX, frame_lens: lens, status: if res.is_ok() { SendStatus::Accepted } else { SendStatus::Maybe } });
  }
  let mut got = vec![];
  while let Ok(m) = d.recv_multipart().await {
    got.push(to_vecs(m));
  }
  rep.case(&("router_frames", n_cancel), true);
  let f = oracles::check_receiver(run, &sent, &got, None, true);
  if !f.ok() || !next_ok {
    rep.violation(
      format!("router_frame_by_frame_cancel|{}", if !next_ok { "next_send_rejected".to_string() } else { f.kinds().join("+") }),
      format!("ROUTER frame-by-frame send with the last send() dropped at Pending #{}: afterwards {} (next sends ok: {})", n_cancel, f.kinds().join("+"), next_ok),
      json!({"cancel_at_pending": n_cancel, "findings": f.to_json()}),
    );
  }
  let _ = tokio::time::timeout(Duration::from_secs(12), ctx.term()).await;
}

/// REQ / REP: a cancelled call must not leave the socket rejecting every next call.
async fn reqrep_case(rep: &mut Report, which: &str, n_cancel: usize, delay_ms: u64) {
  let ctx = util::new_ctx();
  let req = ctx.socket(SocketType::Req).unwrap();
  let rp = ctx.socket(SocketType::Rep).unwrap();
  for s in [&req, &rp] {
    util::set_i32(s, opt::RCVTIMEO, 1500).await;
    util::set_i32(s, opt::SNDTIMEO, 1500).await;
  }
  let ep = util::bind_fresh(&rp, Transport::Tcp).await.unwrap();
  req.connect(&ep).await.unwrap();
  tokio::time::sleep(Duration::from_millis(250)).await;
  let mut problems: Vec<String> = vec![];
  match which {
    "req.send" => {
      let out = cancel(req.send(util::msg(b"q1".to_vec(), false)), n_cancel).await;
      let completed = matches!(out, CancelOutcome::Completed(Ok(()), _));
      // serve whatever arrived
      let rp2 = rp.clone();
      let srv = tokio::spawn(async move {
        let mut n = 0;
        while let Ok(m) = rp2.recv_multipart().await {
          let _ = rp2.send_multipart(m).await;
          n += 1;
          if n >= 2 {
            break;
          }
        }
      });
      // next valid call: either a new send (nothing happened) or a recv (the request went out)
      let s2 = req.send(util::msg(b"q2".to_vec(), false)).await;
      let ok = match s2 {
        Ok(()) => req.recv().await.is_ok(),
        Err(rzmq::ZmqError::InvalidState(_)) => {
          let r1 = req.recv().await;
          r1.is_ok() && req.send(util::msg(b"q3".to_vec(), false)).await.is_ok()
        }
        Err(e) => {
          problems.push(format!("next send failed with {:?}", e));
          false
        }
      };
      if !ok {
        problems.push(format!("after a send() {} at Pending #{} neither a new send()+recv() nor recv()+send() works", if completed { "completed" } else { "dropped" }, n_cancel));
      }
      srv.abort();
    }
    "req.recv" => {
      let _ = req.send(util::msg(b"q1".to_vec(), false)).await;
      let rp2 = rp.clone();
      let srv = tokio::spawn(async move {
        if let Ok(m) = rp2.recv_multipart().await {
          tokio::time::sleep(Duration::from_millis(delay_ms)).await;
          let _ = rp2.send_multipart(m).await;
        }
        if let Ok(m) = rp2.recv_multipart().await {
          let _ = rp2.send_multipart(m).await;
        }
      });
      let out = cancel(req.recv(), n_cancel).await;
      let got_reply = matches!(out, CancelOutcome::Completed(Ok(_), _));
      if !got_reply {
        // the reply to q1 is still owed to the application: the next recv must deliver it
        match req.recv().await {
          Ok(m) if m.data() == Some(b"q1") => {}
          other => problems.push(format!("the reply that was in flight when recv() was dropped at Pending #{} was not delivered by the next recv(): {:?}", n_cancel, other.map(|m| String::from_utf8_lossy(m.data().unwrap_or(&[])).into_owned()).map_err(|e| util::err_kind(&e)))),
        }
      }
      let s2 = req.send(util::msg(b"q2".to_vec(), false)).await;
      if s2.is_err() || !matches!(req.recv().await, Ok(m) if m.data() == Some(b"q2")) {
        problems.push(format!("after the cancelled recv() the next request/reply round did not work (send: {:?})", s2.map_err(|e| util::err_kind(&e))));
      }
      srv.abort();
    }
    _ => {
      // rep.recv cancelled while the request arrives
      let req2 = req.clone();
      let cli = tokio::spawn(async move {
        tokio::time::sleep(Duration::from_millis(delay_ms)).await;
        let _ = req2.send(util::msg(b"q1".to_vec(), false)).await;
        req2.recv().await.map(|m| m.data().map(|d| d.to_vec()))
      });
      let out = cancel(rp.recv(), n_cancel).await;
      let got = matches!(out, CancelOutcome::Completed(Ok(_), _));
      if !got {
        match rp.recv().await {
          Ok(m) if m.data() == Some(b"q1") => {}
          other => problems.push(format!("the request was lost after REP.recv() was dropped at Pending #{}: next recv() gave {:?}", n_cancel, other.map(|m| m.size()).map_err(|e| util::err_kind(&e)))),
        }
      }
      let s = rp.send(util::msg(b"a1".to_vec(), false)).await;
      if s.is_err() {
        problems.push(format!("REP.send() after the (re)received request failed: {:?}", s.map_err(|e| util::err_kind(&e))));
      }
      match tokio::time::timeout(Duration::from_secs(3), cli).await {
        Ok(Ok(Ok(Some(d)))) if d == b"a1" => {}
        other => problems.push(format!("the REQ client did not get the reply: {:?}", other.map(|x| x.map(|y| y.map(|z| z.map(|d| d.len())).map_err(|e| util::err_kind(&e)))))),
      }
    }
  }
  rep.case(&("reqrep", which, n_cancel, delay_ms), true);
  if !problems.is_empty() {
    rep.violation(format!("cancel_leaves_{}_stuck_or_loses_message", which.replace('.', "_")), format!("{} dropped at Pending #{} (peer acts after {} ms): {}", which, n_cancel, delay_ms, problems.join("; ")), json!({"op": which, "cancel_at_pending": n_cancel, "problems": problems}));
  }
  let _ = tokio::time::timeout(Duration::from_secs(12), ctx.term()).await;
}

/// REQ (and DEALER-as-client of a stalled peer) send() dropped while it is blocked on a FULL pipe: a request that
/// never reaches the peer must not leave the REQ demanding a recv() first. The peer stays stalled while the next
/// call is tried, and drains afterwards, so whether the cancelled request was delivered is read off the peer's log.
async fn req_backpressure_case(rep: &mut Report, tr: Transport, n_cancel: usize, big: bool) {
  let ctx = util::new_ctx();
  let req = ctx.socket(SocketType::Req).unwrap();
  let rp = ctx.socket(SocketType::Rep).unwrap();
  util::set_i32(&req, opt::SNDHWM, 1).await;
  util::set_i32(&req, opt::RCVTIMEO, 40).await;
  util::set_i32(&rp, opt::RCVHWM, 1).await;
  util::set_i32(&rp, opt::RCVTIMEO, 400).await;
  let ep = match util::bind_fresh(&rp, tr).await {
    Ok(e) => e,
    Err(_) => {
      rep.inconclusive("bind failed".to_string());
      return;
    }
  };
  req.connect(&ep).await.unwrap();
  tokio::time::sleep(Duration::from_millis(200)).await;
  let payload = |i: usize| -> Vec<u8> {
    let mut v = format!("q{:04}|", i).into_bytes();
    if big {
      v.resize(200_000, b'.');
    }
    v
  };
  let mut cancelled: Option<usize> = None;
  let mut i = 0usize;
  while i < 60 && cancelled.is_none() {
    // dropped at its n-th Pending, or - if it blocks with fewer polls than that - by an outer timeout, which is
    // how applications usually drop a blocked send
    match tokio::time::timeout(Duration::from_millis(400), cancel(req.send(util::msg(payload(i), false)), n_cancel)).await {
      Ok(CancelOutcome::Completed(Ok(()), _)) => {
        // the peer is stalled: the reply cannot come; the timeout puts the REQ back to "may send" (C10's recorded finding)
        let _ = req.recv().await;
      }
      Ok(CancelOutcome::Completed(Err(_), _)) => {}
      Ok(CancelOutcome::Cancelled(_)) | Err(_) => cancelled = Some(i),
    }
    i += 1;
  }
  let Some(cid) = cancelled else {
    rep.case(&("req_backpressure", tr, n_cancel, big, "never_pending"), true);
    rep.count("req_backpressure_never_reached_pending", 1);
    let _ = tokio::time::timeout(Duration::from_secs(12), ctx.term()).await;
    return;
  };
  // next call while the peer is still stalled
  util::set_i32(&req, opt::SNDTIMEO, 1500).await;
  util::set_i32(&rp, opt::SNDTIMEO, 1500).await;
  let next = tokio::time::timeout(Duration::from_millis(300), req.send(util::msg(payload(i), false))).await;
  let rejected = matches!(next, Ok(Err(rzmq::ZmqError::InvalidState(_))));
  // now the peer drains and answers everything
  let mut seen: Vec<usize> = vec![];
  while let Ok(m) = rp.recv_multipart().await {
    if let Some(d) = m.iter().next().and_then(|f| f.data()) {
      if d.len() >= 5 && d[0] == b'q' {
        if let Ok(k) = String::from_utf8_lossy(&d[1..5]).parse::<usize>() {
          seen.push(k);
        }
      }
    }
    let _ = rp.send(util::msg(b"a".to_vec(), false)).await;
  }
  rep.case(&("req_backpressure", tr, n_cancel, big, "cancelled"), true);
  rep.count("req_backpressure_send_dropped_while_blocked", 1);
  let delivered = seen.contains(&cid);
  if rejected && !delivered {
    rep.violation(
      "cancel_leaves_req_send_stuck_or_loses_message|blocked_on_full_pipe".to_string(),
      format!("REQ.send() #{} dropped at Pending #{} while blocked on a full pipe ({}, {}): the request never reached the peer, yet the next send() was rejected with InvalidState (the socket demands a recv() for a request that was not sent)", cid, n_cancel, tr.name(), if big { "200 kB requests" } else { "small requests" }),
      json!({"cancelled_request": cid, "peer_saw": seen, "transport": tr.name()}),
    );
  }
  // and the socket must be usable again for a fresh round trip
  let rp2 = rp.clone();
  let srv = tokio::spawn(async move {
    for _ in 0..40 {
      if let Ok(m) = rp2.recv_multipart().await {
        let _ = rp2.send_multipart(m).await;
      }
    }
  });
  // clear owed / late replies of the abandoned requests, then one fresh round trip with a generous timeout
  util::set_i32(&req, opt::RCVTIMEO, 300).await;
  for _ in 0..80 {
    if req.recv().await.is_err() {
      break;
    }
  }
  util::set_i32(&req, opt::RCVTIMEO, 3000).await;
  let mut ok = false;
  for k in 0..6 {
    let marker = format!("fresh{}", k).into_bytes();
    let sr = req.send(util::msg(marker.clone(), false)).await;
    let dbg = std::env::var("VH_DEBUG").is_ok();
    if dbg {
      eprintln!("req_backpressure {} n={} cid={} seen={:?}: fresh{} send -> {:?}", tr.name(), n_cancel, cid, seen, k, sr.as_ref().map_err(util::err_kind));
    }
    match sr {
      Ok(()) => {
        let rr = req.recv().await;
        if dbg {
          eprintln!("   recv -> {:?}", rr.as_ref().map(|m| String::from_utf8_lossy(&m.data().unwrap_or(&[])[..m.size().min(8)]).into_owned()).map_err(util::err_kind));
        }
        // Which request the reply belongs to is not judged here: after requests were abandoned by RCVTIMEO the REQ
        // hands out replies with a permanent lag (no correlation) - that is C10's recorded finding. C09 asks that the
        // socket is not stuck: a send() followed by a recv() both succeed.
        if rr.is_ok() {
          ok = true;
          break;
        }
      }
      Err(_) => {
        let rr = req.recv().await;
        if dbg {
          eprintln!("   (after failed send) recv -> {:?}", rr.as_ref().map(|m| m.size()).map_err(util::err_kind));
        }
      }
    }
  }
  srv.abort();
  if !ok && !(rejected && !delivered) {
    rep.violation(
      "cancel_leaves_req_send_stuck_or_loses_message|no_round_trip_after_cancel".to_string(),
      format!("after REQ.send() #{} was dropped at Pending #{} while blocked on a full pipe, six attempts at a send()+recv() round failed ({})", cid, n_cancel, tr.name()),
      json!({"cancelled_request": cid, "peer_saw": seen}),
    );
  }
  let _ = tokio::time::timeout(Duration::from_secs(12), ctx.term()).await;
}

fn main() {
  let args = Args::parse();
  util::install_panic_watch();
  let mut rep = Report::new("C09", &args.shard_name());
  let mut rng = Rng::new(args.seed.wrapping_mul(334214459).wrapping_add(args.shard as u64));
  let rt = util::runtime(2);
  let mut idx = 0usize;
  let max_n = if args.thorough() { 10 } else { 4 };
  let delays: &[u64] = if args.thorough() { &[0, 3, 25, 80] } else { &[0, 25] };
  let mut reached: BTreeSet<String> = BTreeSet::new();
  for rk in [RecvKind::Pull, RecvKind::Sub, RecvKind::Dealer, RecvKind::Router] {
    for tr in [Transport::Tcp, Transport::Inproc] {
      if tr == Transport::Inproc && !args.thorough() && rk != RecvKind::Pull {
        continue;
      }
      for multi in [false, true] {
        for &d in delays {
          for n in (1..=max_n).chain(101..=102) {
            idx += 1;
            if !args.mine(idx) {
              continue;
            }
            let wt = idx % 5 == 0;
            let mut p = None;
            util::guarded(&rt, async {
              p = recv_cancel_case(&mut rep, &mut rng, rk, tr, multi, n, d, wt).await;
            });
            match p {
              None => rep.inconclusive("recv scenario setup failed".to_string()),
              Some(p) => {
                reached.insert(format!("{:?}.{}@{}", rk, if multi { "recv_multipart" } else { "recv" }, if n >= 100 { format!("wake{}", n - 100) } else { format!("pending{}", n.min(p.max(1))) }));
              }
            }
          }
        }
      }
    }
  }
  for sk in [SendKind::Push, SendKind::Router, SendKind::Dealer, SendKind::Pub] {
    for tr in [Transport::Tcp, Transport::Inproc] {
      if tr == Transport::Inproc && !args.thorough() && sk != SendKind::Push {
        continue;
      }
      for multi in [false, true] {
        for &d in delays {
          for n in (1..=max_n).chain(101..=102) {
            idx += 1;
            if !args.mine(idx) {
              continue;
            }
            let wt = idx % 5 == 0;
            let mut p = None;
            util::guarded(&rt, async {
              p = send_cancel_case(&mut rep, &mut rng, sk, tr, multi, n, d, wt).await;
            });
            match p {
              None => rep.inconclusive("send scenario setup failed".to_string()),
              Some(p) => {
                reached.insert(format!("{:?}.{}@{}", sk, if multi { "send_multipart" } else { "send" }, if n >= 100 { format!("wake{}", n - 100) } else { format!("pending{}", n.min(p.max(1))) }));
              }
            }
          }
        }
      }
    }
  }
  for rk in [RecvKind::Pull, RecvKind::Sub, RecvKind::Dealer, RecvKind::Router] {
    for (tr, multi, total, burst) in [(Transport::Tcp, false, 600u32, 1000usize), (Transport::Inproc, true, 400, 300), (Transport::Tcp, true, 300, 50), (Transport::Ipc, false, 600, 1000)] {
      if tr == Transport::Inproc && rk == RecvKind::Dealer {
        continue; // DEALER-DEALER is refused over inproc (recorded under C05)
      }
      if !args.thorough() && tr == Transport::Ipc && rk != RecvKind::Pull {
        continue;
      }
      idx += 1;
      if args.mine(idx) {
        util::guarded(&rt, drain_case(&mut rep, &mut rng, rk, tr, multi, total, burst));
      }
    }
  }
  for n in (1..=max_n.min(4)).chain(101..=102) {
    idx += 1;
    if args.mine(idx) {
      util::guarded(&rt, router_frames_case(&mut rep, &mut rng, n));
    }
    for which in ["req.send", "req.recv", "rep.recv"] {
      for &d in delays {
        idx += 1;
        if args.mine(idx) {
          util::guarded(&rt, reqrep_case(&mut rep, which, n, d));
        }
      }
    }
  }
  for tr in [Transport::Inproc, Transport::Tcp, Transport::Ipc] {
    for n in (1..=3).chain(101..=102) {
      idx += 1;
      if args.mine(idx) {
        let mut done = false;
        util::guarded(&rt, async {
          done = util::watchdog(90, req_backpressure_case(&mut rep, tr, n, tr != Transport::Inproc)).await.is_some();
        });
        if !done {
          rep.inconclusive(format!("req_backpressure case over {} (cancel point {}) hit the 90 s watchdog", tr.name(), n));
        }
      }
    }
  }
  rep.count("distinct_(socket,op,cancel_point)_reached", reached.len() as u64);
  rep.sample(json!({"cancellation_points_reached": reached.iter().take(40).collect::<Vec<_>>()}));
  for p in util::take_panics() {
    if p.in_rzmq {
      rep.violation(format!("panic|{}", util::panic_site(&p.location)), format!("panic at {}: {}", p.location, p.message), json!({"frames": p.backtrace_head}));
    } else {
      rep.inconclusive(format!("harness panic at {}: {}", p.location, p.message));
    }
  }
  rep.merge_hooks();
  rep.emit();
}

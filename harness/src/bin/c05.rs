//! C05 — handshakes converge, agree, and give one verdict on compatibility.
//! (a) engine-pair monitor under seeded delivery schedules; (b) complete socket-type verdict
//! table over v3 / v2 / inproc; (c) stack sample over tcp/ipc.

use rzmq::verif::EngineCfg;
use rzmq::SocketType;
use serde_json::json;
use std::collections::BTreeMap;
use std::time::Duration;
use vh::args::Args;
use vh::enginepair::{Pair, Sched, SCHEDS};
use vh::gen::Rng;
use vh::refzmtp;
use vh::report::Report;
use vh::util;

const WIRE_TYPES: [&str; 11] = ["PUB", "SUB", "REQ", "REP", "DEALER", "ROUTER", "PUSH", "PULL", "XPUB", "XSUB", "PAIR"];

#[derive(Clone, Copy, Debug, PartialEq, Eq, Hash)]
enum Mech {
  Null,
  Plain,
  Curve,
  Noise,
}
const MECHS: [Mech; 4] = [Mech::Null, Mech::Plain, Mech::Curve, Mech::Noise];

#[derive(Clone, Copy, Debug, PartialEq, Eq, Hash)]
enum Fault {
  None,
  /// client and server configured with different mechanisms
  MechMismatch(Mech),
  /// same mechanism, wrong password / wrong pinned server key
  BadSecret,
}

struct Keys {
  curve_srv: ([u8; 32], [u8; 32]),
  curve_cli: ([u8; 32], [u8; 32]),
  curve_other: ([u8; 32], [u8; 32]),
  noise_srv: ([u8; 32], [u8; 32]),
  noise_cli: ([u8; 32], [u8; 32]),
  noise_other: ([u8; 32], [u8; 32]),
}

fn k32(r: &mut Rng) -> [u8; 32] {
  let mut k = [0u8; 32];
  k.copy_from_slice(&r.bytes(32));
  k
}

fn keys(r: &mut Rng) -> Keys {
  Keys {
    curve_srv: rzmq::verif::curve_keypair_from(k32(r)),
    curve_cli: rzmq::verif::curve_keypair_from(k32(r)),
    curve_other: rzmq::verif::curve_keypair_from(k32(r)),
    noise_srv: rzmq::verif::noise_keypair_from(k32(r)),
    noise_cli: rzmq::verif::noise_keypair_from(k32(r)),
    noise_other: rzmq::verif::noise_keypair_from(k32(r)),
  }
}

fn apply_mech(c: EngineCfg, m: Mech, server: bool, bad_secret: bool, k: &Keys) -> EngineCfg {
  match m {
    Mech::Null => c,
    Mech::Plain => {
      if server {
        c.plain(Some("user"), Some("secret"))
      } else {
        c.plain(Some("user"), Some(if bad_secret { "wrong" } else { "secret" }))
      }
    }
    Mech::Curve => {
      if server {
        c.curve(k.curve_srv.0, None)
      } else {
        c.curve(k.curve_cli.0, Some(if bad_secret { k.curve_other.1 } else { k.curve_srv.1 }))
      }
    }
    Mech::Noise => {
      if server {
        c.noise_xx(k.noise_srv.0, None)
      } else {
        c.noise_xx(k.noise_cli.0, Some(if bad_secret { k.noise_other.1 } else { k.noise_srv.1 }))
      }
    }
  }
}

struct Outcome {
  quiescent: bool,
  a_hs: bool,
  b_hs: bool,
  a_closed: bool,
  b_closed: bool,
  a_fail: bool,
  b_fail: bool,
}

fn outcome(p: &Pair, q: bool) -> Outcome {
  Outcome {
    quiescent: q,
    a_hs: p.a.hs.is_some(),
    b_hs: p.b.hs.is_some(),
    a_closed: p.a.closed(),
    b_closed: p.b.closed(),
    a_fail: p.a.closed() || p.a.saw_eof,
    b_fail: p.b.closed() || p.b.saw_eof,
  }
}

fn idname(id: &Option<Vec<u8>>) -> String {
  match id {
    None => "none".into(),
    Some(v) => format!("{}B", v.len()),
  }
}

#[allow(clippy::too_many_arguments)]
fn run_pair_case(rep: &mut Report, rng: &mut Rng, k: &Keys, mech: Mech, fault: Fault, ta: &str, tb: &str, id_a: &Option<Vec<u8>>, id_b: &Option<Vec<u8>>, sched: Sched, sample: bool) {
  // a = client (connector), b = server (listener)
  let (mech_a, mech_b) = match fault {
    Fault::MechMismatch(other) => (mech, other),
    _ => (mech, mech),
  };
  let ca = apply_mech(EngineCfg::new(ta).routing_id(id_a.as_deref()), mech_a, false, fault == Fault::BadSecret, k);
  let cb = apply_mech(EngineCfg::new(tb).routing_id(id_b.as_deref()), mech_b, true, false, k);
  let mut p = Pair::new(&ca, false, &cb, true);
  p.start();
  let q = p.run(sched, rng, 20000);
  let o = outcome(&p, q);
  let cfgs = format!("mech={:?} fault={:?} {}->{} id_a={} id_b={} sched={:?}", mech, fault, ta, tb, idname(id_a), idname(id_b), sched);
  let compatible_types = refzmtp::rfc_compatible(ta, tb);
  let expect_ok = fault == Fault::None && compatible_types;
  let nontrivial = true;
  rep.case(&(mech, fault, ta.to_string(), tb.to_string(), idname(id_a), idname(id_b), sched, p.trace.clone()), nontrivial);
  let wit = |p: &Pair| {
    json!({"config": cfgs, "a_phase": format!("{:?}", p.a.eng.phase), "b_phase": format!("{:?}", p.b.eng.phase),
           "a_errors": p.a.errors, "b_errors": p.b.errors, "a_hs": format!("{:?}", p.a.hs), "b_hs": format!("{:?}", p.b.hs),
           "delivery_trace_head": p.trace.iter().take(24).map(|(d, n)| format!("{}{}", if *d == 1 { "->a:" } else { "->b:" }, n)).collect::<Vec<_>>()})
  };
  if !o.quiescent {
    rep.inconclusive(format!("pair did not quiesce in 20000 steps: {}", cfgs));
    return;
  }
  if expect_ok {
    if !(p.a.in_data() && p.b.in_data() && o.a_hs && o.b_hs) {
      let kind = if !o.a_closed && !o.b_closed { "mutual_wait" } else { "compatible_failed" };
      rep.violation(format!("{}|mech={:?}|sched={:?}", kind, mech, sched), format!("compatible endpoints did not both complete the handshake: {}", cfgs), wit(&p));
      return;
    }
    if p.a.hs_count != 1 || p.b.hs_count != 1 {
      rep.violation(format!("handshake_complete_repeated|mech={:?}", mech), format!("HandshakeComplete emitted {} / {} times: {}", p.a.hs_count, p.b.hs_count, cfgs), wit(&p));
    }
    // agreement
    let (a_pid, a_pt) = p.a.hs.clone().unwrap();
    let (b_pid, b_pt) = p.b.hs.clone().unwrap();
    let norm = |id: &Option<Vec<u8>>| id.clone().filter(|v| !v.is_empty());
    if a_pt.as_deref() != Some(tb) || b_pt.as_deref() != Some(ta) {
      rep.violation(format!("socket_type_disagreement|mech={:?}", mech), format!("peer socket types reported {:?}/{:?} for {}", a_pt, b_pt, cfgs), wit(&p));
    }
    if a_pid != norm(id_b) || b_pid != norm(id_a) {
      rep.violation(format!("identity_disagreement|mech={:?}", mech), format!("peer identities reported {:?}/{:?} for {}", a_pid.as_ref().map(|v| v.len()), b_pid.as_ref().map(|v| v.len()), cfgs), wit(&p));
    }
    // both agree on mechanism/version iff application data flows both ways
    let m1 = vec![rng.bytes(33), rng.bytes(300)];
    let m2 = vec![rng.bytes(7)];
    let r1 = p.app_send(true, &m1);
    let r2 = p.app_send(false, &m2);
    let q2 = p.run(Sched::Random, rng, 20000);
    if r1.is_err() || r2.is_err() || !q2 || p.b.delivered != vec![m1.clone()] || p.a.delivered != vec![m2.clone()] || !p.a.errors.is_empty() || !p.b.errors.is_empty() {
      rep.violation(format!("post_handshake_data_mismatch|mech={:?}", mech), format!("after a completed handshake the two sides could not exchange data: {}", cfgs), wit(&p));
    }
    if sample {
      rep.sample(json!({"case": cfgs, "result": "both Data, agree", "steps": p.steps, "trace_head": p.trace.iter().take(12).collect::<Vec<_>>()}));
    }
  } else {
    // incompatible: neither side may complete; both must end in failure (closed, or EOF from a closed peer)
    if o.a_hs || o.b_hs {
      let why = if fault == Fault::None { "types".to_string() } else { format!("{:?}", fault).split('(').next().unwrap().to_string() };
      let pairname = if fault == Fault::None { format!("|{}-{}", ta, tb) } else { String::new() };
      rep.violation(
        format!("incompatible_completed|{}|mech={:?}{}", why, mech, pairname),
        format!("incompatible endpoints reported a completed handshake (a={}, b={}): {}", o.a_hs, o.b_hs, cfgs),
        wit(&p),
      );
    } else if !(o.a_fail && o.b_fail) {
      rep.violation(format!("incompatible_wait_forever|mech={:?}|fault={:?}", mech, fault), format!("incompatible endpoints: a side neither failed nor saw the connection close: {}", cfgs), wit(&p));
    } else if sample {
      rep.sample(json!({"case": cfgs, "result": "both failed", "a_errors": p.a.errors, "b_errors": p.b.errors}));
    }
  }
}

fn engine_pairs(rep: &mut Report, args: &Args, rng: &mut Rng) {
  let k = keys(rng);
  let n_random = if args.thorough() { 60 } else { 6 };
  let ids: [Option<Vec<u8>>; 3] = [None, Some(vec![0x41]), Some((0..255u32).map(|i| (i % 251) as u8 + 1).collect())];
  let good_pairs: [(&str, &str); 8] = [("PUSH", "PULL"), ("PULL", "PUSH"), ("DEALER", "ROUTER"), ("ROUTER", "DEALER"), ("REQ", "REP"), ("SUB", "PUB"), ("DEALER", "DEALER"), ("REQ", "ROUTER")];
  let mut idx = 0usize;
  for mech in MECHS {
    let mut faults = vec![Fault::None, Fault::None];
    if mech != Mech::Null {
      faults.push(Fault::BadSecret);
    }
    for other in MECHS {
      if other != mech {
        faults.push(Fault::MechMismatch(other));
      }
    }
    for fault in faults {
      for (pi, (ta, tb)) in good_pairs.iter().enumerate() {
        idx += 1;
        if !args.mine(idx) {
          continue;
        }
        let id_a = &ids[(pi + idx) % 3];
        let id_b = &ids[(pi * 2 + idx / 3) % 3];
        for s in SCHEDS {
          let reps = if s == Sched::Random { n_random } else { 1 };
          for r in 0..reps {
            run_pair_case(rep, rng, &k, mech, fault, ta, tb, id_a, id_b, s, r == 0 && pi == 0 && s == Sched::OneByteAlternating);
          }
        }
      }
    }
  }
  // incompatible socket types over v3 (NULL and one secured mechanism): sampled here, the
  // complete table is in verdict_table()
  for (ta, tb) in [("PUB", "PULL"), ("PUSH", "PUSH"), ("REQ", "REQ"), ("REQ", "PUB"), ("ROUTER", "SUB")] {
    idx += 1;
    if !args.mine(idx) {
      continue;
    }
    for mech in [Mech::Null, Mech::Plain] {
      for s in [Sched::LockStep, Sched::OneByteAlternating, Sched::Random] {
        run_pair_case(rep, rng, &k, mech, Fault::None, ta, tb, &None, &None, s, false);
      }
    }
  }
}

/// v2 verdict for local rzmq engine of type `local` (role given) against a reference v2 peer
/// announcing `peer`. Some(true)=completed, Some(false)=failed.
fn v2_verdict(local: &str, peer: &str, local_is_server: bool, bytewise: bool) -> (Option<bool>, String) {
  let cfg = EngineCfg::new(local);
  let mut side = vh::enginepair::Side::new(cfg.engine(local_is_server));
  let o = side.eng.start();
  let _ = side.absorb(o);
  let g = refzmtp::greeting_v2(refzmtp::v2_code(peer).unwrap(), b"");
  if bytewise {
    for b in &g {
      let _ = side.feed(&[*b]);
    }
  } else {
    let _ = side.feed(&g);
  }
  if side.hs.is_some() && side.in_data() {
    (Some(true), String::new())
  } else if side.closed() {
    (Some(false), side.errors.join(";"))
  } else {
    (None, format!("phase {:?}", side.eng.phase))
  }
}

fn v3_verdict(a: &str, b: &str, rng: &mut Rng) -> (Option<bool>, Option<bool>) {
  let mut p = Pair::new(&EngineCfg::new(a), false, &EngineCfg::new(b), true);
  p.start();
  let q = p.run(Sched::Random, rng, 20000);
  if !q {
    return (None, None);
  }
  let f = |s: &vh::enginepair::Side| if s.hs.is_some() && s.in_data() { Some(true) } else if s.closed() || s.saw_eof { Some(false) } else { None };
  (f(&p.a), f(&p.b))
}

fn st(name: &str) -> Option<SocketType> {
  util::ALL_TYPES.iter().copied().find(|t| util::socket_type_name(*t) == name)
}

async fn inproc_verdict(connector: SocketType, binder: SocketType) -> Option<bool> {
  let ctx = util::new_ctx();
  let b = ctx.socket(binder).ok()?;
  let c = ctx.socket(connector).ok()?;
  let ep = util::bind_fresh(&b, util::Transport::Inproc).await.ok()?;
  let r = tokio::time::timeout(Duration::from_secs(5), c.connect(&ep)).await;
  let v = match r {
    Ok(Ok(())) => Some(true),
    Ok(Err(_)) => Some(false),
    Err(_) => None,
  };
  let _ = tokio::time::timeout(Duration::from_secs(5), ctx.term()).await;
  v
}

fn vs(v: Option<bool>) -> &'static str {
  match v {
    Some(true) => "ok",
    Some(false) => "refused",
    None => "stuck",
  }
}

fn verdict_table(rep: &mut Report, rng: &mut Rng) {
  let rt = util::runtime(2);
  let mut table: BTreeMap<(String, String), BTreeMap<&'static str, Option<bool>>> = BTreeMap::new();
  for a in WIRE_TYPES {
    for b in WIRE_TYPES {
      // a connects, b listens
      let mut row: BTreeMap<&'static str, Option<bool>> = BTreeMap::new();
      let (va, vb) = v3_verdict(a, b, rng);
      rep.cases(1);
      if va != vb {
        rep.violation(format!("v3_sides_disagree|{}-{}", a, b), format!("v3 handshake between {} (connector) and {} (listener): connector says {}, listener says {}", a, b, vs(va), vs(vb)), json!({"a": a, "b": b}));
      }
      row.insert("v3", va.and_then(|x| vb.map(|y| x && y)));
      // v2: local a (client role) facing v2 peer b; and local b (server role) facing v2 peer a
      let (v2a, _) = v2_verdict(a, b, false, false);
      let (v2b, _) = v2_verdict(b, a, true, true);
      rep.cases(2);
      if v2a != v2b {
        rep.violation(format!("v2_sides_disagree|{}-{}", a, b), format!("v2: local {} facing {} says {}, local {} facing {} says {}", a, b, vs(v2a), b, a, vs(v2b)), json!({"a": a, "b": b}));
      }
      row.insert("v2", v2a);
      if let (Some(ta), Some(tb)) = (st(a), st(b)) {
        let v = rt.block_on(inproc_verdict(ta, tb));
        rep.cases(1);
        row.insert("inproc", v);
      }
      table.insert((a.to_string(), b.to_string()), row);
    }
  }
  rep.exhaustive_parts.push("socket-type verdict table: all 11x11 wire names over v3 and v2 (both roles), all 8x8 creatable types over inproc".into());
  // symmetry + one verdict per pair across transports + agreement with the RFC pairing table
  let mut printed = 0;
  for ((a, b), row) in &table {
    rep.case(&("verdict", a, b), true);
    let rfc = refzmtp::rfc_compatible(a, b);
    let rev = &table[&(b.clone(), a.clone())];
    for (k, v) in row {
      if rev.get(k) != Some(v) && a < b {
        rep.violation(format!("verdict_asymmetric|{}|{}-{}", k, a, b), format!("{}: {}->{} is {} but {}->{} is {}", k, a, b, vs(*v), b, a, vs(rev.get(k).copied().flatten())), json!({"a": a, "b": b}));
      }
    }
    if a <= b {
      let vals: Vec<(&str, Option<bool>)> = row.iter().map(|(k, v)| (*k, *v)).collect();
      let distinct: std::collections::BTreeSet<Option<bool>> = vals.iter().map(|x| x.1).collect();
      let desc = vals.iter().map(|(k, v)| format!("{}={}", k, vs(*v))).collect::<Vec<_>>().join(",");
      if distinct.len() > 1 {
        rep.violation(format!("verdict_mismatch|{}-{}|{}", a, b, desc), format!("socket types {} and {}: verdict differs between transports ({}); a valid ZeroMQ pairing: {}", a, b, desc, rfc), json!({"a": a, "b": b, "verdicts": desc, "rfc_valid_pairing": rfc}));
      } else if distinct.iter().next().copied().flatten() != Some(rfc) {
        rep.violation(format!("verdict_vs_rfc|{}-{}|{}", a, b, desc), format!("socket types {} and {}: all transports say {} but the ZeroMQ pairing table says {}", a, b, desc, if rfc { "valid" } else { "invalid" }), json!({"a": a, "b": b, "verdicts": desc, "rfc_valid_pairing": rfc}));
      }
      if printed < 3 {
        rep.sample(json!({"pair": format!("{}-{}", a, b), "verdicts": desc, "rfc_valid_pairing": rfc}));
        printed += 1;
      }
    }
  }
}

/// Stack sample: real sockets over tcp / ipc — do both sides' monitors agree with the verdict?
async fn stack_case(rep: &mut Report, t: util::Transport, ta: SocketType, tb: SocketType) {
  use rzmq::socket::SocketEvent;
  let ctx = util::new_ctx();
  let (b, c) = match (ctx.socket(tb), ctx.socket(ta)) {
    (Ok(b), Ok(c)) => (b, c),
    _ => return,
  };
  util::set_i32(&b, rzmq::socket::options::HANDSHAKE_IVL, 1500).await;
  util::set_i32(&c, rzmq::socket::options::HANDSHAKE_IVL, 1500).await;
  util::set_i32(&c, rzmq::socket::options::RECONNECT_IVL, 5000).await;
  let mb = b.monitor(64).await.unwrap();
  let mc = c.monitor(64).await.unwrap();
  let ep = match util::bind_fresh(&b, t).await {
    Ok(e) => e,
    Err(e) => {
      rep.inconclusive(format!("bind failed: {e}"));
      return;
    }
  };
  let cr = c.connect(&ep).await;
  let names = format!("{}->{}", util::socket_type_name(ta), util::socket_type_name(tb));
  let ok_pred = |e: &SocketEvent| matches!(e, SocketEvent::HandshakeSucceeded { .. });
  let b_ok = util::wait_event(&mb, Duration::from_secs(3), ok_pred).await;
  let c_ok = util::wait_event(&mc, Duration::from_millis(if b_ok { 3000 } else { 300 }), ok_pred).await;
  let rfc = refzmtp::rfc_compatible(util::socket_type_name(ta), util::socket_type_name(tb));
  rep.case(&("stack", t, names.clone()), true);
  if b_ok != c_ok {
    rep.violation(format!("stack_sides_disagree|{}|{}", t.name(), names), format!("{} over {}: listener handshake ok={} connector ok={}", names, t.name(), b_ok, c_ok), json!({"connect_result": format!("{:?}", cr)}));
  } else if b_ok != rfc {
    rep.violation(format!("stack_verdict_vs_rfc|{}|{}", t.name(), names), format!("{} over {}: handshake succeeded={} but valid pairing={}", names, t.name(), b_ok, rfc), json!({"connect_result": format!("{:?}", cr)}));
  }
  let _ = tokio::time::timeout(Duration::from_secs(12), ctx.term()).await;
}

fn main() {
  let args = Args::parse();
  util::install_panic_watch();
  let mut rep = Report::new("C05", &args.shard_name());
  let mut rng = Rng::new(args.seed.wrapping_mul(7919).wrapping_add(args.shard as u64));
  match args.only.as_deref() {
    Some("table") => verdict_table(&mut rep, &mut rng),
    Some("stack") => {
      let rt = util::runtime(2);
      let pairs = [
        (SocketType::Push, SocketType::Pull),
        (SocketType::Dealer, SocketType::Router),
        (SocketType::Dealer, SocketType::Dealer),
        (SocketType::Pub, SocketType::Pull),
        (SocketType::Req, SocketType::Req),
        (SocketType::Push, SocketType::Push),
        (SocketType::Req, SocketType::Router),
        (SocketType::Sub, SocketType::Pub),
      ];
      for (i, (a, b)) in pairs.iter().enumerate() {
        for t in [util::Transport::Tcp, util::Transport::Ipc] {
          if args.thorough() || i % 2 == (t == util::Transport::Tcp) as usize || i < 4 {
            rt.block_on(stack_case(&mut rep, t, *a, *b));
          }
        }
      }
      util::cleanup_ipc_dir();
    }
    _ => engine_pairs(&mut rep, &args, &mut rng),
  }
  for p in util::take_panics() {
    if p.in_rzmq {
      rep.violation(format!("panic|{}", util::panic_site(&p.location)), format!("panic at {}: {}", p.location, p.message), json!({"frames": p.backtrace_head}));
    } else {
      rep.inconclusive(format!("harness panic at {}: {}", p.location, p.message));
    }
  }
  rep.merge_hooks();
  rep.emit();
}

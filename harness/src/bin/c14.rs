//! C14 — high-water marks bound buffering and SNDTIMEO/RCVTIMEO mean what they say.
//! Per-call record (error variant, elapsed) against a peer that never reads / reads late, plus
//! conservation once the stalled peer finally drains.

use rzmq::socket::options as opt;
use rzmq::{Socket, SocketType, ZmqError};
use serde_json::json;
use std::time::{Duration, Instant};
use vh::args::Args;
use vh::gen::Rng;
use vh::oracles::{self, SendStatus, SentMsg};
use vh::payload::HDR;
use vh::report::Report;
use vh::util::{self, Transport};

#[derive(Clone, Copy, Debug, PartialEq, Eq, Hash)]
enum Pair {
  PushPull,
  DealerRouter,
  RouterDealer,
  DealerDealer,
}

fn types(p: Pair) -> (SocketType, SocketType) {
  match p {
    Pair::PushPull => (SocketType::Push, SocketType::Pull),
    Pair::DealerRouter => (SocketType::Dealer, SocketType::Router),
    Pair::RouterDealer => (SocketType::Router, SocketType::Dealer),
    Pair::DealerDealer => (SocketType::Dealer, SocketType::Dealer),
  }
}

fn is_wouldblock(e: &ZmqError) -> bool {
  matches!(e, ZmqError::ResourceLimitReached)
}
fn is_timeout(e: &ZmqError) -> bool {
  matches!(e, ZmqError::Timeout)
}

async fn setup(pair: Pair, tr: Transport, hwm: i32, sndtimeo: i32, msg_len: usize) -> Option<(rzmq::Context, Socket, Socket, Option<Vec<u8>>, usize)> {
  let ctx = util::new_ctx();
  let (ta, tb) = types(pair);
  let a = ctx.socket(ta).ok()?;
  let b = ctx.socket(tb).ok()?;
  for s in [&a, &b] {
    util::set_i32(s, opt::SNDHWM, hwm).await;
    util::set_i32(s, opt::RCVHWM, hwm).await;
    util::set_i32(s, opt::RECONNECT_IVL, 60_000).await;
    // keep kernel buffering small and known
    let _ = s.set_option(opt::SNDBUF, 32 * 1024).await;
    let _ = s.set_option(opt::RCVBUF, 32 * 1024).await;
  }
  util::set_i32(&a, opt::SNDTIMEO, sndtimeo).await;
  let mut dest = None;
  if pair == Pair::RouterDealer {
    a.set_option(opt::ROUTER_MANDATORY, true).await.ok()?;
    b.set_option_raw(opt::ROUTING_ID, b"D1").await.ok()?;
    dest = Some(b"D1".to_vec());
  }
  let ep = util::bind_fresh(&b, tr).await.ok()?;
  a.connect(&ep).await.ok()?;
  tokio::time::sleep(Duration::from_millis(if tr == Transport::Inproc { 60 } else { 300 })).await;
  Some((ctx, a, b, dest, msg_len))
}

async fn send_one(a: &Socket, run: u32, seq: u32, len: usize, dest: &Option<Vec<u8>>) -> Result<(), ZmqError> {
  let fr = oracles::build_message(run, 1, seq, u32::MAX, &[len]);
  match dest {
    Some(d) => a.send_multipart(vec![util::msg(d.clone(), true), util::msg(fr[0].clone(), false)]).await,
    None => a.send(util::msg(fr[0].clone(), false)).await,
  }
}

/// Fill towards a peer that never reads, with the given SNDTIMEO, and judge every call.
async fn send_side_case(rep: &mut Report, rng: &mut Rng, pair: Pair, tr: Transport, hwm: i32, sndtimeo: i32, observe_minus1: Duration) {
  let msg_len = if tr == Transport::Inproc { HDR + 100 } else { 64 * 1024 };
  let Some((ctx, a, b, dest, _)) = setup(pair, tr, hwm, sndtimeo, msg_len).await else {
    rep.inconclusive("setup failed".to_string());
    return;
  };
  let run = (rng.next() & 0x7FFF_FFFF) as u32;
  let cfg = format!("{:?} over {} HWM={} SNDTIMEO={}", pair, tr.name(), hwm, sndtimeo);
  let sig_tail = format!("{:?}|sndtimeo={}", pair, if sndtimeo < 0 { "-1".to_string() } else if sndtimeo == 0 { "0".to_string() } else { "T".to_string() });
  let mut sent: Vec<SentMsg> = vec![];
  // transport capacity: inproc none; stream: 2 x 32 KiB socket buffers (doubled by the kernel) of 64 KiB messages
  let transport_capacity = if tr == Transport::Inproc { 0 } else { 8 };
  let bound = 2 * hwm as usize + 2 * hwm as usize + 2 * 128 + transport_capacity + 16;
  let mut accepted = 0usize;
  let mut first_refusal: Option<(u32, String, Duration)> = None;
  let t_fill = Instant::now();
  let max_try = bound as u32 + 50;
  for seq in 0..max_try {
    let t0 = Instant::now();
    let limit = if sndtimeo < 0 { observe_minus1 } else { Duration::from_millis(sndtimeo as u64 + 6000) };
    let r = tokio::time::timeout(limit, send_one(&a, run, seq, msg_len, &dest)).await;
    let el = t0.elapsed();
    match r {
      Ok(Ok(())) => {
        accepted += 1;
        sent.push(SentMsg { sender: 1, seq, dest: u32::MAX, frame_lens: vec![msg_len], status: SendStatus::Accepted });
      }
      Ok(Err(e)) => {
        sent.push(SentMsg { sender: 1, seq, dest: u32::MAX, frame_lens: vec![msg_len], status: SendStatus::Refused });
        first_refusal = Some((seq, format!("{:?}", e), el));
        rep.cases(1);
        // judge the refusal
        if sndtimeo == 0 {
          if !is_wouldblock(&e) {
            rep.violation(format!("sndtimeo0_wrong_error|{}", sig_tail), format!("{}: at HWM with SNDTIMEO=0 send failed with {:?} instead of would-block", cfg, e), json!({"config": cfg, "error": format!("{:?}", e)}));
          }
          if el > Duration::from_millis(500) {
            rep.violation(format!("sndtimeo0_not_immediate|{}", sig_tail), format!("{}: SNDTIMEO=0 send took {:?}", cfg, el), json!({"config": cfg, "elapsed_ms": el.as_millis() as u64}));
          }
        } else if sndtimeo > 0 {
          let t = Duration::from_millis(sndtimeo as u64);
          if !(is_timeout(&e) || is_wouldblock(&e)) {
            rep.violation(format!("sndtimeo_wrong_error|{}", sig_tail), format!("{}: send failed with {:?}, neither timeout nor would-block", cfg, e), json!({"config": cfg, "error": format!("{:?}", e)}));
          }
          if el + Duration::from_millis(15) < t {
            rep.violation(format!("sndtimeo_early|{}", sig_tail), format!("{}: send failed after {:?}, earlier than SNDTIMEO {:?}", cfg, el, t), json!({"config": cfg, "elapsed_ms": el.as_millis() as u64}));
          }
          if el > t + Duration::from_secs(2) {
            rep.violation(format!("sndtimeo_late|{}", sig_tail), format!("{}: send failed after {:?}, more than 2 s after SNDTIMEO {:?}", cfg, el, t), json!({"config": cfg, "elapsed_ms": el.as_millis() as u64}));
          }
        } else {
          rep.violation(format!("sndtimeo_minus1_returned_error|{}", sig_tail), format!("{}: with SNDTIMEO=-1 and a peer that simply does not read, send returned {:?} after {:?}", cfg, e, el), json!({"config": cfg, "error": format!("{:?}", e), "elapsed_ms": el.as_millis() as u64}));
        }
        break;
      }
      Err(_) => {
        // still blocked
        sent.push(SentMsg { sender: 1, seq, dest: u32::MAX, frame_lens: vec![msg_len], status: SendStatus::Maybe });
        rep.cases(1);
        if sndtimeo >= 0 {
          rep.violation(format!("sndtimeo_never_returned|{}", sig_tail), format!("{}: send still blocked {:?} after the timeout", cfg, limit), json!({"config": cfg}));
        } else {
          first_refusal = Some((seq, "blocked (as required for -1)".into(), el));
        }
        break;
      }
    }
  }
  rep.case(&(pair, tr, hwm, sndtimeo), true);
  rep.max(&format!("max:accepted_unread[{:?},hwm={}]", pair, hwm), accepted as u64);
  if first_refusal.is_none() {
    rep.violation(format!("hwm_unbounded|{}|hwm={}", sig_tail, hwm), format!("{}: {} messages accepted while the peer never read (bound {}); buffering is not bounded by the high-water marks", cfg, accepted, bound), json!({"config": cfg, "accepted": accepted, "bound": bound, "fill_ms": t_fill.elapsed().as_millis() as u64}));
  }
  // ---- the stalled peer finally drains: conservation ----
  util::set_i32(&b, opt::RCVTIMEO, 800).await;
  let mut received: Vec<Vec<Vec<u8>>> = vec![];
  let strip = types(pair).1 == SocketType::Router;
  let t0 = Instant::now();
  while t0.elapsed() < Duration::from_secs(15) {
    match b.recv_multipart().await {
      Ok(m) => {
        let mut v: Vec<Vec<u8>> = m.into_iter().map(|f| f.data().unwrap_or(&[]).to_vec()).collect();
        if strip && !v.is_empty() {
          v.remove(0);
        }
        received.push(v);
      }
      Err(_) => {
        if received.len() >= accepted {
          break;
        }
        if t0.elapsed() > Duration::from_secs(5) {
          break;
        }
      }
    }
  }
  let dealer_sender = matches!(pair, Pair::DealerRouter | Pair::DealerDealer);
  let f = oracles::check_receiver(run, &sent, &received, None, true);
  if !f.ok() {
    let who = if dealer_sender { "sender=DEALER".to_string() } else { format!("{:?}", pair) };
    rep.violation(format!("conservation_{}|{}", f.kinds().join("+"), who), format!("{}: after the stalled peer drained: {}", cfg, f.kinds().join("+")), json!({"config": cfg, "findings": f.to_json(), "accepted": accepted}));
  }
  let _ = tokio::time::timeout(Duration::from_secs(12), ctx.term()).await;
}

/// SNDTIMEO=-1: a send blocked at HWM must complete once the peer starts reading.
async fn unblock_case(rep: &mut Report, rng: &mut Rng, pair: Pair, tr: Transport, hwm: i32) {
  let msg_len = if tr == Transport::Inproc { HDR + 100 } else { 64 * 1024 };
  let Some((ctx, a, b, dest, _)) = setup(pair, tr, hwm, -1, msg_len).await else {
    rep.inconclusive("setup failed".to_string());
    return;
  };
  let run = (rng.next() & 0x7FFF_FFFF) as u32;
  let cfg = format!("{:?} over {} HWM={} SNDTIMEO=-1", pair, tr.name(), hwm);
  let total = (4 * hwm as u32 + 300).min(600);
  let a2 = a.clone();
  let dest2 = dest.clone();
  let sender = tokio::spawn(async move {
    let mut ok = 0u32;
    for seq in 0..total {
      if send_one(&a2, run, seq, msg_len, &dest2).await.is_err() {
        break;
      }
      ok += 1;
    }
    ok
  });
  // let it block
  tokio::time::sleep(Duration::from_millis(800)).await;
  let blocked = !sender.is_finished();
  util::set_i32(&b, opt::RCVTIMEO, 1000).await;
  let mut got = 0u32;
  let t0 = Instant::now();
  let mut last = Instant::now();
  while got < total && t0.elapsed() < Duration::from_secs(40) && last.elapsed() < Duration::from_secs(6) {
    if b.recv_multipart().await.is_ok() {
      got += 1;
      last = Instant::now();
    }
  }
  let finished = tokio::time::timeout(Duration::from_secs(2), sender).await;
  rep.case(&("unblock", pair, tr, hwm), true);
  let who = if matches!(pair, Pair::DealerRouter | Pair::DealerDealer) { "sender=DEALER".to_string() } else { format!("{:?}", pair) };
  match finished {
    Ok(Ok(ok)) if ok == total && got == total => {}
    Ok(Ok(ok)) => rep.violation(format!("minus1_send_failed_or_lost|{}", who), format!("{}: sender was blocked={} then the peer read: {} of {} sends succeeded, {} received", cfg, blocked, ok, total, got), json!({"config": cfg})),
    _ => rep.violation(format!("minus1_send_stays_blocked|{}", who), format!("{}: the peer drained everything it was given ({} received) yet the blocked send() never completed", cfg, got), json!({"config": cfg, "received": got, "total": total})),
  }
  let _ = tokio::time::timeout(Duration::from_secs(12), ctx.term()).await;
}

/// recv on an empty queue honours RCVTIMEO.
async fn recv_side_case(rep: &mut Report, t: SocketType, rcvtimeo: i32) {
  let ctx = util::new_ctx();
  let peer_t = match t {
    SocketType::Pull => SocketType::Push,
    SocketType::Sub => SocketType::Pub,
    SocketType::Dealer => SocketType::Router,
    SocketType::Router => SocketType::Dealer,
    SocketType::Rep => SocketType::Req,
    _ => SocketType::Rep,
  };
  let s = ctx.socket(t).unwrap();
  util::set_i32(&s, opt::RCVTIMEO, rcvtimeo).await;
  if t == SocketType::Sub {
    s.set_option(opt::SUBSCRIBE, "").await.unwrap();
  }
  let ep = util::bind_fresh(&s, Transport::Tcp).await.unwrap();
  let p = ctx.socket(peer_t).unwrap();
  if peer_t == SocketType::Dealer {
    p.set_option_raw(opt::ROUTING_ID, b"PX").await.unwrap();
  }
  p.connect(&ep).await.unwrap();
  tokio::time::sleep(Duration::from_millis(250)).await;
  let name = util::socket_type_name(t);
  for multi in [false, true] {
    if t == SocketType::Req {
      // recv is only legal after a send (the peer REP never answers)
      let _ = s.send(util::msg(b"q".to_vec(), false)).await;
    }
    let t0 = Instant::now();
    let limit = if rcvtimeo < 0 { Duration::from_millis(1500) } else { Duration::from_millis(rcvtimeo as u64 + 5000) };
    let r = tokio::time::timeout(limit, async {
      if multi {
        s.recv_multipart().await.map(|_| ())
      } else {
        s.recv().await.map(|_| ())
      }
    })
    .await;
    let el = t0.elapsed();
    let how = if multi { "recv_multipart" } else { "recv" };
    rep.case(&("recv", name, rcvtimeo, multi), true);
    let sig_t = if rcvtimeo < 0 { "-1" } else if rcvtimeo == 0 { "0" } else { "T" };
    match r {
      Err(_) => {
        if rcvtimeo >= 0 {
          rep.violation(format!("rcvtimeo_never_returned|{}|rcvtimeo={}", name, sig_t), format!("{} {}() on an empty queue still blocked after {:?} with RCVTIMEO={}", name, how, limit, rcvtimeo), json!({}));
        }
      }
      Ok(Ok(())) => rep.violation(format!("recv_spurious_success|{}", name), format!("{} {}() returned a message although nothing was sent", name, how), json!({})),
      Ok(Err(e)) => {
        if rcvtimeo < 0 {
          rep.violation(format!("rcvtimeo_minus1_returned_error|{}", name), format!("{} {}() with RCVTIMEO=-1 returned {:?} after {:?} on an idle connection", name, how, e, el), json!({"error": format!("{:?}", e)}));
        } else if rcvtimeo == 0 {
          if !(is_wouldblock(&e) || is_timeout(&e)) || el > Duration::from_millis(500) {
            rep.violation(format!("rcvtimeo0_wrong|{}", name), format!("{} {}() with RCVTIMEO=0: {:?} after {:?}", name, how, e, el), json!({"error": format!("{:?}", e), "elapsed_ms": el.as_millis() as u64}));
          }
        } else {
          let tt = Duration::from_millis(rcvtimeo as u64);
          if !(is_wouldblock(&e) || is_timeout(&e)) {
            rep.violation(format!("rcvtimeo_wrong_error|{}", name), format!("{} {}(): {:?}", name, how, e), json!({"error": format!("{:?}", e)}));
          } else if el + Duration::from_millis(15) < tt {
            rep.violation(format!("rcvtimeo_early|{}", name), format!("{} {}() failed after {:?}, earlier than RCVTIMEO {:?}", name, how, el, tt), json!({"elapsed_ms": el.as_millis() as u64}));
          } else if el > tt + Duration::from_secs(2) {
            rep.violation(format!("rcvtimeo_late|{}", name), format!("{} {}() failed after {:?}, more than 2 s after RCVTIMEO {:?}", name, how, el, tt), json!({"elapsed_ms": el.as_millis() as u64}));
          }
        }
      }
    }
  }
  // -1: a message arriving later is returned
  if rcvtimeo < 0 && matches!(t, SocketType::Pull | SocketType::Sub | SocketType::Dealer) {
    let s2 = s.clone();
    let h = tokio::spawn(async move { s2.recv_multipart().await });
    tokio::time::sleep(Duration::from_millis(300)).await;
    let r = match peer_t {
      SocketType::Router => {
        // address the DEALER by the identity it did not set: skip (needs identity); use known path
        Ok(())
      }
      _ => p.send(util::msg(b"late".to_vec(), false)).await,
    };
    if r.is_ok() && peer_t != SocketType::Router {
      rep.cases(1);
      match tokio::time::timeout(Duration::from_secs(3), h).await {
        Ok(Ok(Ok(_))) => {}
        other => rep.violation(format!("blocked_recv_not_woken|{}", name), format!("{} recv with RCVTIMEO=-1 did not return the message that arrived 300 ms later: {:?}", name, other.map(|x| x.map(|y| y.map(|m| m.len())))), json!({})),
      }
    } else {
      h.abort();
    }
  }
  let _ = tokio::time::timeout(Duration::from_secs(12), ctx.term()).await;
}

/// (plateau) a producer that retries for seconds against a consumer that never reads: once the queues are full the number
/// of accepted messages must stop growing - also with the timer-driven machinery (heartbeats on either side) running,
/// which opens the receive path periodically. Judged on the second half of the observation window.
async fn plateau_case(rep: &mut Report, rng: &mut Rng, pair: Pair, tr: Transport, hwm: i32, hb_side: &str) {
  let msg_len = 64 * 1024;
  let ctx = util::new_ctx();
  let (ta, tb) = types(pair);
  let a = ctx.socket(ta).unwrap();
  let b = ctx.socket(tb).unwrap();
  for s in [&a, &b] {
    util::set_i32(s, opt::SNDHWM, hwm).await;
    util::set_i32(s, opt::RCVHWM, hwm).await;
    let _ = s.set_option(opt::SNDBUF, 32 * 1024).await;
    let _ = s.set_option(opt::RCVBUF, 32 * 1024).await;
  }
  util::set_i32(&a, opt::SNDTIMEO, 0).await;
  for (s, side) in [(&a, "sender"), (&b, "receiver")] {
    if hb_side == side || hb_side == "both" {
      util::set_i32(s, opt::HEARTBEAT_IVL, 100).await;
      util::set_i32(s, opt::HEARTBEAT_TIMEOUT, 60_000).await;
    }
  }
  let mut dest = None;
  if pair == Pair::RouterDealer {
    let _ = a.set_option(opt::ROUTER_MANDATORY, true).await;
    let _ = b.set_option_raw(opt::ROUTING_ID, b"D1").await;
    dest = Some(b"D1".to_vec());
  }
  let Ok(ep) = util::bind_fresh(&b, tr).await else {
    rep.inconclusive("bind failed".to_string());
    return;
  };
  let _ = a.connect(&ep).await;
  tokio::time::sleep(Duration::from_millis(300)).await;
  let run = (rng.next() & 0x7FFF_FFFF) as u32;
  // phase 1 (fill): produce until nothing has been accepted for 600 ms - the queues are full, however long that took
  // (HWM 100 with 64 KiB messages, or an oversubscribed machine, need more than a fixed two seconds);
  // phase 2 (plateau): keep trying for 2 s - a peer that never reads must not make room again
  let window = Duration::from_millis(2000);
  let t0 = Instant::now();
  let (mut first_half, mut second_half, mut refused) = (0usize, 0usize, 0usize);
  let mut seq = 0u32;
  let mut other_err: Option<String> = None;
  let mut last_accept = Instant::now();
  let mut plateau_since: Option<Instant> = None;
  let fill_cap = util::scaled(Duration::from_secs(20));
  loop {
    if let Some(p) = plateau_since {
      if p.elapsed() >= window {
        break;
      }
    } else if last_accept.elapsed() >= Duration::from_millis(600) && refused > 0 {
      plateau_since = Some(Instant::now());
    } else if t0.elapsed() > fill_cap {
      break;
    }
    match tokio::time::timeout(Duration::from_secs(2), send_one(&a, run, seq, msg_len, &dest)).await {
      Ok(Ok(())) => {
        if plateau_since.is_none() {
          first_half += 1;
        } else {
          second_half += 1;
        }
        last_accept = Instant::now();
        seq += 1;
      }
      Ok(Err(e)) => {
        refused += 1;
        if !is_wouldblock(&e) && !is_timeout(&e) {
          other_err.get_or_insert(format!("{:?}", e));
        }
        tokio::time::sleep(Duration::from_millis(2)).await;
      }
      Err(_) => {
        refused += 1;
      }
    }
  }
  let cfg = format!("{:?} over {} HWM={} SNDTIMEO=0 heartbeat={}", pair, tr.name(), hwm, hb_side);
  rep.case(&("plateau", pair, tr, hwm, hb_side), true);
  rep.max(&format!("max:plateau_accepted_second_half[{}]", hb_side), second_half as u64);
  if refused == 0 || plateau_since.is_none() {
    rep.inconclusive(format!("{}: the queues never filled within {:?} ({} accepted, {} refusals, last acceptance {:?} ago)", cfg, fill_cap, first_half + second_half, refused, last_accept.elapsed()));
  } else if let Some(e) = other_err {
    rep.note(format!("{}: sends failed with {} (connection lost?) - plateau not judged", cfg, e));
  } else if second_half > 2 {
    rep.violation(
      format!("hwm_unbounded|still_accepting_while_peer_never_reads|heartbeat={}", hb_side),
      format!("{}: the peer never read; after {} messages nothing was accepted for 600 ms (queues full), yet another {} were accepted in the following {:?} ({} refusals in all): buffering keeps growing", cfg, first_half, second_half, window, refused),
      json!({"config": cfg, "first_half": first_half, "second_half": second_half, "refused": refused}),
    );
  }
  let _ = tokio::time::timeout(Duration::from_secs(12), ctx.term()).await;
}

/// (recv under churn) RCVTIMEO must mean what it says while OTHER things happen on the socket: nothing is ever sent to
/// it, but silent peers keep connecting (and half of them disconnecting again) more often than once per RCVTIMEO.
/// recv()/recv_multipart() must still give up after RCVTIMEO - not after the churn ends.
async fn recv_churn_case(rep: &mut Report, t: SocketType, rcvtimeo: u64, every_ms: u64, tr: Transport) {
  let ctx = util::new_ctx();
  let peer_t = match t {
    SocketType::Pull => SocketType::Push,
    SocketType::Sub => SocketType::Pub,
    SocketType::Dealer => SocketType::Router,
    SocketType::Router => SocketType::Dealer,
    SocketType::Rep => SocketType::Req,
    _ => SocketType::Rep,
  };
  let s = ctx.socket(t).unwrap();
  util::set_i32(&s, opt::RCVTIMEO, rcvtimeo as i32).await;
  if t == SocketType::Sub {
    s.set_option(opt::SUBSCRIBE, "").await.unwrap();
  }
  let ep = match util::bind_fresh(&s, tr).await {
    Ok(e) => e,
    Err(e) => {
      rep.inconclusive(format!("bind {e}"));
      return;
    }
  };
  let name = util::socket_type_name(t);
  let churn_for = Duration::from_millis(rcvtimeo * 10 + 1000);
  let stop = std::sync::Arc::new(std::sync::atomic::AtomicBool::new(false));
  let churn = {
    let peer_ctx = util::new_ctx();
    let ep = ep.clone();
    let stop = stop.clone();
    tokio::spawn(async move {
      let mut keep = vec![];
      let mut k = 0usize;
      while !stop.load(std::sync::atomic::Ordering::SeqCst) {
        if let Ok(p) = peer_ctx.socket(peer_t) {
          let _ = p.connect(&ep).await;
          if k % 2 == 0 {
            keep.push(p);
          } else {
            let p2 = p.clone();
            tokio::spawn(async move {
              tokio::time::sleep(Duration::from_millis(40)).await;
              let _ = p2.close().await;
            });
          }
        }
        k += 1;
        tokio::time::sleep(Duration::from_millis(every_ms)).await;
      }
      drop(keep);
      let _ = tokio::time::timeout(Duration::from_secs(10), peer_ctx.term()).await;
      k
    })
  };
  tokio::time::sleep(Duration::from_millis(50)).await;
  let mut worst = Duration::ZERO;
  let mut outcomes: Vec<String> = vec![];
  for multi in [false, true] {
    if t == SocketType::Req {
      continue; // recv on REQ is only legal after a send; covered without churn
    }
    let t0 = Instant::now();
    let r = tokio::time::timeout(churn_for, async {
      if multi {
        s.recv_multipart().await.map(|_| ())
      } else {
        s.recv().await.map(|_| ())
      }
    })
    .await;
    let el = t0.elapsed();
    worst = worst.max(el);
    let how = if multi { "recv_multipart" } else { "recv" };
    rep.case(&("recv_churn", name, rcvtimeo, every_ms, tr, multi), true);
    outcomes.push(format!("{}: {:?} after {:?}", how, r.as_ref().map(|x| x.as_ref().map_err(|e| util::err_kind(e))).map_err(|_| "still blocked"), el));
    let late = Duration::from_millis(rcvtimeo) + util::scaled(Duration::from_millis(1200));
    match r {
      Err(_) => rep.violation(format!("rcvtimeo_postponed_by_connection_churn|{}", name), format!("{} {}() with RCVTIMEO={} ms and nothing to receive was still blocked after {:?} while silent peers connected every {} ms over {}", name, how, rcvtimeo, churn_for, every_ms, tr.name()), json!({"rcvtimeo": rcvtimeo, "every_ms": every_ms})),
      Ok(Ok(())) => rep.violation(format!("recv_spurious_success|{}", name), format!("{} {}() returned a message although nothing was sent (connection churn)", name, how), json!({})),
      Ok(Err(e)) => {
        if !(is_timeout(&e) || is_wouldblock(&e)) {
          rep.violation(format!("rcvtimeo_wrong_error_under_churn|{}", name), format!("{} {}() under connection churn returned {:?} after {:?}", name, how, e, el), json!({}));
        } else if el > late {
          rep.violation(format!("rcvtimeo_postponed_by_connection_churn|{}", name), format!("{} {}() with RCVTIMEO={} ms returned only after {:?} while silent peers connected every {} ms over {}", name, how, rcvtimeo, el, every_ms, tr.name()), json!({"rcvtimeo": rcvtimeo, "elapsed_ms": el.as_millis() as u64}));
        } else if el + Duration::from_millis(15) < Duration::from_millis(rcvtimeo) {
          rep.violation(format!("rcvtimeo_early_under_churn|{}", name), format!("{} {}() with RCVTIMEO={} ms gave up after only {:?} under connection churn", name, how, rcvtimeo, el), json!({}));
        }
      }
    }
  }
  stop.store(true, std::sync::atomic::Ordering::SeqCst);
  let peers = tokio::time::timeout(Duration::from_secs(15), churn).await.ok().and_then(|x| x.ok()).unwrap_or(0);
  rep.count("recv_churn_peers_connected", peers as u64);
  rep.max("max:recv_under_churn_ms", worst.as_millis() as u64);
  let _ = outcomes;
  let _ = tokio::time::timeout(Duration::from_secs(12), ctx.term()).await;
}

fn main() {
  let args = Args::parse();
  util::install_panic_watch();
  let mut rep = Report::new("C14", &args.shard_name());
  let mut rng = Rng::new(args.seed.wrapping_mul(256203221).wrapping_add(args.shard as u64));
  let rt = util::runtime(2);
  let mut idx = 0usize;
  match args.only.as_deref() {
    Some("plateau") => {
      for pair in [Pair::PushPull, Pair::DealerRouter, Pair::RouterDealer] {
        for tr in [Transport::Tcp, Transport::Ipc] {
          for hb in ["none", "receiver", "sender", "both"] {
            for &hwm in &[10, 1, 100] {
              idx += 1;
              if !args.mine(idx) {
                continue;
              }
              if !args.thorough() && (hwm != 10 || (tr == Transport::Ipc && pair != Pair::PushPull)) {
                continue;
              }
              util::guarded(&rt, plateau_case(&mut rep, &mut rng, pair, tr, hwm, hb));
            }
          }
        }
      }
    }
    Some("recv") => {
      for t in [SocketType::Router, SocketType::Pull, SocketType::Dealer, SocketType::Sub, SocketType::Rep] {
        for (to, every, tr) in [(300u64, 100u64, Transport::Tcp), (150, 40, Transport::Ipc)] {
          idx += 1;
          if !args.thorough() && tr == Transport::Ipc && !matches!(t, SocketType::Router | SocketType::Pull) {
            continue;
          }
          if args.mine(idx) {
            util::guarded(&rt, recv_churn_case(&mut rep, t, to, every, tr));
          }
        }
      }
      util::cleanup_ipc_dir();
      for t in [SocketType::Pull, SocketType::Sub, SocketType::Dealer, SocketType::Router, SocketType::Rep, SocketType::Req] {
        for to in [0, 20, 100, 500, -1] {
          idx += 1;
          if args.mine(idx) {
            util::guarded(&rt, recv_side_case(&mut rep, t, to));
          }
        }
      }
    }
    _ => {
      let pairs = [Pair::PushPull, Pair::RouterDealer, Pair::DealerRouter, Pair::DealerDealer];
      let hwms: &[i32] = if args.thorough() { &[1, 2, 10, 100, 1000] } else { &[1, 10, 100] };
      let tos: &[i32] = if args.thorough() { &[0, 20, 100, 500, -1] } else { &[0, 100, -1] };
      let observe = Duration::from_secs(if args.thorough() { 35 } else { 3 });
      for pair in pairs {
        for tr in [Transport::Tcp, Transport::Inproc, Transport::Ipc] {
          if tr == Transport::Inproc && pair == Pair::DealerDealer {
            continue;
          }
          if !args.thorough() && tr == Transport::Ipc {
            continue;
          }
          for &hwm in hwms {
            for &to in tos {
              idx += 1;
              if !args.mine(idx) {
                continue;
              }
              if hwm == 1000 && tr != Transport::Inproc {
                continue; // 1000 x 64 KiB per scenario: inproc only
              }
              util::guarded(&rt, send_side_case(&mut rep, &mut rng, pair, tr, hwm, to, observe));
            }
            idx += 1;
            if args.mine(idx) && hwm <= 100 {
              util::guarded(&rt, unblock_case(&mut rep, &mut rng, pair, tr, hwm));
            }
          }
        }
      }
    }
  }
  util::cleanup_ipc_dir();
  rep.sample(json!({"send_side": "fill towards a peer that never reads; judge every refusal (variant, elapsed); bound on accepted; then drain and check conservation", "unblock": "SNDTIMEO=-1 blocked send must complete once the peer reads", "recv_side": "recv/recv_multipart on an empty queue for RCVTIMEO in {0,20,100,500,-1}"}));
  for p in util::take_panics() {
    if p.in_rzmq {
      rep.violation(format!("panic|{}", util::panic_site(&p.location)), format!("panic at {}: {}", p.location, p.message), json!({"frames": p.backtrace_head}));
    } else {
      rep.inconclusive(format!("harness panic at {}: {}", p.location, p.message));
    }
  }
  rep.merge_hooks();
  rep.emit();
}

use rzmq::socket::options as opt;
use rzmq::SocketType;
use std::time::{Duration, Instant};
use vh::util;
async fn mk(ctx: &rzmq::Context, t: SocketType, uring: bool) -> rzmq::Socket {
  let s = ctx.socket(t).unwrap();
  util::set_i32(&s, opt::RCVTIMEO, 1500).await;
  util::set_i32(&s, opt::SNDTIMEO, 4000).await;
  if uring { s.set_option(opt::IO_URING_SESSION_ENABLED, true).await.unwrap(); }
  s
}
fn main() {
  #[cfg(feature = "uring")]
  rzmq::uring::initialize_uring_backend(rzmq::uring::UringConfig::default()).unwrap();
  let rt = util::runtime(4);
  rt.block_on(async {
    for uring in [false, true] {
      // U1 garbage
      let ctx = util::new_ctx();
      let pull = mk(&ctx, SocketType::Pull, uring).await;
      let ep = util::bind_fresh(&pull, util::Transport::Tcp).await.unwrap();
      let mut raw = vh::rawpeer::RawStream::connect(&ep).await.unwrap();
      let _ = raw.write_all(&vec![0x13u8; 80]).await;
      let t = Instant::now();
      let c = raw.wait_closed(Duration::from_secs(12)).await;
      println!("uring={} U1 garbage: closed after {:?} (waited {:?})", uring, c, t.elapsed());
      // U2 churn
      let fd0 = util::open_fds();
      let mut delivered = 0;
      let mut slow = 0;
      for i in 0..30 {
        let p = mk(&ctx, SocketType::Push, uring).await;
        p.connect(&ep).await.unwrap();
        let body = format!("churn-{}", i).into_bytes();
        let t = Instant::now();
        let s = tokio::time::timeout(Duration::from_secs(2), p.send(util::msg(body.clone(), false))).await;
        let r = pull.recv().await;
        if let Ok(m) = &r { if m.data() == Some(&body[..]) { delivered += 1; } }
        if t.elapsed() > Duration::from_millis(500) { slow += 1; }
        if i < 3 { println!("   cycle {}: send {:?} recv {:?} in {:?}", i, s.map(|x| x.map_err(|e| e.to_string())), r.map(|m| m.size()).map_err(|e| e.to_string()), t.elapsed()); }
        let _ = p.close().await;
      }
      tokio::time::sleep(Duration::from_millis(500)).await;
      println!("uring={} U2 churn: delivered {}/30 (slow {}), fds {} -> {}", uring, delivered, slow, fd0, util::open_fds());
      let _ = ctx.term().await;
      tokio::time::sleep(Duration::from_millis(500)).await;
      println!("uring={} after term: fds {}", uring, util::open_fds());
    }
  });
}

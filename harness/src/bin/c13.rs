//! C13 — PUSH/DEALER give each message to exactly one ready peer, fairly.
//! (model) LoadBalancer / OutgoingMessageOrchestrator through the facade with scripted
//! connections under tokio's paused clock (this layer does no real I/O); (e2e) real PUSH with
//! several PULLs of which one handshakes and never reads.

use rzmq::socket::options as opt;
use rzmq::verif::{self, Orchestrator, ScriptedConn};
use rzmq::{FrameBatch, SocketType};
use serde_json::json;
use std::collections::{BTreeMap, HashMap};
use std::sync::atomic::{AtomicBool, AtomicU64, Ordering};
use std::sync::Arc;
use std::time::Duration;
use vh::args::Args;
use vh::gen::Rng;
use vh::oracles::{self, SendStatus, SentMsg};
use vh::rawpeer::RawStream;
use vh::refzmtp;
use vh::report::Report;
use vh::util::{self, Transport};

struct Peer {
  name: String,
  full: AtomicBool,
  closed: AtomicBool,
  accepted: parking_lot::Mutex<Vec<u64>>,
  room: tokio::sync::Notify,
  send_timeout: Option<Duration>,
  global_log: Arc<parking_lot::Mutex<Vec<(String, u64)>>>,
}

fn id_of(m: &FrameBatch) -> u64 {
  let d = m[0].data().unwrap_or(&[]);
  let mut b = [0u8; 8];
  b.copy_from_slice(&d[..8]);
  u64::from_be_bytes(b)
}

fn batch(id: u64) -> FrameBatch {
  let mut fb = FrameBatch::new();
  fb.push(util::msg(id.to_be_bytes().to_vec(), false));
  fb
}

impl ScriptedConn for Peer {
  fn try_send(&self, msgs: FrameBatch) -> Result<(), FrameBatch> {
    if self.full.load(Ordering::SeqCst) {
      return Err(msgs);
    }
    let id = id_of(&msgs);
    self.accepted.lock().push(id);
    self.global_log.lock().push((self.name.clone(), id));
    Ok(())
  }
  fn send<'a>(&'a self, msgs: FrameBatch) -> std::pin::Pin<Box<dyn std::future::Future<Output = Result<(), Option<FrameBatch>>> + Send + 'a>> {
    Box::pin(async move {
      let deadline = self.send_timeout.map(|d| tokio::time::Instant::now() + d);
      loop {
        let n = self.room.notified();
        tokio::pin!(n);
        n.as_mut().enable();
        if self.closed.load(Ordering::SeqCst) {
          return Err(None);
        }
        if !self.full.load(Ordering::SeqCst) {
          let id = id_of(&msgs);
          self.accepted.lock().push(id);
          self.global_log.lock().push((self.name.clone(), id));
          return Ok(());
        }
        match deadline {
          None => n.await,
          Some(d) => {
            if tokio::time::timeout_at(d, n).await.is_err() {
              return Err(Some(msgs));
            }
          }
        }
      }
    })
  }
}

fn mk_peer(name: &str, log: &Arc<parking_lot::Mutex<Vec<(String, u64)>>>, timeout: Option<Duration>) -> Arc<Peer> {
  Arc::new(Peer { name: name.to_string(), full: AtomicBool::new(false), closed: AtomicBool::new(false), accepted: Default::default(), room: tokio::sync::Notify::new(), send_timeout: timeout, global_log: log.clone() })
}

fn paused_rt() -> tokio::runtime::Runtime {
  tokio::runtime::Builder::new_current_thread().enable_all().start_paused(true).build().unwrap()
}

/// (rotation) one sender, every peer always ready, peers added and removed between sends: round-robin means that
/// between two consecutive deliveries to the same peer every other peer that was a member the whole time in between
/// receives exactly one message - whatever position a new peer joins at. A removal must not make the rotation skip
/// an idle peer or serve one twice in a row.
fn rotation_case(rep: &mut Report, rng: &mut Rng) {
  let rt = paused_rt();
  let log: Arc<parking_lot::Mutex<Vec<(String, u64)>>> = Arc::new(parking_lot::Mutex::new(vec![]));
  let orch = Arc::new(Orchestrator::new());
  let use_balancer_sync = rng.chance(1, 2);
  let mut members: Vec<String> = vec![];
  // membership intervals: name -> (joined at log length, left at log length)
  let mut joined: HashMap<String, usize> = HashMap::new();
  let mut left: HashMap<String, usize> = HashMap::new();
  let n0 = rng.range(2, 5);
  let mut next_peer = 0;
  for _ in 0..n0 {
    let name = format!("r{}", next_peer);
    next_peer += 1;
    orch.add_connection(&name, mk_peer(&name, &log, None));
    joined.insert(name.clone(), 0);
    members.push(name);
  }
  let nops = rng.range(10, 60);
  let mut ops: Vec<String> = vec![];
  let mut sent = 0u64;
  rt.block_on(async {
    for _ in 0..nops {
      match rng.below(10) {
        0 => {
          let name = format!("r{}", next_peer);
          next_peer += 1;
          orch.add_connection(&name, mk_peer(&name, &log, None));
          joined.insert(name.clone(), log.lock().len());
          members.push(name.clone());
          ops.push(format!("add {}", name));
        }
        1 | 2 => {
          if members.len() > 1 {
            let k = rng.below(members.len() as u64) as usize;
            let name = members.remove(k);
            orch.remove_connection(&name);
            left.insert(name.clone(), log.lock().len());
            ops.push(format!("remove {}", name));
          }
        }
        _ => {
          let ok = if use_balancer_sync && sent % 2 == 1 { orch.try_route_sync(batch(sent)).is_ok() } else { orch.route_message(batch(sent), true).await.is_ok() };
          if ok {
            sent += 1;
          }
          ops.push("send".into());
        }
      }
    }
  });
  let log = log.lock().clone();
  rep.case(&("rotation", n0, nops, ops.len(), sent), log.len() >= 4);
  rep.count("rotation_deliveries", log.len() as u64);
  // oracle
  let present_throughout = |q: &str, from: usize, to: usize| -> bool { joined.get(q).map_or(false, |j| *j <= from) && left.get(q).map_or(true, |l| *l >= to) };
  let mut last_seen: HashMap<String, usize> = HashMap::new();
  for (i, (p, _)) in log.iter().enumerate() {
    if let Some(&prev) = last_seen.get(p) {
      // window (prev, i): every peer present during the whole window [prev, i] got exactly one delivery
      for q in joined.keys() {
        if q == p || !present_throughout(q, prev, i + 1) {
          continue;
        }
        let c = log[prev + 1..i].iter().filter(|(x, _)| x == q).count();
        if c != 1 {
          let seq: Vec<String> = log[prev..=i].iter().map(|(x, _)| x.clone()).collect();
          rep.violation(
            format!("rotation_broken|{}", if c == 0 { "idle_peer_skipped" } else { "peer_served_more_than_once_per_round" }),
            format!("round-robin broken: between two consecutive deliveries to {} the peer {} - a member the whole time, always ready - received {} messages (deliveries {:?}; last operations {:?})", p, q, c, seq, ops.iter().rev().take(10).rev().collect::<Vec<_>>()),
            json!({"deliveries": log.iter().map(|(x, _)| x.clone()).collect::<Vec<_>>(), "ops": ops}),
          );
          return;
        }
      }
    }
    last_seen.insert(p.clone(), i);
  }
}

/// Several sender tasks wait for a FIRST peer (no connection yet); one peer is added: every waiting send must go
/// through, in virtual time (paused clock: if only some are woken the rest stay parked until the scripted deadline).
fn first_peer_case(rep: &mut Report, rng: &mut Rng) {
  let senders = rng.range(2, 6);
  let add_after_ms = *rng.pick(&[0u64, 1, 3, 10]);
  let staggered = rng.chance(1, 2);
  let rt = paused_rt();
  let log = Arc::new(parking_lot::Mutex::new(vec![]));
  let orch = Arc::new(Orchestrator::new());
  let peer = mk_peer("p0", &log, None);
  let (done, total_ms) = rt.block_on(async {
    let t0 = tokio::time::Instant::now();
    let mut hs = vec![];
    for sidx in 0..senders {
      let orch = orch.clone();
      let stagger = if staggered { sidx as u64 } else { 0 };
      hs.push(tokio::spawn(async move {
        tokio::time::sleep(Duration::from_micros(stagger * 100)).await;
        orch.route_message(batch(1000 + sidx as u64), true).await.is_ok()
      }));
    }
    tokio::time::sleep(Duration::from_millis(add_after_ms)).await;
    for _ in 0..4 {
      tokio::task::yield_now().await;
    }
    orch.add_connection("p0", peer.clone());
    let mut done = 0usize;
    for h in hs {
      // virtual deadline: 60 s after the peer was added
      if let Ok(Ok(true)) = tokio::time::timeout(Duration::from_secs(60), h).await {
        done += 1;
      }
    }
    (done, t0.elapsed().as_millis() as u64)
  });
  rep.case(&("first_peer", senders, add_after_ms, staggered), true);
  let accepted = peer.accepted.lock().len();
  if done != senders || accepted != senders {
    rep.violation(
      "senders_waiting_for_first_peer_not_all_released".to_string(),
      format!("{} sender tasks were waiting for a first peer; after it was added only {} sends completed and {} messages were accepted within 60 s of virtual time (peer added {} ms after the sends started)", senders, done, accepted, add_after_ms),
      json!({"senders": senders, "completed": done, "accepted": accepted, "virtual_ms": total_ms}),
    );
  }
}

/// All peers always ready, constant peer set, 1..m sender tasks: round-robin fairness and
/// exactly-once.
fn fairness_case(rep: &mut Report, rng: &mut Rng) {
  let n = rng.range(1, 5);
  let senders = rng.range(1, 4);
  let per = rng.range(5, 60) as u64;
  let sync_path = rng.chance(1, 2);
  let rt = paused_rt();
  let log = Arc::new(parking_lot::Mutex::new(vec![]));
  let orch = Arc::new(Orchestrator::new());
  let peers: Vec<Arc<Peer>> = (0..n).map(|i| mk_peer(&format!("p{}", i), &log, None)).collect();
  for p in &peers {
    orch.add_connection(&p.name, p.clone());
  }
  let accepted_total = Arc::new(AtomicU64::new(0));
  rt.block_on(async {
    let mut hs = vec![];
    for s in 0..senders {
      let orch = orch.clone();
      let acc = accepted_total.clone();
      hs.push(tokio::spawn(async move {
        for k in 0..per {
          let id = (s as u64) << 32 | k;
          let r = if sync_path { orch.try_route_sync(batch(id)).map_err(|e| e.1) } else { orch.route_message(batch(id), true).await.map_err(|e| e.1) };
          if r.is_ok() {
            acc.fetch_add(1, Ordering::SeqCst);
          }
          if k % 3 == 0 {
            tokio::task::yield_now().await;
          }
        }
      }));
    }
    for h in hs {
      let _ = h.await;
    }
  });
  let total = senders as u64 * per;
  let counts: Vec<usize> = peers.iter().map(|p| p.accepted.lock().len()).collect();
  let sum: usize = counts.iter().sum();
  rep.case(&("fair", n, senders, per, sync_path), true);
  let wit = json!({"peers": n, "senders": senders, "per_sender": per, "sync_path": sync_path, "per_peer_counts": counts});
  if accepted_total.load(Ordering::SeqCst) != total || sum as u64 != total {
    rep.violation("not_exactly_one_peer".to_string(), format!("{} messages accepted, {} deliveries recorded over {} ready peers (expected {})", accepted_total.load(Ordering::SeqCst), sum, n, total), wit.clone());
  }
  let mut seen = HashMap::new();
  for (p, id) in log.lock().iter() {
    if let Some(prev) = seen.insert(*id, p.clone()) {
      rep.violation("delivered_twice".to_string(), format!("message {:x} delivered to {} and {}", id, prev, p), wit.clone());
      break;
    }
  }
  let (mn, mx) = (*counts.iter().min().unwrap(), *counts.iter().max().unwrap());
  let allowed = 1 + (senders - 1);
  if mx - mn > allowed {
    rep.violation("round_robin_unfair".to_string(), format!("all {} peers always ready, constant set, {} sender task(s): per-peer counts {:?} differ by {} (> {})", n, senders, counts, mx - mn, allowed), wit);
  }
}

/// Readiness patterns: some peers full for ever (with a SNDTIMEO-like blocking timeout), others
/// become free shortly after the sweep found everybody full. The send must complete when the
/// first peer frees, not when the blocked-on peer times out.
fn readiness_case(rep: &mut Report, rng: &mut Rng) {
  let n = rng.range(2, 5);
  let timeout_ms = 5_000u64;
  let rt = paused_rt();
  let log = Arc::new(parking_lot::Mutex::new(vec![]));
  let orch = Arc::new(Orchestrator::new());
  let peers: Vec<Arc<Peer>> = (0..n).map(|i| mk_peer(&format!("p{}", i), &log, Some(Duration::from_millis(timeout_ms)))).collect();
  for p in &peers {
    orch.add_connection(&p.name, p.clone());
  }
  // advance the cursor randomly with a few ready sends first
  let warm = rng.range(0, n);
  // who frees when: at least one peer frees early, at least one never
  let mut free_at: Vec<Option<u64>> = (0..n).map(|_| if rng.chance(1, 2) { Some(rng.range(1, 20) as u64) } else { None }).collect();
  let early = rng.below(n as u64) as usize;
  free_at[early] = Some(rng.range(1, 5) as u64);
  let never = (early + 1 + rng.below((n - 1) as u64) as usize) % n;
  free_at[never] = None;
  let first_free = free_at.iter().flatten().min().copied().unwrap();
  let res = rt.block_on(async {
    for k in 0..warm {
      let _ = orch.route_message(batch(0xAAAA_0000 + k as u64), true).await;
    }
    for p in &peers {
      p.full.store(true, Ordering::SeqCst);
    }
    for (i, p) in peers.iter().enumerate() {
      if let Some(ms) = free_at[i] {
        let p = p.clone();
        tokio::spawn(async move {
          tokio::time::sleep(Duration::from_millis(ms)).await;
          p.full.store(false, Ordering::SeqCst);
          p.room.notify_waiters();
        });
      }
    }
    let t0 = tokio::time::Instant::now();
    let r = orch.route_message(batch(0xBEEF), true).await;
    (r.map_err(|e| format!("{:?}", e.1)), t0.elapsed())
  });
  rep.case(&("readiness", n, warm, &free_at), true);
  let wit = json!({"peers": n, "cursor_warmup_sends": warm, "free_at_ms": free_at, "blocking_timeout_ms": timeout_ms, "result": format!("{:?}", res.0), "completed_after_virtual_ms": res.1.as_millis() as u64});
  let delivered: usize = peers.iter().map(|p| p.accepted.lock().iter().filter(|i| **i == 0xBEEF).count()).sum();
  match &res.0 {
    Ok(()) => {
      if delivered != 1 {
        rep.violation("not_exactly_one_peer".to_string(), format!("send succeeded but message delivered {} times", delivered), wit.clone());
      }
      if res.1 > Duration::from_millis(first_free + 50) {
        rep.violation("waited_on_full_peer_while_another_had_room".to_string(), format!("a peer had room after {} ms but the send completed only after {} ms (virtual time)", first_free, res.1.as_millis()), wit);
      }
    }
    Err(e) => {
      if delivered != 0 {
        rep.violation("failed_send_was_delivered".to_string(), format!("send failed ({}) but the message was delivered", e), wit.clone());
      }
      rep.violation("waited_on_full_peer_while_another_had_room".to_string(), format!("a peer had room after {} ms but the send failed with {} after {} ms (it waited on a peer that stayed full)", first_free, e, res.1.as_millis()), wit);
    }
  }
}

/// Add/remove churn interleaved with sends: exactly-once, removed peers get nothing afterwards,
/// a continuously-ready member is not starved.
fn churn_case(rep: &mut Report, rng: &mut Rng) {
  let rt = paused_rt();
  let log = Arc::new(parking_lot::Mutex::new(vec![]));
  let orch = Arc::new(Orchestrator::new());
  let stable = mk_peer("stable", &log, None);
  orch.add_connection("stable", stable.clone());
  let mut members: BTreeMap<String, Arc<Peer>> = BTreeMap::new();
  let mut removed_at: HashMap<String, usize> = HashMap::new();
  let nops = rng.range(20, 120);
  let mut ops: Vec<String> = vec![];
  let mut sent = 0u64;
  let mut next_peer = 0;
  let mut stable_gap = 0usize;
  let mut max_gap = 0usize;
  let mut membership_changes_in_gap = 0usize;
  rt.block_on(async {
    for _ in 0..nops {
      match rng.below(10) {
        0 | 1 => {
          let name = format!("m{}", next_peer);
          next_peer += 1;
          let p = mk_peer(&name, &log, None);
          orch.add_connection(&name, p.clone());
          members.insert(name.clone(), p);
          ops.push(format!("add {}", name));
          membership_changes_in_gap += 1;
        }
        2 => {
          if let Some(name) = members.keys().next().cloned() {
            orch.remove_connection(&name);
            members.remove(&name);
            removed_at.insert(name.clone(), log.lock().len());
            ops.push(format!("remove {}", name));
            membership_changes_in_gap += 1;
          }
        }
        3 => {
          if let Some(p) = members.values().nth(rng.below(members.len().max(1) as u64) as usize) {
            let f = !p.full.load(Ordering::SeqCst);
            p.full.store(f, Ordering::SeqCst);
            if !f {
              p.room.notify_waiters();
            }
            ops.push(format!("{} full={}", p.name, f));
          }
        }
        _ => {
          let before = stable.accepted.lock().len();
          let r = orch.route_message(batch(sent), true).await;
          if r.is_ok() {
            sent += 1;
          }
          let after = stable.accepted.lock().len();
          if after > before {
            max_gap = max_gap.max(stable_gap);
            stable_gap = 0;
            membership_changes_in_gap = 0;
          } else {
            stable_gap += 1;
            let bound = 2 * (members.len() + 1) + membership_changes_in_gap;
            if stable_gap > bound {
              max_gap = max_gap.max(stable_gap);
            }
          }
          ops.push("send".to_string());
        }
      }
    }
  });
  rep.case(&ops, true);
  let l = log.lock().clone();
  let wit = json!({"ops_tail": ops.iter().rev().take(30).rev().collect::<Vec<_>>(), "sent": sent, "deliveries": l.len()});
  let mut seen = HashMap::new();
  for (p, id) in &l {
    if let Some(prev) = seen.insert(*id, p.clone()) {
      rep.violation("delivered_twice".to_string(), format!("message {} delivered to {} and {} around peer add/remove", id, prev, p), wit.clone());
      return;
    }
  }
  if l.len() as u64 != sent {
    rep.violation("not_exactly_one_peer".to_string(), format!("{} sends accepted, {} deliveries", sent, l.len()), wit.clone());
  }
  for (name, at) in &removed_at {
    if l[*at..].iter().any(|(p, _)| p == name) {
      rep.violation("removed_peer_still_served".to_string(), format!("peer {} received a message after it was removed", name), wit.clone());
    }
  }
  let bound = 2 * (members.len() + next_peer + 1) + 4;
  if max_gap > bound {
    rep.violation("ready_peer_starved".to_string(), format!("the always-ready peer got nothing during {} consecutive accepted sends (bound {})", max_gap, bound), wit);
  }
}

// ---- end to end --------------------------------------------------------------------------------

async fn e2e_case(rep: &mut Report, rng: &mut Rng, npull: usize, stalled_raw: bool) {
  let ctx = util::new_ctx();
  let push = ctx.socket(SocketType::Push).unwrap();
  util::set_i32(&push, opt::SNDHWM, 8).await;
  util::set_i32(&push, opt::SNDTIMEO, 3000).await;
  let ep = util::bind_fresh(&push, Transport::Tcp).await.unwrap();
  let mut pulls = vec![];
  for _ in 0..npull {
    let p = ctx.socket(SocketType::Pull).unwrap();
    util::set_i32(&p, opt::RCVTIMEO, 1500).await;
    util::set_i32(&p, opt::RCVHWM, 8).await;
    p.connect(&ep).await.unwrap();
    pulls.push(p);
  }
  let mut raw = None;
  if stalled_raw {
    if let Ok(mut r) = RawStream::connect(&ep).await {
      let _ = r.write_all(&refzmtp::null_client_handshake("PULL", None)).await;
      let _ = r.read_for(Duration::from_millis(300), 64).await;
      raw = Some(r);
    }
  }
  tokio::time::sleep(Duration::from_millis(300)).await;
  let run = (rng.next() & 0xFFFF) as u32;
  let total = 400u32;
  // readers
  let mut readers = vec![];
  let sender_done = std::sync::Arc::new(std::sync::atomic::AtomicBool::new(false));
  for p in pulls.iter().cloned() {
    let done = sender_done.clone();
    readers.push(tokio::spawn(async move {
      let mut got: Vec<Vec<Vec<u8>>> = vec![];
      let t_r = std::time::Instant::now();
      let mut idle = 0;
      // silence only counts once the sender has finished (a starved sender is not a lost message)
      while idle < 2 && t_r.elapsed() < Duration::from_secs(240) {
        match p.recv_multipart().await {
          Ok(m) => {
            idle = 0;
            got.push(m.into_iter().map(|f| f.data().unwrap_or(&[]).to_vec()).collect());
          }
          Err(_) => {
            if done.load(std::sync::atomic::Ordering::SeqCst) {
              idle += 1;
            }
          }
        }
      }
      got
    }));
  }
  let mut sent: Vec<SentMsg> = vec![];
  let mut slowest = Duration::ZERO;
  for seq in 0..total {
    let lens = vec![16 * 1024];
    let frames = oracles::build_message(run, 1, seq, u32::MAX, &lens);
    let t0 = std::time::Instant::now();
    let r = push.send(util::msg(frames[0].clone(), false)).await;
    slowest = slowest.max(t0.elapsed());
    sent.push(SentMsg { sender: 1, seq, dest: u32::MAX, frame_lens: lens, status: if r.is_ok() { SendStatus::Accepted } else { SendStatus::Refused } });
  }
  sender_done.store(true, std::sync::atomic::Ordering::SeqCst);
  let mut per_peer = vec![];
  let mut all: Vec<Vec<Vec<u8>>> = vec![];
  for r in readers {
    let got = r.await.unwrap_or_default();
    per_peer.push(got.len());
    // per-connection order and integrity are judged per receiver
    let pf = oracles::check_receiver(run, &sent, &got, None, false);
    if !pf.ok() {
      rep.violation(format!("e2e_receiver_{}", pf.kinds().join("+")), format!("one PULL of {} saw {}", npull, pf.kinds().join("+")), json!({"findings": pf.to_json()}));
    }
    all.extend(got);
  }
  rep.case(&("e2e", npull, stalled_raw), true);
  rep.max("max:slowest_push_send_ms", slowest.as_millis() as u64);
  // exactly-once across the reading peers (the stalled raw peer may hold some)
  let f = oracles::check_receiver(run, &sent, &all, None, !stalled_raw);
  let mut kinds = f.kinds();
  // across different receivers there is no order to preserve
  kinds.retain(|k| *k != "reordered");
  if stalled_raw {
    kinds.retain(|k| *k != "lost");
  }
  if !kinds.is_empty() {
    rep.violation(format!("e2e_{}", kinds.join("+")), format!("PUSH -> {} PULLs (stalled raw peer: {}): {}", npull, stalled_raw, kinds.join("+")), json!({"findings": f.to_json(), "per_peer": per_peer}));
  }
  if slowest > util::scaled(Duration::from_millis(1500)) {
    rep.violation("e2e_send_blocked_while_peers_had_room".to_string(), format!("a PUSH send took {:?} although {} reading PULLs were connected (stalled raw peer: {})", slowest, npull, stalled_raw), json!({"per_peer": per_peer}));
  }
  if !stalled_raw && npull > 1 {
    let (mn, mx) = (*per_peer.iter().min().unwrap(), *per_peer.iter().max().unwrap());
    if mn == 0 {
      rep.violation("e2e_peer_starved".to_string(), format!("a reading PULL received nothing: {:?}", per_peer), json!({"per_peer": per_peer}));
    }
    rep.max("max:e2e_count_spread", (mx - mn) as u64);
  }
  drop(raw);
  let _ = tokio::time::timeout(Duration::from_secs(12), ctx.term()).await;
}

/// Live sockets: k tasks blocked in PUSH.send() before any peer exists; one PULL connects; all k messages must arrive
/// exactly once and every send() must return Ok.
async fn pending_first_peer_e2e(rep: &mut Report, tr: Transport, k: usize) {
  let ctx = util::new_ctx();
  let push = ctx.socket(SocketType::Push).unwrap();
  util::set_i32(&push, opt::SNDTIMEO, 8000).await;
  let ep = match util::bind_fresh(&push, tr).await {
    Ok(e) => e,
    Err(e) => {
      rep.inconclusive(format!("bind: {e}"));
      return;
    }
  };
  let mut hs = vec![];
  for i in 0..k {
    let p = push.clone();
    hs.push(tokio::spawn(async move { p.send(util::msg(format!("m{}", i).into_bytes(), false)).await.is_ok() }));
  }
  tokio::time::sleep(Duration::from_millis(200)).await;
  let early = hs.iter().filter(|h| h.is_finished()).count();
  let pull = ctx.socket(SocketType::Pull).unwrap();
  util::set_i32(&pull, opt::RCVTIMEO, 3000).await;
  pull.connect(&ep).await.unwrap();
  let mut got: Vec<Vec<u8>> = vec![];
  for _ in 0..k {
    match pull.recv().await {
      Ok(m) => got.push(m.data().unwrap_or(&[]).to_vec()),
      Err(_) => break,
    }
  }
  let mut ok_sends = 0;
  for h in hs {
    if let Ok(Ok(true)) = tokio::time::timeout(Duration::from_secs(9), h).await {
      ok_sends += 1;
    }
  }
  got.sort();
  got.dedup();
  rep.case(&("pending_first_peer_e2e", tr, k, early), true);
  if got.len() != k || ok_sends != k {
    rep.violation(
      "senders_waiting_for_first_peer_not_all_released|e2e".to_string(),
      format!("{} tasks were blocked in PUSH.send() with no peer; after a PULL connected over {} only {} distinct messages arrived within 3 s each and {} send() calls returned Ok ({} had returned before any peer existed)", k, tr.name(), got.len(), ok_sends, early),
      json!({"k": k, "received": got.len(), "ok_sends": ok_sends}),
    );
  }
  let _ = tokio::time::timeout(Duration::from_secs(12), ctx.term()).await;
}

fn main() {
  let args = Args::parse();
  util::install_panic_watch();
  let mut rep = Report::new("C13", &args.shard_name());
  let mut rng = Rng::new(args.seed.wrapping_mul(141650939).wrapping_add(args.shard as u64));
  match args.only.as_deref() {
    Some("e2e") => {
      let rt = util::runtime(2);
      for (i, (n, st)) in [(1usize, false), (3, false), (2, true), (4, true)].iter().enumerate() {
        if args.mine(i) {
          rt.block_on(e2e_case(&mut rep, &mut rng, *n, *st));
        }
      }
      for (i, (tr, k)) in [(Transport::Tcp, 4usize), (Transport::Inproc, 4), (Transport::Ipc, 2), (Transport::Tcp, 8)].iter().enumerate() {
        if args.mine(i) {
          rt.block_on(pending_first_peer_e2e(&mut rep, *tr, *k));
        }
      }
    }
    _ => {
      let n = if args.thorough() { 4000 } else { 400 };
      for i in 0..n {
        fairness_case(&mut rep, &mut rng);
        readiness_case(&mut rep, &mut rng);
        churn_case(&mut rep, &mut rng);
        rotation_case(&mut rep, &mut rng);
        if i % 4 == 0 {
          first_peer_case(&mut rep, &mut rng);
        }
        if i == 0 {
          rep.sample(json!({"families": ["fairness (all ready, 1..5 peers, 1..4 sender tasks, sync/async path)", "readiness (all full at sweep time; one frees after 1..5 ms, one never; blocking timeout 5000 ms; paused clock)", "churn (add/remove/toggle-full/send histories with one always-ready member)"]}));
        }
      }
    }
  }
  let _ = verif::counters();
  for p in util::take_panics() {
    if p.in_rzmq {
      rep.violation(format!("panic|{}", util::panic_site(&p.location)), format!("panic at {}: {}", p.location, p.message), json!({"frames": p.backtrace_head}));
    } else {
      rep.inconclusive(format!("harness panic at {}: {}", p.location, p.message));
    }
  }
  rep.merge_hooks();
  rep.emit();
}

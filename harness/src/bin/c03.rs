//! C03 — ZMTP framing round-trips and is independent of how the stream is cut.
//! Differential monitor: every rzmq encoder vs. the independent reference encoder (refzmtp),
//! every rzmq decoder vs. the frame sequence that was encoded, over all/ sampled segmentations.

use bytes::{Bytes, BytesMut};
use rzmq::protocol::zmtp::manual_parser::ZmtpManualParser;
use rzmq::protocol::zmtp::ZmtpCodec;
use rzmq::verif::{FrameEncoder, Framer};
use rzmq::{FrameBatch, Msg, MsgFlags};
use serde_json::json;
use tokio_util::codec::{Decoder, Encoder};
use vh::args::Args;
use vh::gen::{split_at_cuts, Rng};
use vh::refzmtp::{self, Frame};
use vh::report::{hex, Report};

fn to_msg(f: &Frame) -> Msg {
  let mut m = Msg::from_vec(f.body.clone());
  let mut fl = MsgFlags::empty();
  if f.more {
    fl |= MsgFlags::MORE;
  }
  if f.command {
    fl |= MsgFlags::COMMAND;
  }
  m.set_flags(fl);
  m
}

fn from_msg(m: &Msg) -> Frame {
  Frame { more: m.is_more(), command: m.is_command(), body: m.data().unwrap_or(&[]).to_vec() }
}

fn batches(msgs: &[Vec<Frame>]) -> Vec<FrameBatch> {
  msgs
    .iter()
    .map(|m| {
      let mut fb = FrameBatch::new();
      for f in m {
        fb.push(to_msg(f));
      }
      fb
    })
    .collect()
}

fn shape(msgs: &[Vec<Frame>]) -> String {
  msgs
    .iter()
    .map(|m| m.iter().map(|f| format!("{}{}{}", f.body.len(), if f.more { "M" } else { "" }, if f.command { "C" } else { "" })).collect::<Vec<_>>().join(","))
    .collect::<Vec<_>>()
    .join(" | ")
}

fn flag_kind(msgs: &[Vec<Frame>]) -> &'static str {
  let any_cmd = msgs.iter().flatten().any(|f| f.command);
  let any_cmd_more = msgs.iter().flatten().any(|f| f.command && f.more);
  if any_cmd_more {
    "cmd+more"
  } else if any_cmd {
    "cmd"
  } else {
    "data"
  }
}

/// Run all encoders; report any that differs from the reference bytes. Returns reference bytes.
fn check_encoders(rep: &mut Report, msgs: &[Vec<Frame>]) -> Vec<u8> {
  let flat: Vec<Frame> = msgs.iter().flatten().cloned().collect();
  let want = refzmtp::encode_frames(&flat);
  let fk = flag_kind(msgs);
  let mut bad = |rep: &mut Report, enc: &str, got: &[u8]| {
    if got != want.as_slice() {
      let pos = got.iter().zip(want.iter()).position(|(a, b)| a != b).unwrap_or(got.len().min(want.len()));
      rep.violation(
        format!("encoder_mismatch|{}|flags={}", enc, fk),
        format!("encoder {} produced bytes that differ from the ZMTP reference encoding at offset {} for frames [{}]", enc, pos, shape(msgs)),
        json!({"frames": shape(msgs), "encoder": enc, "first_diff": pos,
               "got": hex(&got[pos.saturating_sub(2)..(pos + 12).min(got.len())]),
               "want": hex(&want[pos.saturating_sub(2)..(pos + 12).min(want.len())])}),
      );
    }
    rep.cases(1);
  };

  // E1 codec::encode
  {
    let mut c = ZmtpCodec::new();
    let mut b = BytesMut::new();
    for f in &flat {
      c.encode(to_msg(f), &mut b).expect("codec encode");
    }
    bad(rep, "codec.encode", &b);
  }
  // E2 encode_header_only + payload
  {
    let c = ZmtpCodec::new();
    let mut b = BytesMut::new();
    for f in &flat {
      let m = to_msg(f);
      c.encode_header_only(&m, &mut b).expect("hdr");
      b.extend_from_slice(m.data().unwrap_or(&[]));
    }
    bad(rep, "codec.encode_header_only", &b);
  }
  let fbs = batches(msgs);
  // E3 frame_contiguous
  {
    let mut e = FrameEncoder::new(16, 16);
    let b = e.frame_contiguous(&fbs).expect("contig");
    bad(rep, "framer.frame_contiguous", &b);
    // reuse of the same encoder must not leak state
    let b2 = e.frame_contiguous(&fbs).expect("contig2");
    bad(rep, "framer.frame_contiguous(reuse)", &b2);
  }
  // E4 frame_vectored
  {
    let mut e = FrameEncoder::new(16, 16);
    let v = e.frame_vectored(&fbs).expect("vectored");
    let cat: Vec<u8> = v.iter().flat_map(|b| b.iter().copied()).collect();
    bad(rep, "framer.frame_vectored", &cat);
    let v2 = e.frame_vectored(&fbs).expect("vectored2");
    let cat2: Vec<u8> = v2.iter().flat_map(|b| b.iter().copied()).collect();
    bad(rep, "framer.frame_vectored(reuse)", &cat2);
  }
  // E5 NullFramer paths
  {
    let mut fr = Framer::null(-1, 4, 64);
    let b = fr.write_msg_batch(&fbs).expect("batch");
    bad(rep, "nullframer.write_msg_batch", &b);
    let mut cat = Vec::new();
    for fb in &fbs {
      cat.extend_from_slice(&fr.write_msg_multipart(fb.clone()).expect("multipart"));
    }
    bad(rep, "nullframer.write_msg_multipart", &cat);
    let v = fr.frame_vectored(&fbs).expect("nf vectored");
    let catv: Vec<u8> = v.iter().flat_map(|b| b.iter().copied()).collect();
    bad(rep, "nullframer.frame_vectored", &catv);
    let mut cats = Vec::new();
    for f in &flat {
      let (h, p) = fr.write_msg_split(to_msg(f)).expect("split");
      cats.extend_from_slice(&h);
      if let Some(p) = p {
        cats.extend_from_slice(&p);
      }
    }
    bad(rep, "nullframer.write_msg_split", &cats);
  }
  want
}

#[derive(Clone, Copy, PartialEq, Eq, Debug)]
enum Dk {
  ManualBuffer,
  NullFramerRead,
  NullFramerReadBytes,
  TokioCodec,
  TokioCodecPrimed,
}

/// Feed `segs` to a stateful decoder, collect frames.
fn decode_segmented(dk: Dk, segs: &[Vec<u8>]) -> Result<Vec<Frame>, String> {
  let mut out = Vec::new();
  match dk {
    Dk::ManualBuffer => {
      let mut p = ZmtpManualParser::new(-1);
      let mut buf = BytesMut::new();
      for s in segs {
        buf.extend_from_slice(s);
        loop {
          match p.decode_from_buffer(&mut buf) {
            Ok(Some(m)) => out.push(from_msg(&m)),
            Ok(None) => break,
            Err(e) => return Err(format!("{e}")),
          }
        }
      }
      if !buf.is_empty() {
        return Err(format!("{} undecoded bytes left", buf.len()));
      }
    }
    Dk::NullFramerRead => {
      let mut fr = Framer::null(-1, 4, 64);
      let mut buf = BytesMut::new();
      for s in segs {
        buf.extend_from_slice(s);
        loop {
          match fr.try_read_msg(&mut buf) {
            Ok(Some(m)) => out.push(from_msg(&m)),
            Ok(None) => break,
            Err(e) => return Err(format!("{e}")),
          }
        }
      }
      if !buf.is_empty() {
        return Err(format!("{} undecoded bytes left", buf.len()));
      }
    }
    Dk::NullFramerReadBytes => {
      let mut fr = Framer::null(-1, 4, 64);
      let mut acc = BytesMut::new();
      for s in segs {
        match fr.try_read_msgs_from_bytes(Bytes::from(s.clone()), &mut acc) {
          Ok(ms) => out.extend(ms.iter().map(from_msg)),
          Err(e) => return Err(format!("{e}")),
        }
      }
      if !acc.is_empty() {
        return Err(format!("{} undecoded bytes left", acc.len()));
      }
    }
    Dk::TokioCodec | Dk::TokioCodecPrimed => {
      let mut c = ZmtpCodec::new();
      let mut buf = BytesMut::new();
      let mut it = segs.iter();
      if dk == Dk::TokioCodecPrimed {
        // the first segment is handed over as a "primed prefix", as a transport does with
        // bytes it over-read during the handshake
        if let Some(first) = it.next() {
          c.prime_with_prefix(BytesMut::from(&first[..]));
          loop {
            match c.decode(&mut buf) {
              Ok(Some(m)) => out.push(from_msg(&m)),
              Ok(None) => break,
              Err(e) => return Err(format!("{e}")),
            }
          }
        }
      }
      for s in it {
        buf.extend_from_slice(s);
        loop {
          match c.decode(&mut buf) {
            Ok(Some(m)) => out.push(from_msg(&m)),
            Ok(None) => break,
            Err(e) => return Err(format!("{e}")),
          }
        }
      }
      if !buf.is_empty() {
        return Err(format!("{} undecoded bytes left", buf.len()));
      }
    }
  }
  Ok(out)
}

const DECODERS: [Dk; 5] = [Dk::ManualBuffer, Dk::NullFramerRead, Dk::NullFramerReadBytes, Dk::TokioCodec, Dk::TokioCodecPrimed];

fn check_segmentation(rep: &mut Report, flat: &[Frame], stream: &[u8], cuts: &[usize], cutkind: &str) {
  let segs = split_at_cuts(stream, cuts);
  for dk in DECODERS {
    rep.cases(1);
    match decode_segmented(dk, &segs) {
      Ok(got) if got == flat => {}
      Ok(got) => {
        let pos = got.iter().zip(flat.iter()).position(|(a, b)| a != b).unwrap_or(got.len().min(flat.len()));
        rep.violation(
          format!("decoder_mismatch|{:?}|{}", dk, cutkind),
          format!("decoder {:?} returned {} frames (want {}), first difference at frame {} for cuts {:?}", dk, got.len(), flat.len(), pos, &cuts[..cuts.len().min(8)]),
          json!({"decoder": format!("{:?}", dk), "cuts": cuts.iter().take(16).collect::<Vec<_>>(), "stream_len": stream.len(),
                 "got_frame": got.get(pos).map(|f| format!("len={} more={} cmd={}", f.body.len(), f.more, f.command)),
                 "want_frame": flat.get(pos).map(|f| format!("len={} more={} cmd={}", f.body.len(), f.more, f.command))}),
        );
      }
      Err(e) => {
        rep.violation(
          format!("decoder_error|{:?}|{}", dk, cutkind),
          format!("decoder {:?} failed on a valid stream cut at {:?}: {}", dk, &cuts[..cuts.len().min(8)], e),
          json!({"decoder": format!("{:?}", dk), "cuts": cuts.iter().take(16).collect::<Vec<_>>(), "error": e, "stream_len": stream.len()}),
        );
      }
    }
  }
}

/// The stateless "whole slice" decoders: at every frame start, every strict prefix must yield
/// None and the full frame (with or without trailing bytes) must yield exactly the frame.
fn check_slice_decoders(rep: &mut Report, flat: &[Frame], stream: &[u8], every_prefix: bool) {
  let p = ZmtpManualParser::new(-1);
  let mut off = 0usize;
  for f in flat {
    let mut one = Vec::new();
    refzmtp::encode_frame(f, &mut one);
    let total = one.len();
    let prefixes: Vec<usize> = if every_prefix { (0..total).collect() } else { vec![0, 1, 2.min(total - 1), 8.min(total - 1), 9.min(total - 1), total - 1] };
    for &n in &prefixes {
      let sl = &stream[off..off + n];
      rep.cases(3);
      let a = p.decode_frame_from_slice(sl);
      let b = p.decode_frame_from_bytes(&Bytes::copy_from_slice(sl));
      let c = p.peek_frame_len(sl);
      let hdr = if f.body.len() <= 255 { 2 } else { 9 };
      let ok_a = matches!(a, Ok(None));
      let ok_b = matches!(b, Ok(None));
      let ok_c = if n >= hdr { matches!(c, Ok(Some(t)) if t == total) } else { matches!(c, Ok(None)) };
      if !(ok_a && ok_b && ok_c) {
        rep.violation(
          "slice_decoder_prefix".to_string(),
          format!("slice decoder gave a result for an incomplete frame (prefix {} of {} bytes): slice={:?} bytes={:?} peek={:?}", n, total, a.as_ref().map(|o| o.as_ref().map(|x| x.1)), b.as_ref().map(|o| o.as_ref().map(|x| x.1)), c),
          json!({"prefix": n, "total": total, "frame_len": f.body.len()}),
        );
      }
    }
    for tail in [0usize, 1, 5] {
      let end = (off + total + tail).min(stream.len());
      let sl = &stream[off..end];
      rep.cases(3);
      let a = p.decode_frame_from_slice(sl);
      let b = p.decode_frame_from_bytes(&Bytes::copy_from_slice(sl));
      let c = p.peek_frame_len(sl);
      let good = |r: &Result<Option<(Msg, usize)>, rzmq::ZmqError>| matches!(r, Ok(Some((m, t))) if *t == total && from_msg(m) == *f);
      if !(good(&a) && good(&b) && matches!(c, Ok(Some(t)) if t == total)) {
        rep.violation(
          "slice_decoder_whole".to_string(),
          format!("slice decoder did not return the encoded frame (len {}, more {}, cmd {})", f.body.len(), f.more, f.command),
          json!({"frame_len": f.body.len(), "more": f.more, "command": f.command, "peek": format!("{:?}", c)}),
        );
      }
    }
    off += total;
  }
}

fn gen_msgs(r: &mut Rng, max_frame: usize) -> Vec<Vec<Frame>> {
  const LENS: [usize; 11] = [0, 1, 2, 254, 255, 256, 257, 65535, 65536, 65537, 70000];
  let nm = r.range(1, 4);
  let mut out = Vec::new();
  let with_cmd = r.chance(1, 3);
  for _ in 0..nm {
    let hi = if r.chance(1, 4) { 8 } else { 3 };
    let nf = r.range(1, hi);
    let mut m = Vec::new();
    for i in 0..nf {
      let len = if r.chance(1, 2) { *r.pick(&LENS) } else { r.range(0, 400) }.min(max_frame);
      let body = r.bytes(len);
      // multipart convention: MORE on all but the last; but also exercise arbitrary flag combos
      let more = if r.chance(1, 6) { r.chance(1, 2) } else { i + 1 < nf };
      let command = with_cmd && r.chance(1, 3);
      m.push(Frame { more, command, body });
    }
    out.push(m);
  }
  out
}

fn main() {
  let args = Args::parse();
  vh::util::install_panic_watch();
  let mut rep = Report::new("C03", &args.shard_name());
  let mut rng = Rng::new(args.seed.wrapping_mul(1000).wrapping_add(args.shard as u64));
  let (n_small, n_big) = if args.extra.contains_key("miri") { (2, 0) } else if args.thorough() { (400, 60) } else { (60, 8) };

  // Part A: small streams, ALL single cuts and ALL pairs of cuts.
  for k in 0..n_small {
    let msgs = gen_msgs(&mut rng, 300);
    let flat: Vec<Frame> = msgs.iter().flatten().cloned().collect();
    let stream = check_encoders(&mut rep, &msgs);
    if stream.len() > 600 {
      // too big for the exhaustive part: treat like a big stream below
      let cuts = rng.cuts(stream.len(), 5);
      check_segmentation(&mut rep, &flat, &stream, &cuts, "random");
      continue;
    }
    rep.case(&("small", shape(&msgs)), true);
    check_slice_decoders(&mut rep, &flat, &stream, true);
    check_segmentation(&mut rep, &flat, &stream, &[], "whole");
    let n = stream.len();
    for a in 1..n {
      check_segmentation(&mut rep, &flat, &stream, &[a], "single");
    }
    // all pairs only for streams up to 160 bytes (quadratic); sampled pairs above
    if n <= 160 {
      for a in 1..n {
        for b in (a + 1)..n {
          check_segmentation(&mut rep, &flat, &stream, &[a, b], "pair");
        }
      }
      rep.count("streams_with_all_pairs", 1);
    } else {
      for _ in 0..300 {
        let c = rng.cuts(n, 2);
        check_segmentation(&mut rep, &flat, &stream, &c, "pair");
      }
    }
    let bytewise: Vec<usize> = (1..n).collect();
    check_segmentation(&mut rep, &flat, &stream, &bytewise, "bytewise");
    if k < 3 {
      rep.sample(json!({"frames": shape(&msgs), "stream_len": n, "stream_head": hex(&stream[..n.min(24)]), "cuts": "all single, all pairs (<=160B), bytewise"}));
    }
  }
  rep.exhaustive_parts.push("all single cuts and byte-at-a-time for every stream <= 600 bytes; all cut pairs for streams <= 160 bytes".into());

  // Part B: large streams crossing the 255/256 and 65535/65536 boundaries.
  for k in 0..n_big {
    let msgs = gen_msgs(&mut rng, 70000);
    let flat: Vec<Frame> = msgs.iter().flatten().cloned().collect();
    let stream = check_encoders(&mut rep, &msgs);
    rep.case(&("big", shape(&msgs)), true);
    check_slice_decoders(&mut rep, &flat, &stream, false);
    let n = stream.len();
    if n < 2 {
      continue;
    }
    // header-splitting cuts: every offset inside every frame header, and +-1 around frame ends
    let mut off = 0usize;
    for f in &flat {
      let hdr = if f.body.len() <= 255 { 2 } else { 9 };
      for d in 0..=hdr {
        let c = off + d;
        if c > 0 && c < n {
          check_segmentation(&mut rep, &flat, &stream, &[c], "header");
        }
      }
      off += hdr + f.body.len();
      for c in [off.saturating_sub(1), off, off + 1] {
        if c > 0 && c < n {
          check_segmentation(&mut rep, &flat, &stream, &[c], "frame_end");
        }
      }
    }
    for _ in 0..(if args.thorough() { 200 } else { 40 }) {
      let k = rng.range(1, 12);
      let c = rng.cuts(n, k);
      check_segmentation(&mut rep, &flat, &stream, &c, "random");
    }
    if n <= 200_000 {
      let bytewise: Vec<usize> = (1..n).collect();
      check_segmentation(&mut rep, &flat, &stream, &bytewise, "bytewise");
    }
    if k < 2 {
      rep.sample(json!({"frames": shape(&msgs), "stream_len": n, "cuts": "every header offset, frame ends +-1, random multi-cuts, bytewise"}));
    }
  }

  for p in vh::util::take_panics() {
    rep.violation(format!("panic|{}", vh::util::panic_site(&p.location)), format!("panic at {}: {}", p.location, p.message), json!({"frames": p.backtrace_head}));
  }
  rep.emit();
}

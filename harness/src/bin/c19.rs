//! C19 — heartbeats detect dead peers and never kill live ones.
//! (engine) real-time trace-specification monitor over seeded timelines of tick / inbound /
//! outbound / PONG / peer-PING events; (egress) EgressBuffer vs a flat byte-queue model;
//! (session) raw peers that answer / do not answer, against real sockets.

use bytes::Bytes;
use rzmq::socket::options as opt;
use rzmq::verif::{Egress, EngineCfg};
use rzmq::SocketType;
use serde_json::json;
use std::time::{Duration, Instant};
use vh::args::Args;
use vh::enginepair::Side;
use vh::gen::Rng;
use vh::rawpeer::RawStream;
use vh::refzmtp::{self, Dec, Frame};
use vh::report::{hex, Report};
use vh::util;

fn enc(f: Frame) -> Vec<u8> {
  let mut v = Vec::new();
  refzmtp::encode_frame(&f, &mut v);
  v
}

/// Bring a NULL engine (as listener) into the data phase by playing a reference client.
fn data_phase_engine(cfg: &EngineCfg, v2: bool) -> Option<Side> {
  let mut side = Side::new(cfg.engine(true));
  let o = side.eng.start();
  let _ = side.absorb(o);
  if v2 {
    let _ = side.feed(&refzmtp::greeting_v2(refzmtp::V2_DEALER, b""));
  } else {
    let _ = side.feed(&refzmtp::null_client_handshake("DEALER", None));
  }
  if side.in_data() {
    side.sent.clear();
    Some(side)
  } else {
    None
  }
}

#[derive(Debug, Clone)]
enum Ev {
  Sleep(u64),
  Tick,
  InboundData,
  OutboundWrite,
  Pong(bool),          // well-formed / junk context (still a PONG)
  PeerPing(usize),     // context length
  PeerPingBurst(usize), // several PINGs with distinct contexts arriving in one read
  MalformedPing,       // PING shorter than its TTL
  MalformedPong,       // "PON"
}

fn parse_sent(bytes: &[u8]) -> Vec<Frame> {
  let (fs, used) = refzmtp::decode_all(bytes);
  if used != bytes.len() {
    return vec![];
  }
  fs
}

fn timeline(rep: &mut Report, rng: &mut Rng, ivl_ms: u64, to_ms: u64, v2: bool, sample: bool) {
  let cfg = EngineCfg::new("ROUTER").heartbeat(Some(Duration::from_millis(ivl_ms)), Some(Duration::from_millis(to_ms)));
  let Some(mut side) = data_phase_engine(&cfg, v2) else {
    rep.inconclusive("could not reach data phase".to_string());
    return;
  };
  let ivl = Duration::from_millis(ivl_ms);
  let to = Duration::from_millis(to_ms);
  let margin = Duration::from_micros(1500);
  // specification state
  // the engine stamps activity with its own clock reading somewhere inside the call that carries the event: the
  // harness brackets that instant with a reading before (lo) and after (hi) the call and judges "too early"
  // against the earliest and "missing" against the latest possibility (a preempted thread must not turn into a verdict)
  let mut act_lo = Instant::now();
  let mut act_hi = act_lo;
  let mut waiting: Option<Instant> = None; // ping time
  let mut log: Vec<String> = vec![];
  let t0 = Instant::now();
  let n = rng.range(8, 22);
  let mut evs: Vec<Ev> = vec![];
  for _ in 0..n {
    let e = match rng.below(12) {
      0 | 1 | 2 => Ev::Sleep(rng.range(1, (ivl_ms as usize) * 3 / 2) as u64),
      3 | 4 | 5 => Ev::Tick,
      6 => Ev::InboundData,
      7 => Ev::OutboundWrite,
      8 => Ev::Pong(rng.chance(3, 4)),
      9 => {
        if rng.chance(1, 3) {
          Ev::PeerPingBurst(rng.range(2, 5))
        } else {
          Ev::PeerPing(*rng.pick(&[0usize, 1, 8, 16, 17, 20]))
        }
      }
      10 => Ev::MalformedPing,
      _ => Ev::MalformedPong,
    };
    evs.push(e);
  }
  let cfgname = format!("ivl={}ms timeout={}ms v2={}", ivl_ms, to_ms, v2);
  let shape: Vec<String> = evs.iter().map(|e| format!("{:?}", e).split('(').next().unwrap().to_string()).collect();
  rep.case(&(ivl_ms, to_ms, v2, format!("{:?}", evs)), true);
  let violation = |rep: &mut Report, sig: &str, what: String, log: &Vec<String>, diverged: bool| {
    // once the peer has shown liveness by traffic (not by PONG) while a PING was outstanding,
    // engine and specification disagree about "waiting": every consequence is one root cause
    let sig = if diverged { "traffic_does_not_count_as_liveness" } else { sig };
    rep.violation(format!("{}|v2={}", sig, v2), format!("{} [{}]", what, cfgname), json!({"config": cfgname, "liveness_shown_by_traffic_only": diverged, "timeline": log.iter().rev().take(14).rev().collect::<Vec<_>>()}));
  };
  for e in &evs {
    if side.closed() {
      break;
    }
    let sent_before = side.sent.len();
    let err_before = side.errors.len();
    let t_ev = Instant::now();
    match e {
      Ev::Sleep(ms) => {
        std::thread::sleep(Duration::from_millis(*ms));
        log.push(format!("+{:?} sleep {}ms", t0.elapsed(), ms));
        continue;
      }
      Ev::Tick => {
        let now = Instant::now();
        let out = side.eng.on_tick(now);
        let _ = side.absorb(out);
        let emitted = parse_sent(&side.sent[sent_before..].iter().flat_map(|b| b.iter().copied()).collect::<Vec<u8>>());
        let pings = emitted.iter().filter(|f| f.command && f.body.starts_with(b"\x04PING")).count();
        let closed_now = side.closed();
        log.push(format!("+{:?} tick -> pings={} closed={} (since_activity={:?}, waiting_for={:?})", t0.elapsed(), pings, closed_now, now.duration_since(act_hi), waiting.map(|p| now.duration_since(p))));
        if v2 {
          if !emitted.is_empty() || closed_now {
            violation(rep, "v2_heartbeat_output", format!("a ZMTP/2.0 session produced heartbeat output on tick ({} frames, closed={})", emitted.len(), closed_now), &log, side.order.contains('T'));
          }
          continue;
        }
        match waiting {
          Some(pt) => {
            let el = now.duration_since(pt);
            if el >= to + margin && !closed_now {
              violation(rep, "dead_peer_not_closed", format!("no PONG for {:?} (timeout {:?}) yet the tick did not close the connection", el, to), &log, side.order.contains('T'));
            }
            if el + margin < to && closed_now {
              violation(rep, "closed_before_timeout", format!("connection closed {:?} after the PING, before HEARTBEAT_TIMEOUT {:?}", el, to), &log, side.order.contains('T'));
            }
            if pings > 0 {
              violation(rep, "ping_while_waiting", "a second PING was sent while one is outstanding".to_string(), &log, side.order.contains('T'));
            }
          }
          None => {
            let el = now.duration_since(act_hi); // at least this long since the last activity
            let el_max = now.duration_since(act_lo); // at most this long
            if closed_now {
              violation(rep, "live_peer_closed", format!("tick closed a connection with no PING outstanding ({:?} since last activity)", el), &log, side.order.contains('T'));
            }
            if el_max + margin < ivl && pings > 0 {
              violation(rep, "ping_too_early", format!("PING sent at most {:?} after the last activity, sooner than HEARTBEAT_IVL {:?}", el_max, ivl), &log, side.order.contains('T'));
            }
            if el >= ivl + margin && pings == 0 && !closed_now {
              violation(rep, "ping_missing", format!("no PING although {:?} passed since the last activity (HEARTBEAT_IVL {:?})", el, ivl), &log, side.order.contains('T'));
            }
            if pings > 1 {
              violation(rep, "multiple_pings", format!("{} PINGs emitted by one tick", pings), &log, side.order.contains('T'));
            }
            if pings >= 1 {
              waiting = Some(now);
            }
          }
        }
        if closed_now {
          break;
        }
      }
      Ev::InboundData => {
        let _ = side.feed(&enc(Frame::data(b"traffic", false)));
        (act_lo, act_hi) = (t_ev, Instant::now());
        // traffic flowing is proof of life: the spec stops waiting
        if waiting.is_some() {
          log.push(format!("+{:?} inbound data while a PING is outstanding (peer is alive)", t0.elapsed()));
          waiting = None;
          // remember that liveness was shown by traffic, not by PONG
          side.order.push('T');
        } else {
          log.push(format!("+{:?} inbound data", t0.elapsed()));
        }
      }
      Ev::OutboundWrite => {
        side.eng.record_activity();
        (act_lo, act_hi) = (t_ev, Instant::now());
        log.push(format!("+{:?} outbound write (record_activity)", t0.elapsed()));
      }
      Ev::Pong(good) => {
        let ctx: Vec<u8> = if *good { vec![] } else { rng.bytes(12) };
        let _ = side.feed(&enc(refzmtp::pong(&ctx)));
        (act_lo, act_hi) = (t_ev, Instant::now());
        waiting = None;
        log.push(format!("+{:?} PONG arrives (ctx {} bytes)", t0.elapsed(), ctx.len()));
      }
      Ev::PeerPing(n) => {
        let ctx = rng.bytes(*n);
        let _ = side.feed(&enc(refzmtp::ping(300, &ctx)));
        (act_lo, act_hi) = (t_ev, Instant::now());
        if waiting.is_some() {
          waiting = None;
          side.order.push('T');
        }
        let emitted = parse_sent(&side.sent[sent_before..].iter().flat_map(|b| b.iter().copied()).collect::<Vec<u8>>());
        log.push(format!("+{:?} peer PING ctx={}B -> {} frames out", t0.elapsed(), n, emitted.len()));
        if v2 {
          continue; // a COMMAND frame on v2 is a protocol violation; closing is fine
        }
        let pongs: Vec<&Frame> = emitted.iter().filter(|f| f.command && f.body.starts_with(b"\x04PONG")).collect();
        if pongs.len() != 1 || emitted.len() != 1 {
          violation(rep, "ping_not_answered_once", format!("a PING with {}-byte context was answered by {} PONG(s) / {} frame(s)", n, pongs.len(), emitted.len()), &log, side.order.contains('T'));
        } else if pongs[0].body[5..] != ctx[..] {
          violation(rep, "pong_context_mismatch", format!("PONG context {} differs from PING context {}", hex(&pongs[0].body[5..]), hex(&ctx)), &log, side.order.contains('T'));
        }
      }
      Ev::PeerPingBurst(k) => {
        // k PINGs, each with its own context, in ONE read: each must get its own PONG
        let ctxs: Vec<Vec<u8>> = (0..*k).map(|i| vec![b'A' + i as u8; 1 + i]).collect();
        let mut bytes = vec![];
        for c in &ctxs {
          bytes.extend(enc(refzmtp::ping(300, c)));
        }
        let _ = side.feed(&bytes);
        (act_lo, act_hi) = (t_ev, Instant::now());
        if waiting.is_some() {
          waiting = None;
          side.order.push('T');
        }
        let emitted = parse_sent(&side.sent[sent_before..].iter().flat_map(|b| b.iter().copied()).collect::<Vec<u8>>());
        log.push(format!("+{:?} {} peer PINGs in one read -> {} frames out", t0.elapsed(), k, emitted.len()));
        if v2 {
          continue;
        }
        let mut got: Vec<Vec<u8>> = emitted.iter().filter(|f| f.command && f.body.starts_with(b"\x04PONG")).map(|f| f.body[5..].to_vec()).collect();
        let mut want = ctxs.clone();
        got.sort();
        want.sort();
        if emitted.len() != *k || got != want {
          violation(rep, "ping_burst_not_answered_one_for_one", format!("{} PINGs with distinct contexts arriving in one read were answered by {} frame(s) carrying contexts {:?}", k, emitted.len(), got.iter().map(|c| String::from_utf8_lossy(c).to_string()).collect::<Vec<_>>()), &log, side.order.contains('T'));
        }
      }
      Ev::MalformedPing => {
        let _ = side.feed(&enc(Frame::cmd(b"\x04PING\x00")));
        if !side.closed() {
          (act_lo, act_hi) = (t_ev, Instant::now());
          if waiting.is_some() {
            waiting = None;
            side.order.push('T');
          }
        }
        log.push(format!("+{:?} malformed PING (closed={})", t0.elapsed(), side.closed()));
      }
      Ev::MalformedPong => {
        let _ = side.feed(&enc(Frame::cmd(b"\x03PON")));
        if !side.closed() {
          (act_lo, act_hi) = (t_ev, Instant::now());
          if waiting.is_some() {
            waiting = None;
            side.order.push('T');
          }
        }
        log.push(format!("+{:?} malformed PONG-like command (closed={})", t0.elapsed(), side.closed()));
      }
    }
    if side.errors.len() > err_before && !matches!(e, Ev::Tick) && !v2 {
      // inbound well-formed frames must not error
      if matches!(e, Ev::InboundData | Ev::Pong(_) | Ev::PeerPing(_) | Ev::PeerPingBurst(_)) {
        violation(rep, "inbound_frame_error", format!("well-formed inbound frame caused an error: {:?}", side.errors.last()), &log, side.order.contains('T'));
      }
    }
  }
  if sample {
    rep.sample(json!({"config": cfgname, "events": shape, "timeline_tail": log.iter().rev().take(6).rev().collect::<Vec<_>>()}));
  }
}

// ---- pair timelines: every security mechanism ----------------------------------------------------

#[derive(Clone, Copy, Debug, PartialEq, Eq, Hash)]
enum Mech {
  Null,
  Plain,
  Curve,
  Noise,
}

fn k32(r: &mut Rng) -> [u8; 32] {
  let mut k = [0u8; 32];
  k.copy_from_slice(&r.bytes(32));
  k
}

/// (pair) The monitored engine A (heartbeats on) talks to a second real engine B through the harness, under NULL,
/// PLAIN, CURVE or NOISE_XX, so that PING/PONG travel through the mechanism's own framer. The harness decides when
/// bytes are delivered in each direction (a PONG can be held back past the timeout, or dropped), when A ticks, when
/// data flows, and when B - whose own heartbeat may be on - pings A. A is judged with the same specification as
/// the raw timelines (PING not early / not missing, close not early / not missing, alive peers never closed); B,
/// being a real engine, shows whether A's PONG was decodable and carried the right context (B keeps the link) and
/// whether anything A put on the wire was undecodable (B errors).
fn pair_timeline(rep: &mut Report, rng: &mut Rng, mech: Mech, ivl_ms: u64, to_ms: u64, b_pings: bool, sample: bool) {
  use vh::enginepair::{Pair, Sched};
  let mut ca = EngineCfg::new("DEALER").heartbeat(Some(Duration::from_millis(ivl_ms)), Some(Duration::from_millis(to_ms)));
  // B's own heartbeat: interval long enough not to interfere unless we tick it on purpose
  let mut cb = EngineCfg::new("ROUTER");
  if b_pings {
    cb = cb.heartbeat(Some(Duration::from_millis(1)), Some(Duration::from_secs(3600)));
  }
  match mech {
    Mech::Null => {}
    Mech::Plain => {
      ca = ca.plain(Some("user"), Some("pass"));
      cb = cb.plain(Some("user"), Some("pass"));
    }
    Mech::Curve => {
      let srv = rzmq::verif::curve_keypair_from(k32(rng));
      let cli = rzmq::verif::curve_keypair_from(k32(rng));
      ca = ca.curve(cli.0, Some(srv.1));
      cb = cb.curve(srv.0, None);
    }
    Mech::Noise => {
      let srv = rzmq::verif::noise_keypair_from(k32(rng));
      let cli = rzmq::verif::noise_keypair_from(k32(rng));
      ca = ca.noise_xx(cli.0, Some(srv.1));
      cb = cb.noise_xx(srv.0, None);
    }
  }
  let mut p = Pair::new(&ca, false, &cb, true);
  p.start();
  if !(p.run(Sched::LockStep, rng, 20000) && p.a.in_data() && p.b.in_data()) {
    rep.inconclusive(format!("pair handshake failed for {:?}", mech));
    return;
  }
  let ivl = Duration::from_millis(ivl_ms);
  let to = Duration::from_millis(to_ms);
  let margin = Duration::from_micros(1500);
  let cfgname = format!("{:?} ivl={}ms timeout={}ms peer_pings={}", mech, ivl_ms, to_ms, b_pings);
  // (lo, hi) bracket of the instant the engine stamped its last activity - see timeline()
  let mut act_lo = Instant::now();
  // the handshake's last bytes count as activity for A
  p.a.eng.record_activity();
  let mut act_hi = Instant::now();
  let mut waiting: Option<Instant> = None;
  // the two directions of the byte stream, in order, never dropped (it is a stream): what is queued has been
  // written by one engine and not yet read by the other - a peer that is slow or dead simply does not read
  let mut to_b: Vec<u8> = vec![];
  let mut to_a: Vec<u8> = vec![];
  let mut log: Vec<String> = vec![];
  let t0 = Instant::now();
  let n = rng.range(8, 20);
  let mut shape: Vec<&'static str> = vec![];
  let mut traffic_only = false;
  let delivered_b0 = p.b.delivered.len();
  let delivered_a0 = p.a.delivered.len();
  let mut data_sent_to_b = 0usize;
  let mut data_sent_to_a = 0usize;
  macro_rules! violation {
    ($sig:expr, $what:expr) => {{
      let sig: &str = if traffic_only { "traffic_does_not_count_as_liveness" } else { $sig };
      rep.violation(format!("pair|{}|{:?}", sig, mech), format!("{} [{}]", $what, cfgname), json!({"config": cfgname, "timeline": log.iter().rev().take(14).rev().collect::<Vec<_>>()}));
    }};
  }
  // B reads everything queued for it; its output is queued for A
  macro_rules! b_reads {
    () => {{
      if !to_b.is_empty() {
        let errs = p.b.errors.len();
        let chunk = std::mem::take(&mut to_b);
        let out = p.b.feed(&chunk);
        to_a.extend(out);
        if p.b.errors.len() > errs || p.b.closed() {
          violation!("not_decodable_by_peer", format!("the peer engine rejected {} bytes A had written: {:?}", chunk.len(), p.b.errors.last()));
          true
        } else {
          false
        }
      } else {
        false
      }
    }};
  }
  // A reads everything queued for it (PONGs, data, the peer's PINGs); returns (bytes read, failed)
  macro_rules! a_reads {
    () => {{
      if !to_a.is_empty() {
        let errs = p.a.errors.len();
        let chunk = std::mem::take(&mut to_a);
        let t_lo = Instant::now();
        let out = p.a.feed(&chunk);
        to_b.extend(out);
        (act_lo, act_hi) = (t_lo, Instant::now());
        let failed = p.a.errors.len() > errs || p.a.closed();
        if failed {
          violation!("inbound_rejected", format!("A rejected {} bytes the peer engine had written: {:?}", chunk.len(), p.a.errors.last()));
        }
        (chunk.len(), failed)
      } else {
        (0usize, false)
      }
    }};
  }
  'events: for _ in 0..n {
    if p.a.closed() {
      break;
    }
    match rng.below(12) {
      0 | 1 | 2 => {
        let ms = rng.range(1, (ivl_ms as usize) * 3 / 2) as u64;
        std::thread::sleep(Duration::from_millis(ms));
        log.push(format!("+{:?} sleep {}ms", t0.elapsed(), ms));
        shape.push("sleep");
      }
      3 | 4 | 5 => {
        shape.push("tick");
        let now = Instant::now();
        let out = p.a.eng.on_tick(now);
        let wire = p.a.absorb(out);
        let pinged = !wire.is_empty();
        let closed_now = p.a.closed();
        to_b.extend(wire.iter().copied());
        log.push(format!("+{:?} tick -> {} bytes out, closed={} (since_activity={:?}, waiting_for={:?})", t0.elapsed(), wire.len(), closed_now, now.duration_since(act_hi), waiting.map(|w| now.duration_since(w))));
        match waiting {
          Some(pt) => {
            let el = now.duration_since(pt);
            if el >= to + margin && !closed_now {
              violation!("dead_peer_not_closed", format!("no PONG for {:?} (timeout {:?}) yet the tick did not close the connection", el, to));
            }
            if el + margin < to && closed_now {
              violation!("closed_before_timeout", format!("connection closed {:?} after the PING, before HEARTBEAT_TIMEOUT {:?}", el, to));
            }
            if pinged && !closed_now {
              violation!("ping_while_waiting", "a second PING was sent while one is outstanding".to_string());
            }
          }
          None => {
            let el = now.duration_since(act_hi);
            let el_max = now.duration_since(act_lo);
            if closed_now {
              violation!("live_peer_closed", format!("tick closed a connection with no PING outstanding ({:?} since last activity)", el));
            }
            if el_max + margin < ivl && pinged {
              violation!("ping_too_early", format!("PING sent at most {:?} after the last activity, sooner than HEARTBEAT_IVL {:?}", el_max, ivl));
            }
            if el >= ivl + margin && !pinged && !closed_now {
              violation!("ping_missing", format!("no PING although {:?} passed since the last activity (HEARTBEAT_IVL {:?})", el, ivl));
            }
            if pinged {
              waiting = Some(now);
            }
          }
        }
        if closed_now {
          break;
        }
      }
      6 | 7 => {
        // the peer catches up with its input (answers PINGs) and A reads what came back
        shape.push("peer_reads_and_answers");
        if b_reads!() {
          break 'events;
        }
        let (nread, failed) = a_reads!();
        if failed {
          break 'events;
        }
        if nread > 0 {
          waiting = None;
        }
        log.push(format!("+{:?} peer read its input; {} bytes came back to A", t0.elapsed(), nread));
      }
      8 => {
        // the peer reads but its answer is still in flight (A does not read yet)
        shape.push("peer_reads");
        if b_reads!() {
          break 'events;
        }
        log.push(format!("+{:?} peer read its input ({} bytes waiting for A)", t0.elapsed(), to_a.len()));
      }
      9 => {
        // data from the peer: proof of life
        shape.push("inbound_data");
        let mut fb = rzmq::FrameBatch::new();
        fb.push(util::msg(b"traffic-from-peer".to_vec(), false));
        let out = p.b.eng.on_app_message(fb);
        let wire = p.b.absorb(out);
        to_a.extend(wire);
        data_sent_to_a += 1;
        let (_, failed) = a_reads!();
        if failed {
          break 'events;
        }
        if waiting.is_some() {
          waiting = None;
          traffic_only = true;
          log.push(format!("+{:?} inbound data while a PING is outstanding (peer is alive)", t0.elapsed()));
        } else {
          log.push(format!("+{:?} inbound data", t0.elapsed()));
        }
      }
      10 => {
        shape.push("outbound_data");
        let mut fb = rzmq::FrameBatch::new();
        fb.push(util::msg(b"traffic-to-peer".to_vec(), false));
        let t_lo = Instant::now();
        let out = p.a.eng.on_app_message(fb);
        let wire = p.a.absorb(out);
        p.a.eng.record_activity();
        (act_lo, act_hi) = (t_lo, Instant::now());
        data_sent_to_b += 1;
        log.push(format!("+{:?} outbound data ({} bytes) written", t0.elapsed(), wire.len()));
        to_b.extend(wire);
      }
      _ => {
        // the peer pings A (only when B's heartbeat is on): A must answer at once with something B accepts
        shape.push("peer_ping");
        if b_pings {
          if b_reads!() {
            break 'events;
          }
          std::thread::sleep(Duration::from_millis(2));
          let out = p.b.eng.on_tick(Instant::now());
          let wire = p.b.absorb(out);
          if !wire.is_empty() {
            let ping_len = wire.len();
            to_a.extend(wire);
            let sent_before = p.a.sent.len();
            let (_, failed) = a_reads!();
            if failed {
              break 'events;
            }
            if waiting.is_some() {
              waiting = None;
              traffic_only = true;
            }
            let answered: usize = p.a.sent[sent_before..].iter().map(|b| b.len()).sum();
            log.push(format!("+{:?} peer PING ({} bytes) -> {} bytes out", t0.elapsed(), ping_len, answered));
            if answered == 0 {
              violation!("ping_not_answered", "a PING from the peer engine produced no output".to_string());
            } else {
              if b_reads!() {
                break 'events;
              }
              // B got its PONG: its next tick (1 ms interval) must PING again rather than keep waiting or close
              std::thread::sleep(Duration::from_millis(2));
              let out = p.b.eng.on_tick(Instant::now());
              let again = p.b.absorb(out);
              if p.b.closed() {
                violation!("pong_not_accepted_by_peer", "the peer engine closed after the answer to its PING".to_string());
                break 'events;
              }
              if again.is_empty() {
                violation!("pong_not_recognised_by_peer", "after A's answer the peer engine still waits for a PONG (its next tick sent no new PING)".to_string());
              } else {
                to_a.extend(again);
                let (_, failed) = a_reads!();
                if failed {
                  break 'events;
                }
                if b_reads!() {
                  break 'events;
                }
              }
            }
          }
        }
      }
    }
  }
  // drain both directions, then conservation of the data messages
  if !p.a.closed() && !p.b.closed() {
    let _ = b_reads!();
    let _ = a_reads!();
    let _ = b_reads!();
    if p.b.delivered.len() - delivered_b0 != data_sent_to_b {
      violation!("data_lost_between_heartbeats", format!("{} data messages written towards the peer, {} delivered by it", data_sent_to_b, p.b.delivered.len() - delivered_b0));
    }
    if p.a.delivered.len() - delivered_a0 != data_sent_to_a {
      violation!("data_lost_between_heartbeats", format!("{} data messages written by the peer, {} delivered by A", data_sent_to_a, p.a.delivered.len() - delivered_a0));
    }
  }
  rep.case(&("pair", mech, ivl_ms, to_ms, b_pings, shape.clone()), true);
  rep.count(&format!("pair_timelines[{:?}]", mech), 1);
  if sample {
    rep.sample(json!({"layer": "pair", "config": cfgname, "events": shape, "timeline_tail": log.iter().rev().take(6).rev().collect::<Vec<_>>()}));
  }
}

// ---- egress buffer -----------------------------------------------------------------------------

/// Random push / push_priority / partial advance sequences. Everything "written" (the bytes the
/// buffer exposed as its current slice and that were then advanced over) must be a concatenation
/// of whole chunks; data chunks FIFO; a priority chunk ahead of every data chunk not yet started.
fn egress_case(rep: &mut Report, rng: &mut Rng) {
  let mut eg = Egress::new();
  let mut written: Vec<u8> = vec![];
  // model: queue of (id, bytes, is_priority, started)
  struct Ch {
    id: u32,
    data: Vec<u8>,
    prio: bool,
    queued_at_written: usize,
  }
  let mut all: Vec<Ch> = vec![];
  let mut next_id = 1u32;
  let nops = rng.range(5, 40);
  let mut ops: Vec<String> = vec![];
  let mut pending_msgs_model: usize = 0;
  for _ in 0..nops {
    match rng.below(10) {
      0..=3 => {
        let n = rng.range(3, 40);
        // self-delimiting chunk: [marker, id, len, id, id, ...] so the written stream parses unambiguously
        let mut d = vec![next_id as u8; n];
        d[0] = 0xF0;
        d[2] = n as u8;
        let mc = rng.range(1, 3);
        eg.push(Bytes::from(d.clone()), mc);
        pending_msgs_model += mc;
        ops.push(format!("push#{}({}B,{}msg)", next_id, n, mc));
        all.push(Ch { id: next_id, data: d, prio: false, queued_at_written: written.len() });
        next_id += 1;
      }
      4 | 5 => {
        let n = rng.range(3, 12);
        let mut d = vec![next_id as u8; n];
        d[0] = 0xF1;
        d[2] = n as u8;
        eg.push_priority(Bytes::from(d.clone()));
        ops.push(format!("prio#{}({}B)", next_id, n));
        all.push(Ch { id: next_id, data: d, prio: true, queued_at_written: written.len() });
        next_id += 1;
      }
      _ => {
        // write: take what the buffer exposes and advance over part of it
        let slices = eg.peek_slices(rng.range(1, 4));
        let avail: Vec<u8> = slices.concat();
        if avail.is_empty() {
          continue;
        }
        // cross-check current_slice == first exposed slice
        if eg.current_slice().map(|s| s.to_vec()) != slices.first().cloned() {
          rep.violation("egress_current_slice_mismatch", "current_slice() and fill_slices() disagree".to_string(), json!({"ops": ops}));
        }
        let k = rng.range(1, avail.len());
        written.extend_from_slice(&avail[..k]);
        let popped = eg.advance(k);
        pending_msgs_model = pending_msgs_model.saturating_sub(popped);
        ops.push(format!("write({}of{})", k, avail.len()));
      }
    }
    if eg.pending_messages() != pending_msgs_model {
      rep.violation("egress_message_count_drift", format!("pending_messages()={} but model says {}", eg.pending_messages(), pending_msgs_model), json!({"ops": ops}));
      return;
    }
  }
  // drain
  loop {
    let s = eg.current_slice().map(|s| s.to_vec()).unwrap_or_default();
    if s.is_empty() {
      break;
    }
    written.extend_from_slice(&s);
    eg.advance(s.len());
  }
  rep.case(&ops, true);
  // parse `written` into chunks: at each position must start some not-yet-written chunk, whole
  let mut pos = 0usize;
  let mut done: Vec<u32> = vec![];
  let mut last_data_id = 0u32;
  while pos < written.len() {
    // the chunk that starts here is named by its header (marker, id, len)
    let cand = if pos + 3 <= written.len() && (written[pos] == 0xF0 || written[pos] == 0xF1) {
      let id = written[pos + 1] as u32;
      all.iter().find(|c| c.id == id && !done.contains(&c.id) && written[pos..].starts_with(&c.data))
    } else {
      None
    };
    match cand {
      None => {
        rep.violation("egress_chunk_torn", format!("bytes written at offset {} do not start a whole queued chunk: a chunk was split by another (priority insertion inside a partially written chunk?)", pos), json!({"ops": ops, "written_at": hex(&written[pos..(pos + 16).min(written.len())])}));
        return;
      }
      Some(c) => {
        if !c.prio {
          if c.id < last_data_id {
            rep.violation("egress_data_reordered", format!("data chunk #{} written after #{}", c.id, last_data_id), json!({"ops": ops}));
            return;
          }
          last_data_id = c.id;
        } else {
          // a priority chunk must precede every data chunk that had not started when it was queued
          for d in all.iter().filter(|d| !d.prio && done.contains(&d.id)) {
            let d_start = done_start(&all, &done, d.id, &written);
            if d_start >= c.queued_at_written && d.queued_at_written <= c.queued_at_written {
              rep.violation("egress_priority_not_ahead", format!("priority chunk #{} queued when {} bytes had been written, but data chunk #{} (not yet started then) was written first", c.id, c.queued_at_written, d.id), json!({"ops": ops}));
              return;
            }
          }
        }
        done.push(c.id);
        pos += c.data.len();
      }
    }
  }
  if done.len() != all.len() {
    rep.violation("egress_chunk_lost", format!("{} chunks queued, {} written", all.len(), done.len()), json!({"ops": ops}));
  }
  fn done_start(all: &[Ch], done: &[u32], id: u32, _w: &[u8]) -> usize {
    let mut pos = 0;
    for d in done {
      let c = all.iter().find(|c| c.id == *d).unwrap();
      if *d == id {
        return pos;
      }
      pos += c.data.len();
    }
    pos
  }
}

// ---- session level -----------------------------------------------------------------------------

/// Real ROUTER listener with heartbeats; raw peer that answers PINGs (must stay connected) or
/// stays mute (must be disconnected within 2*IVL+TIMEOUT+slack).
async fn session_case(rep: &mut Report, answering: bool, keep_traffic: bool, ivl: u64, to: u64) {
  let ctx = util::new_ctx();
  let sock = ctx.socket(SocketType::Router).unwrap();
  util::set_i32(&sock, opt::HEARTBEAT_IVL, ivl as i32).await;
  util::set_i32(&sock, opt::HEARTBEAT_TIMEOUT, to as i32).await;
  let ep = util::bind_fresh(&sock, util::Transport::Tcp).await.unwrap();
  let mut raw = RawStream::connect(&ep).await.unwrap();
  raw.write_all(&refzmtp::null_client_handshake("DEALER", Some(b"hb"))).await.unwrap();
  // read greeting + READY from rzmq
  let (hs, _) = raw.read_for(Duration::from_millis(500), 64 + 20).await;
  if hs.len() < 64 {
    rep.inconclusive(format!("handshake bytes from listener: {}", hs.len()));
    let _ = ctx.term().await;
    return;
  }
  let bound = Duration::from_millis(2 * ivl + to) + util::scaled(Duration::from_millis(1500));
  let observe = if answering || keep_traffic { Duration::from_millis(4 * (ivl + to)) } else { bound };
  let t0 = Instant::now();
  let mut buf: Vec<u8> = vec![];
  let mut pings = 0;
  let mut closed_at: Option<Duration> = None;
  let mut last_traffic = Instant::now();
  // the raw peer is only "live" if this loop itself gets the CPU: its longest turn is recorded, and a verdict against
  // rzmq is only drawn when the peer was never away for more than a third of the heartbeat timeout
  let mut longest_turn = Duration::ZERO;
  let mut turn_start = Instant::now();
  while t0.elapsed() < observe {
    longest_turn = longest_turn.max(turn_start.elapsed());
    turn_start = Instant::now();
    let (b, eof) = raw.read_for(Duration::from_millis(20), 0).await;
    buf.extend_from_slice(&b);
    loop {
      match refzmtp::decode_frame(&buf) {
        Dec::Frame(f, n) => {
          buf.drain(..n);
          if f.command && f.body.starts_with(b"\x04PING") {
            pings += 1;
            if answering {
              let _ = raw.write_all(&enc(refzmtp::pong(&f.body[7..]))).await;
            }
          }
        }
        Dec::NeedMore => break,
      }
    }
    if keep_traffic && last_traffic.elapsed() > Duration::from_millis(ivl / 3) {
      let _ = raw.write_all(&refzmtp::message(&[b"", b"keepalive-data"])).await;
      last_traffic = Instant::now();
    }
    if eof {
      closed_at = Some(t0.elapsed());
      break;
    }
  }
  let mode = if answering { "answering" } else if keep_traffic { "traffic_no_pong" } else { "mute" };
  rep.case(&("session", mode, ivl, to), true);
  rep.count(&format!("session_pings_seen[{}]", mode), pings);
  if (answering || keep_traffic) && longest_turn > Duration::from_millis(to / 3 + 20) {
    rep.inconclusive(format!("session {}: the raw peer itself was off the CPU for {:?} (timeout {} ms) - not a live peer, no verdict", mode, longest_turn, to));
  } else if answering || keep_traffic {
    if let Some(t) = closed_at {
      rep.violation(format!("session_live_peer_disconnected|{}", mode), format!("a live raw peer ({}) was disconnected after {:?} (IVL {}ms, TIMEOUT {}ms, {} PINGs seen)", mode, t, ivl, to, pings), json!({"pings": pings}));
    } else if answering && pings == 0 {
      rep.violation("session_no_ping".to_string(), format!("no PING seen in {:?} with HEARTBEAT_IVL {}ms", observe, ivl), json!({}));
    }
  } else {
    match closed_at {
      None => rep.violation("session_dead_peer_not_disconnected".to_string(), format!("a mute raw peer was still connected after {:?} (IVL {}ms, TIMEOUT {}ms, {} PINGs seen)", bound, ivl, to, pings), json!({"pings": pings})),
      Some(t) if t < Duration::from_millis(ivl + to).saturating_sub(Duration::from_millis(60)) => rep.violation("session_dead_peer_disconnected_early".to_string(), format!("mute peer disconnected after only {:?}", t), json!({})),
      Some(_) => {}
    }
  }
  drop(raw);
  let _ = tokio::time::timeout(Duration::from_secs(12), ctx.term()).await;
}

fn main() {
  let args = Args::parse();
  util::install_panic_watch();
  let mut rep = Report::new("C19", &args.shard_name());
  let mut rng = Rng::new(args.seed.wrapping_mul(32452843).wrapping_add(args.shard as u64));
  match args.only.as_deref() {
    Some("session") => {
      let rt = util::runtime(2);
      rt.block_on(session_case(&mut rep, true, false, 100, 300));
      rt.block_on(session_case(&mut rep, false, false, 100, 300));
      rt.block_on(session_case(&mut rep, false, true, 100, 300));
      if args.thorough() {
        rt.block_on(session_case(&mut rep, true, false, 50, 100));
        rt.block_on(session_case(&mut rep, false, false, 200, 100));
      }
    }
    Some("pair") => {
      let budget = Duration::from_secs(if args.thorough() { 240 } else { 35 });
      let t0 = Instant::now();
      let pairs = [(10u64, 30u64), (20, 20), (8, 60), (30, 10), (15, 45)];
      let mechs = [Mech::Null, Mech::Plain, Mech::Curve, Mech::Noise];
      let mut i = args.shard;
      while t0.elapsed() < budget {
        let (ivl, to) = pairs[i % pairs.len()];
        let mech = mechs[(i / pairs.len()) % mechs.len()];
        pair_timeline(&mut rep, &mut rng, mech, ivl, to, i % 3 == 0, i < args.shard + 2);
        i += 1;
      }
    }
    Some("egress") => {
      let n = if args.thorough() { 200_000 } else { 20_000 };
      for _ in 0..n {
        egress_case(&mut rep, &mut rng);
      }
      rep.sample(json!({"egress_histories": n}));
    }
    _ => {
      let budget = Duration::from_secs(if args.thorough() { 240 } else { 35 });
      let t0 = Instant::now();
      let pairs = [(10u64, 30u64), (20, 20), (8, 60), (30, 10), (15, 45)];
      let mut i = 0;
      while t0.elapsed() < budget {
        let (ivl, to) = pairs[i % pairs.len()];
        let v2 = i % 7 == 3;
        timeline(&mut rep, &mut rng, ivl, to, v2, i < 2);
        i += 1;
      }
    }
  }
  for p in util::take_panics() {
    if p.in_rzmq {
      rep.violation(format!("panic|{}", util::panic_site(&p.location)), format!("panic at {}: {}", p.location, p.message), json!({"frames": p.backtrace_head}));
    } else {
      rep.inconclusive(format!("harness panic at {}: {}", p.location, p.message));
    }
  }
  rep.merge_hooks();
  rep.emit();
}

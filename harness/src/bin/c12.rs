//! C12 — SUB delivers exactly the messages its current subscriptions match.
//! (model) SubscriptionTrie vs a reference multiset after every op with an exhaustive probe set;
//! (race) concurrent matchers vs a mutator that never subscribes a designated family;
//! (e2e) PUB->SUB with subscription changes at quiescent points; (stall) slow / stalled / vanished
//! subscribers must not block the publisher or other subscribers.

use rzmq::socket::options as opt;
use rzmq::verif::{self, Trie};
use rzmq::SocketType;
use serde_json::json;
use std::collections::BTreeMap;
use std::sync::atomic::{AtomicBool, AtomicU64, Ordering};
use std::sync::Arc;
use std::time::{Duration, Instant};
use vh::args::Args;
use vh::gen::Rng;
use vh::rawpeer::{RawListener, RawStream};
use vh::refzmtp;
use vh::report::{hex, Report};
use vh::util::{self, Transport};

const ALPHA: [u8; 4] = [0x00, b'a', b'b', 0xFF];

fn probes() -> Vec<Vec<u8>> {
  let mut v: Vec<Vec<u8>> = vec![vec![]];
  let mut layer: Vec<Vec<u8>> = vec![vec![]];
  for _ in 0..4 {
    let mut next = vec![];
    for p in &layer {
      for a in ALPHA {
        let mut q = p.clone();
        q.push(a);
        next.push(q);
      }
    }
    v.extend(next.iter().cloned());
    layer = next;
  }
  v
}

fn ref_matches(subs: &BTreeMap<Vec<u8>, usize>, t: &[u8]) -> bool {
  subs.iter().any(|(s, n)| *n > 0 && t.starts_with(s))
}

fn model_layer(rep: &mut Report, args: &Args, rng: &mut Rng) {
  let probes = probes();
  let n_hist = if args.extra.contains_key("miri") { 3 } else if args.thorough() { 3000 } else { 300 };
  for h in 0..n_hist {
    let trie = Trie::new();
    let mut subs: BTreeMap<Vec<u8>, usize> = BTreeMap::new();
    let nops = rng.range(1, 30);
    let mut ops: Vec<String> = vec![];
    for _ in 0..nops {
      let len = *rng.pick(&[0usize, 1, 1, 2, 2, 3, 4]);
      let topic: Vec<u8> = (0..len).map(|_| *rng.pick(&ALPHA)).collect();
      if rng.chance(3, 5) {
        trie.subscribe(&topic);
        *subs.entry(topic.clone()).or_insert(0) += 1;
        ops.push(format!("sub({})", hex(&topic)));
      } else {
        let before = subs.get(&topic).copied().unwrap_or(0);
        let r = trie.unsubscribe(&topic);
        ops.push(format!("unsub({})", hex(&topic)));
        if before > 0 {
          *subs.get_mut(&topic).unwrap() -= 1;
        }
        let want = before == 1;
        if r != want {
          rep.violation("unsubscribe_return".to_string(), format!("unsubscribe({}) returned {} with {} prior subscription(s)", hex(&topic), r, before), json!({"ops": ops}));
        }
      }
      // compare after every op
      for p in &probes {
        rep.cases(1);
        let got = trie.matches(p);
        let want = ref_matches(&subs, p);
        if got != want {
          let kind = if got { "matches_spurious" } else { "matches_missing" };
          rep.violation(kind.to_string(), format!("after {:?}: matches({}) = {} but the reference multiset says {}", ops, hex(p), got, want), json!({"ops": ops, "probe": hex(p), "subs": subs.iter().map(|(k, v)| format!("{}x{}", hex(k), v)).collect::<Vec<_>>()}));
          return;
        }
      }
      let mut got_topics = trie.get_all_topics();
      got_topics.sort();
      let want_topics: Vec<Vec<u8>> = subs.iter().filter(|(_, n)| **n > 0).map(|(k, _)| k.clone()).collect();
      if got_topics != want_topics {
        rep.violation("get_all_topics_mismatch".to_string(), format!("get_all_topics differs from the reference after {:?}", ops), json!({"ops": ops}));
        return;
      }
    }
    rep.case(&ops, true);
    if h < 2 {
      rep.sample(json!({"ops": ops, "probe_set": "all byte strings of length <= 4 over {00,'a','b',ff} (341 probes) after every op"}));
    }
  }
  rep.exhaustive_parts.push("probe set: every byte string of length <= 4 over {0x00,'a','b',0xFF} after every operation of every history".into());
}

fn race_layer(rep: &mut Report, args: &Args, rng: &mut Rng) {
  // The mutator subscribes "ab" (kept) and churns "b*" topics; it repeatedly unsubscribes "a"
  // (never subscribed: a no-op). No state in its history has a subscription that is a prefix of
  // "ac"/"a"/"a\0": matches() on that family must be false at every instant.
  // under Miri (--only mirirace) the mutator is bounded by operations, not by time: Miri runs ~1000x slower and its
  // scheduler and weak-memory emulation, not the wall clock, provide the interleavings
  let miri_ops = if args.only.as_deref() == Some("mirirace") { Some(args.get_usize("ops", 40) as u64) } else { None };
  let rounds = if miri_ops.is_some() { args.get_usize("rounds", 2) } else if args.thorough() { 40 } else { 6 };
  for r in 0..rounds {
    let trie = Arc::new(Trie::new());
    trie.subscribe(b"ab");
    let stop = Arc::new(AtomicBool::new(false));
    let spurious = Arc::new(AtomicU64::new(0));
    let probes_done = Arc::new(AtomicU64::new(0));
    verif::set_perturbation(rng.next() | 1);
    let mut hs = vec![];
    for m in 0..3 {
      let trie = trie.clone();
      let stop = stop.clone();
      let spurious = spurious.clone();
      let probes_done = probes_done.clone();
      hs.push(std::thread::spawn(move || {
        let fam: [&[u8]; 3] = [b"ac", b"a", b"a\0zz"];
        let mut i = 0usize;
        while !stop.load(Ordering::Relaxed) {
          let t = fam[(i + m) % 3];
          if trie.matches(t) {
            spurious.fetch_add(1, Ordering::Relaxed);
          }
          // positive family: "ab..." must always match
          if !trie.matches(b"abX") {
            spurious.fetch_add(1 << 32, Ordering::Relaxed);
          }
          i += 1;
          probes_done.fetch_add(1, Ordering::Relaxed);
        }
      }));
    }
    let t0 = Instant::now();
    let mut ops = 0u64;
    while miri_ops.map_or(t0.elapsed() < Duration::from_millis(700), |m| ops < m) {
      trie.unsubscribe(b"a"); // never subscribed
      trie.subscribe(b"bq");
      trie.unsubscribe(b"bq");
      trie.unsubscribe(b"zz"); // path does not exist
      ops += 4;
    }
    stop.store(true, Ordering::Relaxed);
    for h in hs {
      let _ = h.join();
    }
    verif::set_perturbation(0);
    let s = spurious.load(Ordering::Relaxed);
    rep.case(&("race", r, ops), true);
    rep.count("race_matcher_probes", probes_done.load(Ordering::Relaxed));
    rep.count("race_mutator_ops", ops);
    if s & 0xFFFF_FFFF != 0 {
      rep.violation("transient_spurious_match".to_string(), format!("matches() returned true {} times for topics no subscription ever covered, while another thread unsubscribed a never-subscribed topic", s & 0xFFFF_FFFF), json!({"matcher_probes": probes_done.load(Ordering::Relaxed), "mutator_ops": ops, "family": ["ac", "a", "a\\0zz"], "mutator": "unsubscribe('a') [never subscribed] + subscribe/unsubscribe('bq') + unsubscribe('zz')"}));
    }
    if s >> 32 != 0 {
      rep.violation("transient_missing_match".to_string(), format!("matches('abX') returned false {} times although 'ab' stayed subscribed", s >> 32), json!({}));
    }
  }
  rep.sample(json!({"race_rounds": rounds, "threads": "3 matchers + 1 mutator, 700 ms each, perturbation on at trie.unsub.underflow_window"}));
}

// ---- end to end --------------------------------------------------------------------------------

async fn e2e_case(rep: &mut Report, rng: &mut Rng, tr: Transport, nsubs: usize) {
  let ctx = util::new_ctx();
  let publ = ctx.socket(SocketType::Pub).unwrap();
  let ep = match util::bind_fresh(&publ, tr).await {
    Ok(e) => e,
    Err(e) => {
      rep.inconclusive(format!("bind: {e}"));
      return;
    }
  };
  let mut subs = vec![];
  let mut models: Vec<BTreeMap<Vec<u8>, usize>> = vec![];
  for _ in 0..nsubs {
    let s = ctx.socket(SocketType::Sub).unwrap();
    util::set_i32(&s, opt::RCVTIMEO, 2500).await;
    if tr != Transport::Inproc {
      // a receive queue smaller than an arriving batch: the publisher's bursts (<= 26 messages, far below its
      // SNDHWM) must still arrive completely, held back only by back-pressure
      util::set_i32(&s, opt::RCVHWM, *rng.pick(&[1, 2, 3, 256, 256])).await;
    }
    s.set_option(opt::SUBSCRIBE, "~sentinel").await.unwrap();
    let mut m = BTreeMap::new();
    m.insert(b"~sentinel".to_vec(), 1usize);
    s.connect(&ep).await.unwrap();
    subs.push(s);
    models.push(m);
  }
  // wait until every subscriber receives a sentinel (connection + subscription established)
  for (i, s) in subs.iter().enumerate() {
    let mut ok = false;
    for _ in 0..40 {
      let _ = publ.send(util::msg(b"~sentinel-warmup".to_vec(), false)).await;
      if let Ok(Ok(_)) = tokio::time::timeout(Duration::from_millis(100), s.recv()).await {
        ok = true;
        break;
      }
    }
    if !ok {
      rep.inconclusive(format!("subscriber {} never saw the warm-up sentinel over {}", i, tr.name()));
      let _ = tokio::time::timeout(Duration::from_secs(12), ctx.term()).await;
      return;
    }
  }
  // drain residual warm-ups
  for s in &subs {
    while let Ok(Ok(_)) = tokio::time::timeout(Duration::from_millis(60), s.recv_multipart()).await {}
  }
  let topics: Vec<Vec<u8>> = vec![b"".to_vec(), b"a".to_vec(), b"ab".to_vec(), b"abc".to_vec(), b"b".to_vec(), vec![0u8], vec![0xFF, 0x00], b"weather/".to_vec()];
  let rounds = rng.range(2, 4);
  let mut seq = 0u32;
  for round in 0..rounds {
    // subscription changes at a quiescent point
    let mut changes: Vec<String> = vec![];
    for (i, s) in subs.iter().enumerate() {
      for _ in 0..rng.range(0, 3) {
        let t = rng.pick(&topics).clone();
        if rng.chance(3, 5) {
          s.set_option_raw(opt::SUBSCRIBE, &t).await.unwrap();
          *models[i].entry(t.clone()).or_insert(0) += 1;
          changes.push(format!("s{} sub {}", i, hex(&t)));
        } else {
          let _ = s.set_option_raw(opt::UNSUBSCRIBE, &t).await;
          if let Some(n) = models[i].get_mut(&t) {
            if *n > 0 {
              *n -= 1;
            }
          }
          changes.push(format!("s{} unsub {}", i, hex(&t)));
        }
      }
    }
    // publish a burst
    let mut published: Vec<Vec<Vec<u8>>> = vec![];
    for _ in 0..rng.range(5, 25) {
      let mut first = rng.pick(&topics).clone();
      first.extend(format!("#{}", seq).into_bytes());
      seq += 1;
      let m: Vec<Vec<u8>> = if rng.chance(1, 3) {
        // multipart: later frames look like topics but must not be used for filtering
        vec![first, b"~sentinel-not-a-topic".to_vec(), rng.bytes_in(0, 300)]
      } else {
        vec![first]
      };
      let msgs: Vec<rzmq::Msg> = m.iter().enumerate().map(|(i, f)| util::msg(f.clone(), i + 1 < m.len())).collect();
      let r = if msgs.len() == 1 { publ.send(msgs.into_iter().next().unwrap()).await } else { publ.send_multipart(msgs).await };
      if r.is_ok() {
        published.push(m);
      }
    }
    let end_mark = format!("~sentinel-end-{}", round).into_bytes();
    let _ = publ.send(util::msg(end_mark.clone(), false)).await;
    // each subscriber reads until its end mark
    for (i, s) in subs.iter().enumerate() {
      let mut got: Vec<Vec<Vec<u8>>> = vec![];
      let mut complete = false;
      for _ in 0..400 {
        match s.recv_multipart().await {
          Ok(m) => {
            let m: Vec<Vec<u8>> = m.into_iter().map(|f| f.data().unwrap_or(&[]).to_vec()).collect();
            if m.len() == 1 && m[0] == end_mark {
              complete = true;
              break;
            }
            got.push(m);
          }
          Err(_) => break,
        }
      }
      let want: Vec<Vec<Vec<u8>>> = published.iter().filter(|m| ref_matches(&models[i], &m[0])).cloned().collect();
      rep.case(&("e2e", tr, nsubs, round, i, &changes, published.len()), true);
      if !complete {
        rep.violation(format!("sub_lost_sentinel|{}", tr.name()), format!("subscriber {} over {} never received the always-subscribed end sentinel of round {}", i, tr.name(), round), json!({"changes": changes, "received": got.len()}));
        continue;
      }
      if got != want {
        let extra = got.iter().filter(|m| !want.contains(m)).count();
        let missing = want.iter().filter(|m| !got.contains(m)).count();
        let kind = if extra > 0 { "sub_delivered_non_matching" } else if missing > 0 { "sub_missed_matching" } else { "sub_order_or_duplicates" };
        rep.violation(
          format!("{}|{}", kind, tr.name()),
          format!("subscriber {} over {}: received {} messages, expected {} ({} unexpected, {} missing) with subscriptions {:?}", i, tr.name(), got.len(), want.len(), extra, missing, models[i].iter().filter(|(_, n)| **n > 0).map(|(k, n)| format!("{}x{}", hex(k), n)).collect::<Vec<_>>()),
          json!({"changes": changes, "first_unexpected": got.iter().find(|m| !want.contains(m)).map(|m| hex(&m[0])), "first_missing": want.iter().find(|m| !got.contains(m)).map(|m| hex(&m[0]))}),
        );
      }
    }
  }
  let _ = tokio::time::timeout(Duration::from_secs(12), ctx.term()).await;
}


// ---- announce: a publisher that filters (libzmq's PUB) -------------------------------------------
//
// rzmq's own PUB broadcasts and lets the SUB filter, so between two rzmq sockets a subscription that was never
// announced goes unnoticed. A publisher that filters at the source (libzmq's PUB, the usual peer) sends only
// what the subscriber ANNOUNCED on that connection — there "delivers a message iff an active subscription matches"
// holds only if every active subscription reached every publisher: the ones made before the connection existed, the
// ones made after, and all of them again after a reconnect. The raw publisher below keeps the announced set the way
// libzmq does (per connection, last announcement for a topic wins), publishes probe messages filtered by it and the
// oracle is the usual one: the SUB must hand the application exactly the probes its model subscriptions match.

struct RawPub {
  stream: RawStream,
  inbuf: Vec<u8>,
  greeted: bool,
  ready_seen: bool,
  view: std::collections::BTreeSet<Vec<u8>>,
  announcements: usize,
  eof: bool,
}

impl RawPub {
  async fn accept(lst: &RawListener, dur: Duration) -> Option<RawPub> {
    let mut stream = tokio::time::timeout(dur, lst.accept()).await.ok()?.ok()?;
    let mut w = refzmtp::greeting_v3(0, "NULL", false);
    refzmtp::encode_frame(&refzmtp::ready("PUB", None), &mut w);
    stream.write_all(&w).await.ok()?;
    Some(RawPub { stream, inbuf: vec![], greeted: false, ready_seen: false, view: Default::default(), announcements: 0, eof: false })
  }
  fn absorb(&mut self) {
    if !self.greeted {
      if self.inbuf.len() < 64 {
        return;
      }
      self.inbuf.drain(..64);
      self.greeted = true;
    }
    let (frames, used) = refzmtp::decode_all(&self.inbuf);
    self.inbuf.drain(..used);
    for f in frames {
      if f.command {
        match refzmtp::parse_command(&f.body) {
          Some((n, _)) if n == "READY" => self.ready_seen = true,
          Some((n, d)) if n == "SUBSCRIBE" => {
            self.view.insert(d);
            self.announcements += 1;
          }
          Some((n, d)) if n == "CANCEL" => {
            self.view.remove(&d);
            self.announcements += 1;
          }
          _ => {}
        }
      } else if !f.more && !f.body.is_empty() && f.body[0] <= 1 {
        if f.body[0] == 1 {
          self.view.insert(f.body[1..].to_vec());
        } else {
          self.view.remove(&f.body[1..]);
        }
        self.announcements += 1;
      }
    }
  }
  /// read until `want` is the announced set (or the time is up); true if it is
  async fn settle(&mut self, want: &std::collections::BTreeSet<Vec<u8>>, dur: Duration) -> bool {
    let end = Instant::now() + dur;
    loop {
      if self.ready_seen && &self.view == want {
        // one more short read: an announcement still in flight would change the view again
        let (b, eof) = self.stream.read_for(Duration::from_millis(40), 0).await;
        self.eof |= eof;
        self.inbuf.extend(b);
        self.absorb();
        if &self.view == want {
          return true;
        }
      }
      if Instant::now() >= end || self.eof {
        return self.ready_seen && &self.view == want;
      }
      let (b, eof) = self.stream.read_for(Duration::from_millis(50), 1).await;
      self.eof |= eof;
      self.inbuf.extend(b);
      self.absorb();
    }
  }
  fn would_send(&self, first: &[u8]) -> bool {
    self.view.iter().any(|t| first.starts_with(t))
  }
}

async fn announce_case(rep: &mut Report, rng: &mut Rng, tr: Transport, case_no: usize) {
  let ctx = util::new_ctx();
  let sub = ctx.socket(SocketType::Sub).unwrap();
  util::set_i32(&sub, opt::RCVTIMEO, 400).await;
  util::set_i32(&sub, opt::RECONNECT_IVL, 40).await;
  let topics: Vec<Vec<u8>> = vec![b"".to_vec(), b"a".to_vec(), b"ab".to_vec(), b"abc".to_vec(), b"b".to_vec(), vec![0u8], vec![0xFF, 0x00], b"weather/".to_vec(), vec![0x01, b'x']];
  let mut model: BTreeMap<Vec<u8>, usize> = BTreeMap::new();
  let mut log: Vec<String> = vec![];
  let mk_listener = |i: usize| {
    let tr = tr;
    async move {
      match tr {
        Transport::Ipc => RawListener::bind_unix(&format!("{}/c12ann-{}-{}-{}.sock", util::ipc_dir(), std::process::id(), case_no, i)).await,
        _ => RawListener::bind_tcp().await,
      }
    }
  };
  // a publisher is one listener; its current connection (if any) carries the announced view
  let mut listeners: Vec<(RawListener, String)> = vec![];
  let mut conns: Vec<Option<RawPub>> = vec![];
  let mut seq = 0u32;
  let steps = rng.range(10, 18);
  let mut verified = 0usize;
  for step in 0..steps {
    // --- one event
    let r = rng.range(0, 100);
    if listeners.is_empty() && step >= 2 || (r < 12 && listeners.len() < 3) {
      // a publisher appears late: the subscriptions made so far must be announced to it
      let Ok((l, ep)) = mk_listener(listeners.len()).await else {
        rep.inconclusive("raw listener".to_string());
        break;
      };
      let _ = sub.connect(&ep).await;
      let c = RawPub::accept(&l, util::scaled(Duration::from_secs(3))).await;
      if c.is_none() {
        rep.inconclusive(format!("the SUB never connected to publisher {} over {}", listeners.len(), tr.name()));
        break;
      }
      log.push(format!("publisher {} attached", listeners.len()));
      listeners.push((l, ep));
      conns.push(c);
    } else if r < 24 && !conns.is_empty() {
      // a publisher loses its connection: the SUB reconnects and must announce everything again
      let i = rng.range(0, conns.len() - 1);
      if let Some(c) = conns[i].take() {
        c.stream.set_linger0();
        drop(c);
      }
      let c = RawPub::accept(&listeners[i].0, util::scaled(Duration::from_secs(4))).await;
      if c.is_none() {
        rep.inconclusive(format!("the SUB did not reconnect to publisher {} over {} within 4 s", i, tr.name()));
        break;
      }
      log.push(format!("publisher {} connection reset, reconnected", i));
      conns[i] = c;
    } else {
      let t = rng.pick(&topics).clone();
      if rng.chance(3, 5) {
        sub.set_option_raw(opt::SUBSCRIBE, &t).await.unwrap();
        *model.entry(t.clone()).or_insert(0) += 1;
        log.push(format!("sub {}", hex(&t)));
      } else {
        let _ = sub.set_option_raw(opt::UNSUBSCRIBE, &t).await;
        if let Some(n) = model.get_mut(&t) {
          *n = n.saturating_sub(1);
        }
        log.push(format!("unsub {}", hex(&t)));
      }
    }
    if conns.is_empty() {
      continue;
    }
    // --- quiescent point: every publisher's announced view against the model, then a filtered burst
    let want: std::collections::BTreeSet<Vec<u8>> = model.iter().filter(|(_, n)| **n > 0).map(|(k, _)| k.clone()).collect();
    let mut views_ok = true;
    for (i, c) in conns.iter_mut().enumerate() {
      let Some(c) = c else { continue };
      let ok = c.settle(&want, util::scaled(Duration::from_millis(1500))).await;
      rep.case(&("announce", tr, step, i, &want, c.announcements), true);
      if !ok {
        views_ok = false;
        let missing: Vec<String> = want.iter().filter(|t| !c.view.contains(*t)).map(|t| hex(t)).collect();
        let stale: Vec<String> = c.view.iter().filter(|t| !want.contains(*t)).map(|t| hex(t)).collect();
        if c.eof || !c.ready_seen {
          rep.inconclusive(format!("publisher {}: connection ended or no READY (eof={}, ready={})", i, c.eof, c.ready_seen));
        } else if !missing.is_empty() {
          rep.violation(
            format!("subscription_not_announced|{}", tr.name()),
            format!("a filtering publisher ({} of {}, over {}) was not told about active subscription(s) {:?} within 1.5 s of the last change: it will never send what they match", i, listeners.len(), tr.name(), missing),
            json!({"history": log, "announced": c.view.iter().map(|t| hex(t)).collect::<Vec<_>>(), "active": want.iter().map(|t| hex(t)).collect::<Vec<_>>()}),
          );
        } else {
          // only wasteful: the SUB filters what it does not want. Recorded, not judged.
          rep.sample(json!({"stale_announcement": stale, "publisher": i, "transport": tr.name()}));
        }
      }
    }
    if !views_ok {
      break;
    }
    // burst from each publisher, filtered by ITS view; the SUB must deliver exactly what the model matches
    let mut want_msgs: Vec<Vec<u8>> = vec![];
    for (i, c) in conns.iter_mut().enumerate() {
      let Some(c) = c else { continue };
      let mut out = vec![];
      for _ in 0..rng.range(3, 9) {
        let mut first = rng.pick(&topics).clone();
        first.extend(format!("#p{}#{}", i, seq).into_bytes());
        seq += 1;
        if c.would_send(&first) {
          out.extend(refzmtp::message(&[&first]));
        }
        if ref_matches(&model, &first) {
          want_msgs.push(first);
        }
      }
      let _ = c.stream.write_all(&out).await;
    }
    let mut got: Vec<Vec<u8>> = vec![];
    while got.len() < want_msgs.len() {
      match tokio::time::timeout(util::scaled(Duration::from_millis(1200)), sub.recv()).await {
        Ok(Ok(m)) => got.push(m.data().unwrap_or(&[]).to_vec()),
        _ => break,
      }
    }
    // anything beyond the expected ones?
    while let Ok(Ok(m)) = tokio::time::timeout(Duration::from_millis(60), sub.recv()).await {
      got.push(m.data().unwrap_or(&[]).to_vec());
    }
    let mut g = got.clone();
    let mut w = want_msgs.clone();
    g.sort();
    w.sort();
    verified += 1;
    if g != w {
      let missing: Vec<String> = w.iter().filter(|m| !g.contains(m)).map(|m| hex(m)).collect();
      let extra: Vec<String> = g.iter().filter(|m| !w.contains(m)).map(|m| hex(m)).collect();
      rep.violation(
        format!("{}|filtering_publisher|{}", if !extra.is_empty() { "sub_delivered_non_matching" } else { "sub_missed_matching" }, tr.name()),
        format!("SUB over {} with {} filtering publisher(s): delivered {} of {} matching probes ({} unexpected)", tr.name(), listeners.len(), g.len() - extra.len(), w.len(), extra.len()),
        json!({"history": log, "missing": missing, "unexpected": extra}),
      );
      break;
    }
  }
  rep.sample(json!({"announce_case": case_no, "transport": tr.name(), "publishers": listeners.len(), "quiescent_points_verified": verified, "events": log.len()}));
  drop(conns);
  let _ = tokio::time::timeout(Duration::from_secs(12), ctx.term()).await;
}

/// Contention: several tasks publish, several tasks recv() on the SAME Sub handle, several tasks churn
/// subscriptions on it. Stable topics are always subscribed and the queues are larger than the traffic, so each
/// stable message must arrive exactly once; topics of a never-subscribed family must never arrive; churned topics
/// may or may not (not judged). Mainly a target for the thread/address sanitizer flavours.
async fn contend_case(rep: &mut Report, rng: &mut Rng, tr: Transport, receivers: usize, churners: usize, publishers: usize, per_pub: usize) {
  let ctx = util::new_ctx();
  let publ = ctx.socket(SocketType::Pub).unwrap();
  util::set_i32(&publ, opt::SNDHWM, 100_000).await;
  let ep = match util::bind_fresh(&publ, tr).await {
    Ok(e) => e,
    Err(e) => {
      rep.inconclusive(format!("bind: {e}"));
      return;
    }
  };
  let sub = ctx.socket(SocketType::Sub).unwrap();
  util::set_i32(&sub, opt::RCVHWM, 100_000).await;
  util::set_i32(&sub, opt::RCVTIMEO, 300).await;
  for p in 0..publishers {
    sub.set_option(opt::SUBSCRIBE, format!("stable/{}/", p).as_str()).await.unwrap();
  }
  sub.set_option(opt::SUBSCRIBE, "~warm").await.unwrap();
  let debug = std::env::var("VH_DEBUG").is_ok();
  if debug {
    let mon_s = sub.monitor(4096).await.unwrap();
    let mon_p = publ.monitor(4096).await.unwrap();
    let t0 = Instant::now();
    tokio::spawn(async move {
      while let Ok(ev) = mon_s.recv().await {
        eprintln!("  [{:?}] SUB event {:?}", t0.elapsed(), ev);
      }
    });
    tokio::spawn(async move {
      while let Ok(ev) = mon_p.recv().await {
        eprintln!("  [{:?}] PUB event {:?}", t0.elapsed(), ev);
      }
    });
  }
  sub.connect(&ep).await.unwrap();
  let mut ok = false;
  for _ in 0..400 {
    let _ = publ.send(util::msg(b"~warm".to_vec(), false)).await;
    if let Ok(Ok(_)) = tokio::time::timeout(Duration::from_millis(100), sub.recv()).await {
      ok = true;
      break;
    }
  }
  if !ok {
    rep.inconclusive(format!("contend: subscriber never saw the warm-up over {}", tr.name()));
    let _ = tokio::time::timeout(Duration::from_secs(12), ctx.term()).await;
    return;
  }
  let _ = sub.set_option(opt::UNSUBSCRIBE, "~warm").await;
  while let Ok(Ok(_)) = tokio::time::timeout(Duration::from_millis(80), sub.recv()).await {}
  let stop = Arc::new(AtomicBool::new(false));
  let mut churn_handles = vec![];
  for c in 0..churners {
    let sub = sub.clone();
    let stop = stop.clone();
    churn_handles.push(tokio::spawn(async move {
      let mut i = 0u64;
      while !stop.load(Ordering::Relaxed) {
        let t = format!("churn/{}/{}", c, i % 7);
        let _ = sub.set_option(opt::SUBSCRIBE, t.as_str()).await;
        // a topic nobody subscribed: must change nothing
        let _ = sub.set_option(opt::UNSUBSCRIBE, format!("never/{}", i % 3).as_str()).await;
        let _ = sub.set_option(opt::UNSUBSCRIBE, t.as_str()).await;
        i += 1;
      }
      i
    }));
  }
  // Receivers stop on a logical condition: every publisher's END marker (an always-subscribed topic, sent last,
  // so per-publisher FIFO puts it after all of that publisher's messages) has been seen by some receiver, and the
  // queue has then stayed empty for one RCVTIMEO. A generous watchdog only turns the case into "inconclusive".
  let ends_seen = Arc::new(AtomicU64::new(0));
  let gave_up = Arc::new(AtomicBool::new(false));
  let mut recv_handles = vec![];
  for _ in 0..receivers {
    let sub = sub.clone();
    let ends_seen = ends_seen.clone();
    let gave_up = gave_up.clone();
    let want_ends = publishers as u64;
    recv_handles.push(tokio::spawn(async move {
      let mut got: Vec<Vec<u8>> = vec![];
      let started = Instant::now();
      loop {
        match sub.recv().await {
          Ok(m) => {
            let d = m.data().unwrap_or(&[]).to_vec();
            if d.ends_with(b"/END") {
              ends_seen.fetch_add(1, Ordering::SeqCst);
            } else {
              got.push(d);
            }
          }
          Err(_) => {
            if ends_seen.load(Ordering::SeqCst) >= want_ends {
              break;
            }
            if started.elapsed() > Duration::from_secs(120) {
              gave_up.store(true, Ordering::SeqCst);
              break;
            }
          }
        }
      }
      got
    }));
  }
  let mut pub_handles = vec![];
  for p in 0..publishers {
    let publ = publ.clone();
    let seed = rng.next();
    pub_handles.push(tokio::spawn(async move {
      let mut r = Rng::new(seed);
      let mut sent_ok = 0usize;
      for i in 0..per_pub {
        if publ.send(util::msg(format!("stable/{}/{}", p, i).into_bytes(), false)).await.is_ok() {
          sent_ok += 1;
        }
        let _ = publ.send(util::msg(format!("churn/{}/{}", r.range(0, 4), r.range(0, 7)).into_bytes(), false)).await;
        let _ = publ.send(util::msg(format!("never/{}", r.range(0, 3)).into_bytes(), false)).await;
        if r.chance(1, 8) {
          tokio::task::yield_now().await;
        }
      }
      let mut end_ok = false;
      for _ in 0..50 {
        if publ.send(util::msg(format!("stable/{}/END", p).into_bytes(), false)).await.is_ok() {
          end_ok = true;
          break;
        }
      }
      if end_ok { sent_ok } else { 0 }
    }));
  }
  let t0 = Instant::now();
  let mut sent: Vec<usize> = vec![];
  for h in pub_handles {
    sent.push(h.await.unwrap_or(0));
  }
  let t_pub = t0.elapsed();
  // keep churning until the END markers are through (or the receivers' watchdog gives up)
  let wait0 = Instant::now();
  while ends_seen.load(Ordering::SeqCst) < publishers as u64 && !gave_up.load(Ordering::SeqCst) && wait0.elapsed() < Duration::from_secs(125) {
    tokio::time::sleep(Duration::from_millis(20)).await;
  }
  stop.store(true, Ordering::Relaxed);
  if std::env::var("VH_DEBUG").is_ok() {
    eprintln!("contend {} rx={} ch={} pubs={} per_pub={}: publishers done after {:?} sent={:?}", tr.name(), receivers, churners, publishers, per_pub, t_pub, sent);
  }
  let mut churn_ops = 0u64;
  for h in churn_handles {
    churn_ops += h.await.unwrap_or(0);
  }
  let mut all: Vec<Vec<u8>> = vec![];
  let mut per_receiver: Vec<Vec<Vec<u8>>> = vec![];
  for h in recv_handles {
    match tokio::time::timeout(Duration::from_secs(130), h).await {
      Ok(Ok(g)) => {
        all.extend(g.iter().cloned());
        per_receiver.push(g);
      }
      _ => {
        rep.inconclusive("contend: a receiver task did not finish".to_string());
      }
    }
  }
  if gave_up.load(Ordering::SeqCst) || ends_seen.load(Ordering::SeqCst) < publishers as u64 {
    rep.inconclusive(format!("contend: only {} of {} END markers arrived within the 120 s watchdog over {} ({} messages received): slow or lost cannot be told apart", ends_seen.load(Ordering::SeqCst), publishers, tr.name(), all.len()));
    let _ = tokio::time::timeout(Duration::from_secs(12), ctx.term()).await;
    return;
  }
  rep.case(&("contend", tr, receivers, churners, publishers, per_pub, all.len() as u64, churn_ops), true);
  let label = format!("{}|rx={}", tr.name(), if receivers == 1 { "1" } else { "n" });
  let mut counts: BTreeMap<Vec<u8>, usize> = BTreeMap::new();
  for m in &all {
    *counts.entry(m.clone()).or_insert(0) += 1;
  }
  let never = all.iter().filter(|m| m.starts_with(b"never/")).count();
  if never > 0 {
    rep.violation(format!("contend_delivered_never_subscribed|{}", label), format!("{} messages of the never-subscribed family were delivered while other topics were being churned ({} churn rounds)", never, churn_ops), json!({"receivers": receivers, "churners": churners}));
  }
  let mut missing = 0usize;
  let mut dup = 0usize;
  let mut first_missing = None;
  for p in 0..publishers {
    if sent[p] != per_pub {
      rep.inconclusive(format!("contend: publisher {} had {} of {} sends accepted", p, sent[p], per_pub));
      continue;
    }
    for i in 0..per_pub {
      match counts.get(format!("stable/{}/{}", p, i).as_bytes()) {
        None => {
          missing += 1;
          first_missing.get_or_insert((p, i));
        }
        Some(1) => {}
        Some(_) => dup += 1,
      }
    }
  }
  if missing > 0 || dup > 0 {
    rep.violation(
      format!("contend_stable_{}|{}", if dup > 0 { "duplicated" } else { "missing" }, label),
      format!("always-subscribed topics with queues larger than the traffic: {} missing, {} duplicated of {} (receivers={} churners={} over {})", missing, dup, publishers * per_pub, receivers, churners, tr.name()),
      json!({"first_missing": first_missing.map(|(p, i)| format!("stable/{}/{}", p, i)), "received_total": all.len()}),
    );
  }
  if receivers == 1 {
    // one receiver task: per-publisher publication order must be preserved
    let mut last: BTreeMap<usize, i64> = BTreeMap::new();
    for m in &per_receiver[0] {
      if let Some(rest) = m.strip_prefix(b"stable/") {
        let t = String::from_utf8_lossy(rest).to_string();
        let mut it = t.split('/');
        let (p, i) = (it.next().and_then(|x| x.parse::<usize>().ok()).unwrap_or(0), it.next().and_then(|x| x.parse::<i64>().ok()).unwrap_or(-1));
        let l = last.entry(p).or_insert(-1);
        if i <= *l {
          rep.violation(format!("contend_order|{}", label), format!("publisher {}: message {} delivered after {}", p, i, *l), json!({}));
          break;
        }
        *l = i;
      }
    }
  }
  let _ = tokio::time::timeout(Duration::from_secs(12), ctx.term()).await;
}

/// A publisher with subscribers of which some handshake and then never read.
async fn stall_case(rep: &mut Report, stalled: usize, vanish: bool) {
  let ctx = util::new_ctx();
  let publ = ctx.socket(SocketType::Pub).unwrap();
  util::set_i32(&publ, opt::SNDHWM, 4).await;
  let ep = util::bind_fresh(&publ, Transport::Tcp).await.unwrap();
  let good = ctx.socket(SocketType::Sub).unwrap();
  util::set_i32(&good, opt::RCVTIMEO, 3000).await;
  util::set_i32(&good, opt::RCVHWM, 10000).await;
  good.set_option(opt::SUBSCRIBE, "").await.unwrap();
  good.connect(&ep).await.unwrap();
  // stalled raw subscribers: complete the handshake, then stop reading (tiny receive window)
  let mut raws = vec![];
  for _ in 0..stalled {
    if let Ok(mut r) = RawStream::connect(&ep).await {
      let _ = r.write_all(&refzmtp::null_client_handshake("SUB", None)).await;
      let _ = r.read_for(Duration::from_millis(200), 64).await;
      raws.push(r);
    }
  }
  // warm up the good subscriber
  let mut warm = false;
  for _ in 0..40 {
    let _ = publ.send(util::msg(b"warm".to_vec(), false)).await;
    if let Ok(Ok(_)) = tokio::time::timeout(Duration::from_millis(100), good.recv()).await {
      warm = true;
      break;
    }
  }
  if !warm {
    rep.inconclusive("good subscriber never warmed up".to_string());
    return;
  }
  while let Ok(Ok(_)) = tokio::time::timeout(Duration::from_millis(60), good.recv()).await {}
  if vanish {
    for r in raws.iter() {
      r.set_linger0();
    }
    raws.clear();
  }
  // publish 64 KiB messages until the stalled peers' kernel buffers and pipes are full
  let n = 300u32;
  let mut slowest = Duration::ZERO;
  let mut blocked_at = None;
  let reader = {
    let good = good.clone();
    tokio::spawn(async move {
      let mut seqs: Vec<u32> = vec![];
      while let Ok(m) = good.recv().await {
        let d = m.data().unwrap_or(&[]);
        if d.len() >= 4 {
          seqs.push(u32::from_be_bytes([d[0], d[1], d[2], d[3]]));
        }
        if seqs.last() == Some(&(n - 1)) {
          break;
        }
      }
      seqs
    })
  };
  for i in 0..n {
    let mut body = i.to_be_bytes().to_vec();
    body.resize(64 * 1024, 0x55);
    let t0 = Instant::now();
    let r = tokio::time::timeout(Duration::from_secs(4), publ.send(util::msg(body, false))).await;
    let el = t0.elapsed();
    slowest = slowest.max(el);
    if r.is_err() || el > Duration::from_secs(1) {
      blocked_at = Some((i, el));
      break;
    }
  }
  rep.case(&("stall", stalled, vanish), true);
  rep.max("max:slowest_publisher_send_ms", slowest.as_millis() as u64);
  let sig_mode = if vanish { "vanished" } else { "stalled" };
  if let Some((i, el)) = blocked_at {
    rep.violation(
      format!("publisher_blocked_by_{}_subscriber", sig_mode),
      format!("PUB send() #{} took {:?} (>1 s) with {} {} subscriber(s) among its peers and SNDHWM=4", i, el, stalled, sig_mode),
      json!({"stalled_subscribers": stalled, "vanished": vanish, "message_index": i, "elapsed_ms": el.as_millis() as u64}),
    );
    reader.abort();
  } else {
    match tokio::time::timeout(Duration::from_secs(8), reader).await {
      Ok(Ok(seqs)) => {
        let ordered = seqs.windows(2).all(|w| w[0] < w[1]);
        if !ordered {
          rep.violation("sub_order_or_duplicates|stall".to_string(), "the reading subscriber saw publications out of order / duplicated while another subscriber stalled".to_string(), json!({"head": seqs.iter().take(20).collect::<Vec<_>>()}));
        }
        rep.max("max:good_subscriber_received", seqs.len() as u64);
      }
      _ => rep.violation(format!("reading_subscriber_starved_by_{}_subscriber", sig_mode), "the reading subscriber did not receive the last publication within 8 s".to_string(), json!({})),
    }
  }
  drop(raws);
  let _ = tokio::time::timeout(Duration::from_secs(12), ctx.term()).await;
}

/// (resume) a real SUB that stalls for a while (RCVHWM 2, not reading) so that the PUB's sends towards it expire
/// (finite SNDTIMEO) or are dropped, then reads again: dropping for a subscriber that cannot keep up is PUB's right,
/// but once it reads again - still connected, still subscribed - it must receive what is published from then on,
/// and a subscriber that kept up must have received everything, in order, throughout.
async fn resume_case(rep: &mut Report, tr: Transport, sndtimeo_ms: i32) {
  let ctx = util::new_ctx();
  let publ = ctx.socket(SocketType::Pub).unwrap();
  util::set_i32(&publ, opt::SNDTIMEO, sndtimeo_ms).await;
  util::set_i32(&publ, opt::SNDHWM, 4).await;
  let ep = match util::bind_fresh(&publ, tr).await {
    Ok(e) => e,
    Err(e) => {
      rep.inconclusive(format!("bind {e}"));
      return;
    }
  };
  let mk_sub = |hwm: i32| {
    let ctx = ctx.clone();
    let ep = ep.clone();
    async move {
      let s = ctx.socket(SocketType::Sub).unwrap();
      util::set_i32(&s, opt::RCVHWM, hwm).await;
      util::set_i32(&s, opt::RCVTIMEO, 400).await;
      s.set_option(opt::SUBSCRIBE, "t").await.unwrap();
      let _ = s.connect(&ep).await;
      s
    }
  };
  let slow = mk_sub(2).await;
  let fast = mk_sub(10_000).await;
  // both subscriptions live?
  let mut live = (false, false);
  for k in 0..60 {
    let _ = publ.send(util::msg(format!("t-warm-{}", k).into_bytes(), false)).await;
    if !live.0 {
      live.0 = tokio::time::timeout(Duration::from_millis(60), slow.recv()).await.map_or(false, |r| r.is_ok());
    }
    if !live.1 {
      live.1 = tokio::time::timeout(Duration::from_millis(60), fast.recv()).await.map_or(false, |r| r.is_ok());
    }
    if live.0 && live.1 {
      break;
    }
  }
  if !(live.0 && live.1) {
    rep.inconclusive(format!("resume: subscriptions did not become live over {}", tr.name()));
    let _ = tokio::time::timeout(Duration::from_secs(10), ctx.term()).await;
    return;
  }
  // drain warm-up leftovers
  while let Ok(Ok(_)) = tokio::time::timeout(Duration::from_millis(100), slow.recv()).await {}
  while let Ok(Ok(_)) = tokio::time::timeout(Duration::from_millis(100), fast.recv()).await {}
  // the subscriber that keeps up reads all the time
  let publishing_over = Arc::new(AtomicBool::new(false));
  let fast_reader = {
    let f = fast.clone();
    let over = publishing_over.clone();
    tokio::spawn(async move {
      let mut got: Vec<Vec<u8>> = vec![];
      let mut idle = 0;
      let t = Instant::now();
      // silence only counts once the publisher has finished
      while idle < 3 && t.elapsed() < Duration::from_secs(120) {
        match f.recv().await {
          Ok(m) => {
            idle = 0;
            got.push(m.data().unwrap_or(&[]).to_vec());
          }
          Err(_) => {
            if over.load(Ordering::SeqCst) {
              idle += 1;
            }
          }
        }
      }
      got
    })
  };
  // phase 1: the slow subscriber does not read; publish a burst (64 KiB each over stream transports so that kernel buffers fill)
  let big = if tr == Transport::Inproc { 100 } else { 64 * 1024 };
  let mut published: Vec<Vec<u8>> = vec![];
  let mut slowest = Duration::ZERO;
  for k in 0..60 {
    let mut body = format!("t-burst-{:03}-", k).into_bytes();
    body.resize(big, b'.');
    let t = Instant::now();
    let _ = publ.send(util::msg(body.clone(), false)).await;
    slowest = slowest.max(t.elapsed());
    published.push(body);
  }
  // phase 2: it reads again
  let mut slow_burst = 0;
  while let Ok(Ok(_)) = tokio::time::timeout(Duration::from_millis(300), slow.recv()).await {
    slow_burst += 1;
  }
  // phase 3: ten more, one at a time, with the slow subscriber reading
  let mut slow_after = 0;
  for k in 0..10 {
    let body = format!("t-after-{:02}", k).into_bytes();
    let _ = publ.send(util::msg(body.clone(), false)).await;
    published.push(body.clone());
    if let Ok(Ok(m)) = tokio::time::timeout(util::scaled(Duration::from_millis(800)), slow.recv()).await {
      if m.data() == Some(&body[..]) {
        slow_after += 1;
      }
    }
  }
  // the subscriber that kept up
  publishing_over.store(true, Ordering::SeqCst);
  let fast_got: Vec<Vec<u8>> = tokio::time::timeout(Duration::from_secs(30), fast_reader).await.ok().and_then(|x| x.ok()).unwrap_or_default();
  rep.case(&("resume", tr, sndtimeo_ms), true);
  rep.count("resume_slow_subscriber_got_of_burst", slow_burst);
  rep.max("max:resume_slowest_publish_ms", slowest.as_millis() as u64);
  let cfg = format!("PUB (SNDTIMEO {} ms, SNDHWM 4) over {} with a SUB that stalls (RCVHWM 2) during a burst of 60 and then reads again, and a SUB that keeps up", sndtimeo_ms, tr.name());
  // (a message published while the subscriber's pipe is momentarily full may legitimately be dropped - all the more
  // on an oversubscribed machine - so "most of the ten" is demanded, not all; the defect looked for delivers none)
  if slow_after < 5 {
    rep.violation(format!("subscriber_cut_off_after_stall|{}", if tr == Transport::Inproc { "inproc" } else { "stream" }), format!("{}: after it resumed reading the stalled subscriber received only {} of 10 newly published matching messages ({} of the burst)", cfg, slow_after, slow_burst), json!({"config": cfg, "after": slow_after, "of_burst": slow_burst}));
  }
  // PUB may drop for a subscriber whose pipe is momentarily full, so "everything" is not demanded of the burst; but
  // what the reading subscriber gets must be an in-order subsequence of what was published (nothing foreign, nothing
  // twice, nothing reordered) and must include the ten messages published one at a time at the end
  let mut pos = 0usize;
  let mut bad: Option<String> = None;
  for g in &fast_got {
    match published[pos..].iter().position(|p| p == g) {
      Some(k) => pos += k + 1,
      None => {
        bad = Some(format!("message {:?} is foreign, duplicated or out of order", String::from_utf8_lossy(&g[..g.len().min(16)])));
        break;
      }
    }
  }
  let fast_after = fast_got.iter().filter(|g| g.starts_with(b"t-after-")).count();
  rep.count("resume_reading_subscriber_got", fast_got.len() as u64);
  if bad.is_some() || fast_after < 5 {
    rep.violation(format!("reading_subscriber_stream_wrong|{}", if tr == Transport::Inproc { "inproc" } else { "stream" }), format!("{}: the subscriber that read all the time received {} of {} messages, {} of the last 10; {}", cfg, fast_got.len(), published.len(), fast_after, bad.unwrap_or_default()), json!({"config": cfg}));
  }
  let _ = tokio::time::timeout(Duration::from_secs(10), ctx.term()).await;
}

fn main() {
  let args = Args::parse();
  util::install_panic_watch();
  let mut rep = Report::new("C12", &args.shard_name());
  let mut rng = Rng::new(args.seed.wrapping_mul(122949829).wrapping_add(args.shard as u64));
  match args.only.as_deref() {
    Some("race") | Some("mirirace") => race_layer(&mut rep, &args, &mut rng),
    Some("e2e") => {
      let rt = util::runtime(2);
      let n = if args.thorough() { 24 } else { 6 };
      for i in 0..n {
        if !args.mine(i) {
          continue;
        }
        let tr = [Transport::Tcp, Transport::Inproc, Transport::Ipc][i % 3];
        rt.block_on(e2e_case(&mut rep, &mut rng, tr, 1 + i % 3));
      }
      util::cleanup_ipc_dir();
    }
    Some("contend") if std::env::var("VH_CONTEND").is_ok() => {
      // debugging aid: VH_CONTEND=tr,receivers,churners,publishers,per_pub,repeats
      let v: Vec<usize> = std::env::var("VH_CONTEND").unwrap().split(',').map(|x| x.parse().unwrap_or(0)).collect();
      let rt = util::runtime(4);
      for _ in 0..v[5] {
        let tr = [Transport::Tcp, Transport::Inproc, Transport::Ipc][v[0] % 3];
        util::guarded(&rt, contend_case(&mut rep, &mut rng, tr, v[1], v[2], v[3], v[4]));
      }
    }
    Some("contend") => {
      let rt = util::runtime(4);
      let n = if args.thorough() { 12 } else { 4 };
      for i in 0..n {
        if !args.mine(i) {
          continue;
        }
        let tr = [Transport::Tcp, Transport::Inproc, Transport::Ipc][i % 3];
        let receivers = [4, 1, 8, 2][i % 4];
        let per_pub = if args.thorough() { 400 } else { 150 };
        let ok = util::guarded(&rt, contend_case(&mut rep, &mut rng, tr, receivers, 1 + i % 3, 1 + (i / 2) % 3, per_pub));
        let _ = ok;
      }
      util::cleanup_ipc_dir();
    }
    Some("resume") => {
      let rt = util::runtime(2);
      for (i, (tr, to)) in [(Transport::Inproc, 30), (Transport::Tcp, 30), (Transport::Ipc, 100), (Transport::Inproc, 200), (Transport::Tcp, 0)].iter().enumerate() {
        if args.mine(i) {
          rt.block_on(resume_case(&mut rep, *tr, *to));
        }
      }
      util::cleanup_ipc_dir();
    }
    Some("announce") => {
      let rt = util::runtime(2);
      let n = if args.thorough() { 60 } else { 12 };
      for i in 0..n {
        if !args.mine(i) {
          continue;
        }
        let tr = [Transport::Tcp, Transport::Ipc][i % 2];
        util::guarded(&rt, announce_case(&mut rep, &mut rng, tr, i));
      }
      util::cleanup_ipc_dir();
    }
    Some("stall") => {
      let rt = util::runtime(2);
      for (i, (st, v)) in [(1usize, false), (2, false), (1, true)].iter().enumerate() {
        if args.mine(i) {
          rt.block_on(stall_case(&mut rep, *st, *v));
        }
      }
    }
    _ => model_layer(&mut rep, &args, &mut rng),
  }
  for p in util::take_panics() {
    if p.in_rzmq {
      rep.violation(format!("panic|{}", util::panic_site(&p.location)), format!("panic at {}: {}", p.location, p.message), json!({"frames": p.backtrace_head}));
    } else {
      rep.inconclusive(format!("harness panic at {}: {}", p.location, p.message));
    }
  }
  rep.merge_hooks();
  rep.emit();
}

//! C01 — while connected: every accepted message arrives exactly once, in order, intact.
//! Offline exactly-once / order / integrity oracle over client-boundary logs of many short
//! histories across socket pairs, transports, HWMs, batching options, pacing and first-send moments.

use rzmq::socket::options as opt;
use rzmq::socket::SocketEvent;
use rzmq::{Socket, SocketType};
use serde_json::json;
use std::sync::atomic::{AtomicBool, AtomicUsize, Ordering};
use std::sync::Arc;
use std::time::{Duration, Instant};
use vh::args::Args;
use vh::gen::Rng;
use vh::oracles::{self, SendStatus, SentMsg};
use vh::payload::HDR;
use vh::report::Report;
use vh::util::{self, Transport};

#[derive(Clone, Copy, Debug, PartialEq, Eq, Hash)]
enum Pair {
  PushPull,
  DealerRouter,
  RouterDealer,
  ReqRep,
  DealerDealer,
  DealerRep,
}
const PAIRS: [Pair; 6] = [Pair::PushPull, Pair::DealerRouter, Pair::RouterDealer, Pair::ReqRep, Pair::DealerDealer, Pair::DealerRep];

#[derive(Clone, Copy, Debug, PartialEq, Eq, Hash)]
enum FirstSend {
  BeforeConnect,
  RightAfterConnect,
  AfterHandshake,
}

#[derive(Clone, Copy, Debug, PartialEq, Eq, Hash)]
enum Pacing {
  Greedy,
  SlowPerMsg,
  StallBurst,
  LateStart,
}

#[derive(Clone, Copy, Debug, PartialEq, Eq, Hash)]
enum Family {
  Small,
  BigAmongSmall,
  CountLimit,
  LogicalLimit,
  PhysicalLimit,
  Hwm1,
  MixedMultipart,
  Boundary,
  Huge,
  /// sizes around the physical batch budget with a backlog in the pipe: keeps messages parked in
  /// the session's carry-over while newer ones wait in the pipe
  CarryOverBacklog,
}
const FAMILIES: [Family; 11] = [Family::Small, Family::BigAmongSmall, Family::CountLimit, Family::LogicalLimit, Family::PhysicalLimit, Family::Hwm1, Family::MixedMultipart, Family::Boundary, Family::Huge, Family::CarryOverBacklog, Family::CarryOverBacklog];

#[derive(Clone, Debug)]
struct Cfg {
  pair: Pair,
  tr: Transport,
  sndhwm: i32,
  rcvhwm: i32,
  sndbatch_count: Option<i32>,
  sndbatch_bytes: Option<i32>,
  rcvbatch_count: Option<i32>,
  rcvbatch_bytes: Option<i32>,
  throttle: bool,
  cork: bool,
  workers: usize,
  first: FirstSend,
  pacing: Pacing,
  family: Family,
  n: u32,
  sender_binds: bool,
}

fn gen_cfg(rng: &mut Rng, thorough: bool) -> Cfg {
  let family = *rng.pick(&FAMILIES);
  // DEALER-as-sender pairs get a quarter of the runs (their egress path has recorded findings)
  let pair = if rng.chance(1, 4) { *rng.pick(&[Pair::DealerRouter, Pair::DealerDealer, Pair::DealerRep]) } else { *rng.pick(&[Pair::PushPull, Pair::PushPull, Pair::RouterDealer, Pair::ReqRep]) };
  let mut tr = *rng.pick(&[Transport::Tcp, Transport::Tcp, Transport::Ipc, Transport::Inproc]);
  if tr == Transport::Inproc && matches!(pair, Pair::DealerDealer | Pair::DealerRep) {
    tr = Transport::Tcp; // inproc refuses these pairings (recorded under C05)
  }
  let mut c = Cfg {
    pair,
    tr,
    sndhwm: *rng.pick(&[1, 2, 3, 8, 256]),
    rcvhwm: *rng.pick(&[1, 2, 3, 8, 256]),
    sndbatch_count: *rng.pick(&[None, Some(1), Some(2), Some(8)]),
    sndbatch_bytes: *rng.pick(&[None, Some(64), Some(1024), Some(65536)]),
    rcvbatch_count: *rng.pick(&[None, None, Some(1), Some(4)]),
    rcvbatch_bytes: *rng.pick(&[None, None, Some(256), Some(8192)]),
    throttle: rng.chance(1, 4),
    cork: rng.chance(1, 5),
    workers: *rng.pick(&[0usize, 4]),
    first: *rng.pick(&[FirstSend::BeforeConnect, FirstSend::RightAfterConnect, FirstSend::RightAfterConnect, FirstSend::AfterHandshake]),
    pacing: *rng.pick(&[Pacing::Greedy, Pacing::Greedy, Pacing::SlowPerMsg, Pacing::StallBurst, Pacing::LateStart]),
    family,
    n: if thorough { rng.range(20, 300) as u32 } else { rng.range(10, 120) as u32 },
    sender_binds: rng.chance(1, 3),
  };
  match family {
    Family::Hwm1 => {
      c.sndhwm = 1;
      c.rcvhwm = 1;
    }
    Family::CountLimit => {
      c.sndbatch_count = Some(*rng.pick(&[1, 2, 8]));
    }
    Family::LogicalLimit | Family::BigAmongSmall => {
      c.sndbatch_bytes = Some(*rng.pick(&[64, 1024]));
      c.sndhwm = c.sndhwm.max(8);
    }
    Family::PhysicalLimit => {
      c.sndbatch_bytes = Some(1024);
      c.sndbatch_count = Some(8);
      c.sndhwm = 256;
    }
    Family::Huge => {
      c.n = c.n.min(12);
    }
    Family::CarryOverBacklog => {
      c.sndbatch_bytes = Some(1024);
      c.sndbatch_count = None;
      c.sndhwm = 256;
      c.rcvhwm = *rng.pick(&[1, 8, 256]);
      c.pacing = *rng.pick(&[Pacing::LateStart, Pacing::StallBurst, Pacing::SlowPerMsg]);
      c.n = c.n.max(80);
      if c.tr == Transport::Inproc {
        c.tr = Transport::Tcp;
      }
    }
    _ => {}
  }
  if matches!(pair, Pair::ReqRep | Pair::DealerRep) {
    c.n = c.n.min(60);
    if c.first == FirstSend::BeforeConnect {
      c.first = FirstSend::RightAfterConnect;
    }
  }
  if tr == Transport::Inproc {
    // inproc needs the binder first
    c.cork = false;
  }
  c
}

fn frame_lens(rng: &mut Rng, fam: Family, i: u32, n: u32, single_only: bool) -> Vec<usize> {
  let one = |l: usize| vec![l.max(HDR)];
  match fam {
    Family::Small | Family::Hwm1 => one(rng.range(HDR, 200)),
    Family::CountLimit => one(rng.range(HDR, 80)),
    Family::BigAmongSmall => {
      if i % 7 == 3 || (n > 4 && i == n / 2) {
        one(*rng.pick(&[1500usize, 4000, 70_000]))
      } else {
        one(rng.range(HDR, 120))
      }
    }
    Family::LogicalLimit => one(*rng.pick(&[HDR, 60, 64, 100, 500, 1000, 1024, 1030])),
    Family::PhysicalLimit => one(*rng.pick(&[HDR, 100, 120, 127, 128, 129, 1000, 1015, 1024, 1033, 2000])),
    Family::Boundary => one(*rng.pick(&[HDR, 254, 255, 256, 257, 65535, 65536, 65537])),
    Family::Huge => one(*rng.pick(&[HDR, 100_000, 300_000, 1 << 20])),
    Family::CarryOverBacklog => one(*rng.pick(&[HDR, 100, 100, 900, 1300, 1300, 2100, 2500])),
    Family::MixedMultipart => {
      if single_only || rng.chance(1, 3) {
        one(rng.range(HDR, 300))
      } else {
        let k = rng.range(2, 6);
        let big = rng.below(k as u64) as usize;
        (0..k).map(|j| if j == big { rng.range(HDR, 600) } else { *rng.pick(&[0usize, 0, 1, 5, 39, 255, 256, 300]) }).collect()
      }
    }
  }
}

async fn apply_opts(s: &Socket, c: &Cfg) {
  util::set_i32(s, opt::SNDHWM, c.sndhwm).await;
  util::set_i32(s, opt::RCVHWM, c.rcvhwm).await;
  if let Some(v) = c.sndbatch_count {
    util::set_i32(s, opt::SNDBATCH_COUNT, v).await;
  }
  if let Some(v) = c.sndbatch_bytes {
    util::set_i32(s, opt::SNDBATCH_BYTES, v).await;
  }
  if let Some(v) = c.rcvbatch_count {
    util::set_i32(s, opt::RCVBATCH_COUNT, v).await;
  }
  if let Some(v) = c.rcvbatch_bytes {
    util::set_i32(s, opt::RCVBATCH_BYTES, v).await;
  }
  if c.throttle {
    let _ = s.set_option(opt::ADAPTIVE_THROTTLE, true).await;
  }
  if c.cork && c.tr == Transport::Tcp {
    let _ = s.set_option(opt::TCP_CORK, true).await;
  }
  util::set_i32(s, opt::RECONNECT_IVL, 60_000).await; // a lost connection must not silently come back
}

fn types(p: Pair) -> (SocketType, SocketType) {
  match p {
    Pair::PushPull => (SocketType::Push, SocketType::Pull),
    Pair::DealerRouter => (SocketType::Dealer, SocketType::Router),
    Pair::RouterDealer => (SocketType::Router, SocketType::Dealer),
    Pair::ReqRep => (SocketType::Req, SocketType::Rep),
    Pair::DealerDealer => (SocketType::Dealer, SocketType::Dealer),
    Pair::DealerRep => (SocketType::Dealer, SocketType::Rep),
  }
}

struct Outcome {
  sent: Vec<SentMsg>,
  received: Vec<Vec<Vec<u8>>>,
  back_sent: Vec<SentMsg>,
  back_received: Vec<Vec<Vec<u8>>>,
  disconnected: bool,
  stalled: Option<String>,
  send_errors: Vec<String>,
}

fn to_vecs(m: Vec<rzmq::Msg>) -> Vec<Vec<u8>> {
  m.into_iter().map(|f| f.data().unwrap_or(&[]).to_vec()).collect()
}

async fn run_case(c: &Cfg, run: u32, rng: &mut Rng) -> Result<Outcome, String> {
  let ctx = util::new_ctx();
  let (ta, tb) = types(c.pair);
  let a = ctx.socket(ta).map_err(|e| e.to_string())?;
  let b = ctx.socket(tb).map_err(|e| e.to_string())?;
  apply_opts(&a, c).await;
  apply_opts(&b, c).await;
  if c.pair == Pair::RouterDealer {
    a.set_option(opt::ROUTER_MANDATORY, true).await.map_err(|e| e.to_string())?;
    b.set_option_raw(opt::ROUTING_ID, b"D1").await.map_err(|e| e.to_string())?;
  }
  if c.pair == Pair::DealerRouter {
    a.set_option_raw(opt::ROUTING_ID, b"D1").await.map_err(|e| e.to_string())?;
  }
  let mon_a = a.monitor(512).await.map_err(|e| e.to_string())?;
  let mon_b = b.monitor(512).await.map_err(|e| e.to_string())?;
  let disconnected = Arc::new(AtomicBool::new(false));
  for mon in [mon_a.clone(), mon_b.clone()] {
    let d = disconnected.clone();
    tokio::spawn(async move {
      while let Ok(ev) = mon.recv().await {
        if matches!(ev, SocketEvent::Disconnected { .. } | SocketEvent::HandshakeFailed { .. } | SocketEvent::ConnectFailed { .. }) {
          d.store(true, Ordering::SeqCst);
        }
      }
    });
  }
  let hs_mon = a.monitor(512).await.map_err(|e| e.to_string())?;
  let _ = hs_mon; // (second monitor replaces the first on some builds; handshake wait uses a probe below)

  // messages
  let single_only = matches!(c.pair, Pair::ReqRep);
  let mut plan: Vec<(u32, Vec<usize>)> = vec![];
  for i in 0..c.n {
    plan.push((i, frame_lens(rng, c.family, i, c.n, single_only)));
  }
  let lockstep = matches!(c.pair, Pair::ReqRep | Pair::DealerRep);

  // sender
  let sent_log: Arc<parking_lot::Mutex<Vec<SentMsg>>> = Default::default();
  let send_errs: Arc<parking_lot::Mutex<Vec<String>>> = Default::default();
  let sender_done = Arc::new(AtomicBool::new(false));
  let blocked_sends = Arc::new(AtomicUsize::new(0));
  let mk_sender = |sock: Socket, plan: Vec<(u32, Vec<usize>)>, sender_id: u32, dest_prefix: Option<Vec<u8>>, log: Arc<parking_lot::Mutex<Vec<SentMsg>>>, errs: Arc<parking_lot::Mutex<Vec<String>>>, done: Arc<AtomicBool>| async move {
    for (seq, lens) in plan {
      let frames = oracles::build_message(run, sender_id, seq, u32::MAX, &lens);
      let mut msgs: Vec<rzmq::Msg> = vec![];
      if let Some(id) = &dest_prefix {
        msgs.push(util::msg(id.clone(), true));
      }
      let nf = frames.len();
      for (i, f) in frames.into_iter().enumerate() {
        msgs.push(util::msg(f, i + 1 < nf));
      }
      let r = if msgs.len() == 1 { sock.send(msgs.pop().unwrap()).await } else { sock.send_multipart(msgs).await };
      let status = match &r {
        Ok(()) => SendStatus::Accepted,
        Err(e) => {
          errs.lock().push(format!("seq {}: {:?}", seq, e));
          SendStatus::Maybe
        }
      };
      log.lock().push(SentMsg { sender: sender_id, seq, dest: u32::MAX, frame_lens: lens, status });
      if r.is_err() {
        break;
      }
    }
    done.store(true, Ordering::SeqCst);
  };
  let _ = blocked_sends;

  // endpoint set-up honoring first-send moment
  let (binder, connector) = if c.sender_binds && c.tr != Transport::Inproc { (&a, &b) } else { (&b, &a) };
  let ep = util::bind_fresh(binder, c.tr).await.map_err(|e| format!("bind: {e}"))?;
  let dest_prefix = if c.pair == Pair::RouterDealer { Some(b"D1".to_vec()) } else { None };

  let mut sender_handle = None;
  if !lockstep {
    if c.first == FirstSend::BeforeConnect && c.pair != Pair::RouterDealer {
      sender_handle = Some(tokio::spawn(mk_sender(a.clone(), plan.clone(), 1, dest_prefix.clone(), sent_log.clone(), send_errs.clone(), sender_done.clone())));
      tokio::time::sleep(Duration::from_millis(rng.range(0, 20) as u64)).await;
    }
  }
  connector.connect(&ep).await.map_err(|e| format!("connect: {e}"))?;
  if c.first == FirstSend::AfterHandshake || c.pair == Pair::RouterDealer {
    // wait until both sides report a completed handshake (or inproc: connect returned)
    let ok = util::wait_event(&mon_a, util::scaled(Duration::from_secs(3)), |e| matches!(e, SocketEvent::HandshakeSucceeded { .. } | SocketEvent::Connected { .. } | SocketEvent::Accepted { .. })).await;
    let _ = ok;
    tokio::time::sleep(Duration::from_millis(if c.pair == Pair::RouterDealer { 150 } else { 60 })).await;
  }
  let mut out = Outcome { sent: vec![], received: vec![], back_sent: vec![], back_received: vec![], disconnected: false, stalled: None, send_errors: vec![] };

  if lockstep {
    // REQ<->REP / DEALER->REP: request/reply round trips, both directions checked
    util::set_i32(&a, opt::RCVTIMEO, 4000).await;
    util::set_i32(&b, opt::RCVTIMEO, 4000).await;
    util::set_i32(&a, opt::SNDTIMEO, 4000).await;
    util::set_i32(&b, opt::SNDTIMEO, 4000).await;
    let server = {
      let b = b.clone();
      let n = c.n;
      let fam = c.family;
      let mut rng2 = rng.fork(99);
      tokio::spawn(async move {
        let mut got = vec![];
        let mut replies = vec![];
        for i in 0..n {
          match b.recv_multipart().await {
            Ok(m) => got.push(to_vecs(m)),
            Err(_) => break,
          }
          let lens = frame_lens(&mut rng2, fam, i, n, true);
          let fr = oracles::build_message(run, 2, i, u32::MAX, &lens);
          let r = b.send(util::msg(fr[0].clone(), false)).await;
          replies.push(SentMsg { sender: 2, seq: i, dest: u32::MAX, frame_lens: lens, status: if r.is_ok() { SendStatus::Accepted } else { SendStatus::Maybe } });
          if r.is_err() {
            break;
          }
        }
        (got, replies)
      })
    };
    for (seq, lens) in plan {
      let fr = oracles::build_message(run, 1, seq, u32::MAX, &lens);
      let nf = fr.len();
      let r = if nf == 1 { a.send(util::msg(fr[0].clone(), false)).await } else { a.send_multipart(fr.iter().enumerate().map(|(i, f)| util::msg(f.clone(), i + 1 < nf)).collect()).await };
      out.sent.push(SentMsg { sender: 1, seq, dest: u32::MAX, frame_lens: lens, status: if r.is_ok() { SendStatus::Accepted } else { SendStatus::Maybe } });
      if let Err(e) = r {
        out.send_errors.push(format!("req send {}: {:?}", seq, e));
        break;
      }
      match a.recv_multipart().await {
        Ok(m) => out.back_received.push(to_vecs(m)),
        Err(e) => {
          out.stalled = Some(format!("no reply to request {}: {:?}", seq, e));
          break;
        }
      }
    }
    match tokio::time::timeout(util::scaled(Duration::from_secs(6)), server).await {
      Ok(Ok((got, replies))) => {
        out.received = got;
        out.back_sent = replies;
      }
      _ => out.stalled = Some(out.stalled.unwrap_or_default() + " server task did not finish"),
    }
  } else {
    if sender_handle.is_none() {
      sender_handle = Some(tokio::spawn(mk_sender(a.clone(), plan.clone(), 1, dest_prefix.clone(), sent_log.clone(), send_errs.clone(), sender_done.clone())));
    }
    // receiver with pacing
    util::set_i32(&b, opt::RCVTIMEO, 250).await;
    if c.pacing == Pacing::LateStart {
      // start reading only once the sender is blocked (or done)
      let t0 = Instant::now();
      let mut last = 0;
      let mut same = 0;
      while t0.elapsed() < util::scaled(Duration::from_secs(3)) && !sender_done.load(Ordering::SeqCst) {
        tokio::time::sleep(Duration::from_millis(20)).await;
        let now = sent_log.lock().len();
        if now == last {
          same += 1;
          if same > 10 {
            break;
          }
        } else {
          same = 0;
          last = now;
        }
      }
    }
    let strip_identity = tb == SocketType::Router;
    let mut last_progress = Instant::now();
    let limit = util::scaled(Duration::from_secs(6));
    let mut k = 0u32;
    loop {
      let want = oracles::accepted_ids(&sent_log.lock()).len();
      if sender_done.load(Ordering::SeqCst) && out.received.len() >= want {
        // one more short read: nothing spurious may follow
        if let Ok(Ok(m)) = tokio::time::timeout(util::scaled(Duration::from_millis(80)), b.recv_multipart()).await {
          let mut v = to_vecs(m);
          if strip_identity && !v.is_empty() {
            v.remove(0);
          }
          out.received.push(v);
        }
        break;
      }
      match b.recv_multipart().await {
        Ok(m) => {
          let mut v = to_vecs(m);
          if strip_identity && !v.is_empty() {
            v.remove(0);
          }
          out.received.push(v);
          last_progress = Instant::now();
          k += 1;
          match c.pacing {
            Pacing::SlowPerMsg => tokio::time::sleep(Duration::from_millis(1)).await,
            Pacing::StallBurst => {
              if k % 16 == 0 {
                tokio::time::sleep(Duration::from_millis(120)).await;
              }
            }
            _ => {}
          }
        }
        Err(_) => {
          if last_progress.elapsed() > limit {
            out.stalled = Some(format!("no progress for {:?}: received {} of {} accepted (sender done: {})", limit, out.received.len(), want, sender_done.load(Ordering::SeqCst)));
            break;
          }
          if disconnected.load(Ordering::SeqCst) && last_progress.elapsed() > util::scaled(Duration::from_millis(800)) {
            break;
          }
        }
      }
    }
    if let Some(h) = sender_handle {
      h.abort();
    }
    out.sent = sent_log.lock().clone();
    out.send_errors = send_errs.lock().clone();
  }
  out.disconnected = disconnected.load(Ordering::SeqCst);
  let _ = tokio::time::timeout(util::scaled(Duration::from_secs(12)), ctx.term()).await;
  Ok(out)
}

fn judge(rep: &mut Report, c: &Cfg, seed: u64, run: u32, o: &Outcome) {
  // DEALER's egress path (pending queue + processor task) is independent of transport, family
  // and first-send moment: its findings are keyed on the sender type alone.
  let dealer_sender = matches!(c.pair, Pair::DealerRouter | Pair::DealerDealer | Pair::DealerRep);
  let dims = if dealer_sender { "sender=DEALER".to_string() } else { format!("pair={:?}|tr={}|family={:?}|first={:?}", c.pair, if c.tr == Transport::Inproc { "inproc" } else { "stream" }, c.family, c.first) };
  let cfgs = format!("{:?}", c);
  if o.disconnected {
    // out of scope for C01 ("while connected"): discarded, counted
    rep.count("discarded_disconnected", 1);
    return;
  }
  let f = oracles::check_receiver(run, &o.sent, &o.received, None, true);
  let fb = oracles::check_receiver(run, &o.back_sent, &o.back_received, None, true);
  let mut kinds: Vec<String> = f.kinds().iter().map(|k| k.to_string()).collect();
  kinds.extend(fb.kinds().iter().map(|k| format!("reply_{}", k)));
  if o.stalled.is_some() && kinds.is_empty() {
    // every accepted message arrived; a send() that stays blocked although the peer drains is a
    // back-pressure question decided under C14, not a loss
    rep.count("sender_still_blocked_nothing_lost(C14)", 1);
    return;
  }
  if !kinds.is_empty() {
    let kind = kinds.join("+");
    rep.violation(
      format!("{}|{}", kind, dims),
      format!("{} on {:?} over {} (family {:?}, first send {:?}, pacing {:?}, SNDHWM {}, RCVHWM {}, SNDBATCH {:?}/{:?}): {}", kind, c.pair, c.tr.name(), c.family, c.first, c.pacing, c.sndhwm, c.rcvhwm, c.sndbatch_count, c.sndbatch_bytes, o.stalled.clone().unwrap_or_default()),
      json!({"config": cfgs, "seed": seed, "forward": f.to_json(), "reply": fb.to_json(), "accepted": o.sent.iter().filter(|s| s.status == SendStatus::Accepted).count(), "send_errors": o.send_errors.iter().take(4).collect::<Vec<_>>(), "stalled": o.stalled}),
    );
  }
}

/// (multisender) several tasks share ONE socket (clones) and send to the same connected peer at the same time:
/// send_multipart() from every task, and on ROUTER one task that sends its messages frame by frame (identity | MORE,
/// then the payload frames) with small pauses inside the message - the socket must keep every accepted message whole
/// and every task's messages in that task's order.
async fn multisender_case(rep: &mut Report, rng: &mut Rng, router: bool, tr: Transport, tasks: usize, per_task: u32, hwm: i32) {
  let ctx = util::new_ctx();
  let (ta, tb) = if router { (SocketType::Router, SocketType::Dealer) } else { (SocketType::Push, SocketType::Pull) };
  let a = ctx.socket(ta).unwrap();
  let b = ctx.socket(tb).unwrap();
  for s in [&a, &b] {
    util::set_i32(s, opt::SNDHWM, hwm).await;
    util::set_i32(s, opt::RCVHWM, hwm).await;
  }
  util::set_i32(&a, opt::SNDTIMEO, 5000 * util::slow_factor() as i32).await;
  util::set_i32(&b, opt::RCVTIMEO, 500).await;
  if router {
    a.set_option(opt::ROUTER_MANDATORY, true).await.unwrap();
    b.set_option_raw(opt::ROUTING_ID, b"D1").await.unwrap();
  }
  let ep = match util::bind_fresh(&a, tr).await {
    Ok(e) => e,
    Err(e) => {
      rep.inconclusive(format!("bind {e}"));
      return;
    }
  };
  if b.connect(&ep).await.is_err() {
    rep.inconclusive("connect failed".to_string());
    return;
  }
  tokio::time::sleep(Duration::from_millis(if tr == Transport::Inproc { 80 } else { 300 })).await;
  let run = (rng.next() & 0x7FFF_FFFF) as u32;
  let done = Arc::new(AtomicUsize::new(0));
  let mut hs = vec![];
  for t in 0..tasks {
    let a = a.clone();
    let done = done.clone();
    let frame_by_frame = router && t == 0;
    let mut r2 = rng.fork(t as u64 + 1);
    hs.push(tokio::spawn(async move {
      let mut log: Vec<SentMsg> = vec![];
      for seq in 0..per_task {
        let lens: Vec<usize> = match r2.below(3) {
          0 => vec![vh::payload::HDR + r2.range(0, 40)],
          1 => vec![vh::payload::HDR + 5, 0, r2.range(1, 300)],
          _ => vec![vh::payload::HDR, r2.range(0, 3000)],
        };
        let frames = oracles::build_message(run, t as u32 + 1, seq, u32::MAX, &lens);
        let mut msgs: Vec<rzmq::Msg> = vec![];
        if router {
          msgs.push(util::msg(b"D1".to_vec(), true));
        }
        let nf = frames.len();
        for (i, f) in frames.into_iter().enumerate() {
          msgs.push(util::msg(f, i + 1 < nf));
        }
        let ok = if frame_by_frame {
          let mut ok = true;
          for m in msgs {
            if a.send(m).await.is_err() {
              ok = false;
              break;
            }
            // stay inside the open message for a moment
            match r2.below(3) {
              0 => tokio::task::yield_now().await,
              1 => tokio::time::sleep(Duration::from_micros(r2.range(50, 800) as u64)).await,
              _ => {}
            }
          }
          ok
        } else {
          a.send_multipart(msgs).await.is_ok()
        };
        log.push(SentMsg { sender: t as u32 + 1, seq, dest: u32::MAX, frame_lens: lens, status: if ok { SendStatus::Accepted } else { SendStatus::Maybe } });
        if !ok {
          break;
        }
        if r2.chance(1, 4) {
          tokio::task::yield_now().await;
        }
      }
      done.fetch_add(1, Ordering::SeqCst);
      log
    }));
  }
  // receiver
  let mut received: Vec<Vec<Vec<u8>>> = vec![];
  let mut idle = 0;
  let t0 = Instant::now();
  while idle < 4 && t0.elapsed() < util::scaled(Duration::from_secs(60)) {
    match b.recv_multipart().await {
      Ok(m) => {
        idle = 0;
        received.push(to_vecs(m));
      }
      Err(_) => {
        if done.load(Ordering::SeqCst) == tasks {
          idle += 1;
        }
      }
    }
  }
  let mut sent: Vec<SentMsg> = vec![];
  for h in hs {
    if let Ok(Ok(l)) = tokio::time::timeout(Duration::from_secs(5), h).await {
      sent.extend(l);
    }
  }
  let f = oracles::check_receiver(run, &sent, &received, None, true);
  let sock = if router { "ROUTER" } else { "PUSH" };
  rep.case(&("multisender", router, tr, tasks, per_task, hwm), sent.len() >= 5);
  rep.count("multisender_cases", 1);
  rep.count("multisender_messages_accepted", sent.iter().filter(|s| s.status == SendStatus::Accepted).count() as u64);
  if !f.ok() {
    rep.violation(
      format!("{}|multisender|sender={}|tr={}", f.kinds().join("+"), sock, if tr == Transport::Inproc { "inproc" } else { "stream" }),
      format!("{} shared by {} tasks ({}) sending to one peer over {} (HWM {}): {} - received {} of {} accepted", sock, tasks, if router { "one of them frame by frame, the others with send_multipart()" } else { "all with send_multipart()" }, tr.name(), hwm, f.kinds().join("+"), received.len(), sent.iter().filter(|s| s.status == SendStatus::Accepted).count()),
      json!({"socket": sock, "transport": tr.name(), "tasks": tasks, "per_task": per_task, "hwm": hwm, "findings": f.to_json()}),
    );
  }
  let _ = tokio::time::timeout(Duration::from_secs(12), ctx.term()).await;
}

fn multisender_layer(rep: &mut Report, args: &Args, rng: &mut Rng) {
  let rt = util::runtime(4);
  let rt0 = util::runtime(0);
  let mut i = 0;
  for router in [true, false] {
    for tr in [Transport::Tcp, Transport::Inproc, Transport::Ipc] {
      for (tasks, hwm) in [(2usize, 1000i32), (3, 8), (2, 1)] {
        i += 1;
        if !args.mine(i) {
          continue;
        }
        let per_task = if args.thorough() { 120 } else { 40 };
        let r = if i % 4 == 0 { &rt0 } else { &rt };
        util::guarded(r, multisender_case(rep, rng, router, tr, tasks, per_task, hwm));
        for p in util::take_panics() {
          if p.in_rzmq {
            rep.violation(format!("panic|{}", util::panic_site(&p.location)), format!("panic at {}: {}", p.location, p.message), json!({"frames": p.backtrace_head}));
          } else {
            rep.inconclusive(format!("harness panic at {}: {}", p.location, p.message));
          }
        }
      }
    }
  }
  util::cleanup_ipc_dir();
}

fn main() {
  let args = Args::parse();
  util::install_panic_watch();
  let mut rep = Report::new("C01", &args.shard_name());
  let mut rng = Rng::new(args.seed.wrapping_mul(179424673).wrapping_add(args.shard as u64));
  if args.only.as_deref() == Some("multisender") {
    multisender_layer(&mut rep, &args, &mut rng);
    rep.merge_hooks();
    rep.emit();
    return;
  }
  let budget = Duration::from_secs(if args.thorough() { 900 } else { 75 });
  let t0 = Instant::now();
  let mut i = 0u64;
  // (miri) a few tiny inproc histories meant to run inside Miri: the whole socket stack (core actors, orchestrator,
  // ready-pipe queue, inproc reader) under its data-race detector, random preemption and weak-memory emulation
  let miri_cases = if args.only.as_deref() == Some("miri") { Some(args.get_usize("cases", 3)) } else { None };
  let mut miri_done = 0usize;
  let mut rts: std::collections::HashMap<usize, tokio::runtime::Runtime> = std::collections::HashMap::new();
  while miri_cases.map_or(t0.elapsed() < budget, |m| miri_done < m) {
    let mut c = gen_cfg(&mut rng, args.thorough());
    if miri_cases.is_some() {
      let k = args.get_usize("first", 0) + miri_done;
      miri_done += 1;
      c.pair = [Pair::PushPull, Pair::RouterDealer, Pair::ReqRep, Pair::DealerRouter][k % 4];
      c.tr = Transport::Inproc;
      c.n = 6;
      c.family = [Family::Small, Family::MixedMultipart][(k / 4) % 2];
      c.sndhwm = [1, 8][(k / 2) % 2];
      c.rcvhwm = c.sndhwm;
      c.workers = 2;
      c.first = [FirstSend::AfterHandshake, FirstSend::RightAfterConnect][(k / 8) % 2];
      c.pacing = Pacing::Greedy;
      c.cork = false;
      c.throttle = false;
      c.sender_binds = k % 3 == 0;
    }
    let seed = rng.next();
    let run = (seed & 0x7FFF_FFFF) as u32;
    let mut r2 = Rng::new(seed);
    let rt = rts.entry(c.workers).or_insert_with(|| util::runtime(c.workers));
    let res = rt.block_on(async { tokio::time::timeout(util::scaled(Duration::from_secs(60)), run_case(&c, run, &mut r2)).await });
    i += 1;
    match res {
      Err(_) => rep.inconclusive(format!("scenario watchdog (60 s) fired: {:?}", c)),
      Ok(Err(e)) => rep.inconclusive(format!("scenario setup failed: {} ({:?})", e, c.tr)),
      Ok(Ok(o)) => {
        let nontrivial = o.sent.iter().filter(|s| s.status == SendStatus::Accepted).count() >= 5;
        rep.case(&(format!("{:?}", c), seed), nontrivial);
        rep.count(&format!("family[{:?}]", c.family), 1);
        rep.count(&format!("pair[{:?}]", c.pair), 1);
        rep.count(&format!("transport[{}]", c.tr.name()), 1);
        rep.count("messages_accepted", o.sent.iter().filter(|s| s.status == SendStatus::Accepted).count() as u64);
        judge(&mut rep, &c, seed, run, &o);
        if i <= 2 {
          rep.sample(json!({"config": format!("{:?}", c), "accepted": o.sent.len(), "received": o.received.len(), "replies": o.back_received.len()}));
        }
      }
    }
    for p in util::take_panics() {
      if p.in_rzmq {
        rep.violation(format!("panic|{}", util::panic_site(&p.location)), format!("panic at {}: {} ({:?})", p.location, p.message, c), json!({"frames": p.backtrace_head}));
      } else {
        rep.inconclusive(format!("harness panic at {}: {}", p.location, p.message));
      }
    }
  }
  util::cleanup_ipc_dir();
  rep.merge_hooks();
  rep.emit();
}

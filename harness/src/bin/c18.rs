//! C18 — encrypted connections keep data secret, detect tampering, and stay decodable.
//! Engine pairs (CURVE / NOISE_XX); the harness is the wire and the attacker.

use bytes::Bytes;
use rzmq::verif::EngineCfg;
use rzmq::FrameBatch;
use serde_json::json;
use std::time::{Duration, Instant};
use vh::args::Args;
use vh::enginepair::{Pair, Sched};
use vh::gen::Rng;
use vh::report::Report;
use vh::util;

#[derive(Clone, Copy, Debug, PartialEq, Eq, Hash)]
enum Mech {
  Curve,
  Noise,
}

struct Keys {
  srv: ([u8; 32], [u8; 32]),
  cli: ([u8; 32], [u8; 32]),
}

fn k32(r: &mut Rng) -> [u8; 32] {
  let mut k = [0u8; 32];
  k.copy_from_slice(&r.bytes(32));
  k
}

fn keys(m: Mech, r: &mut Rng) -> Keys {
  match m {
    Mech::Curve => Keys { srv: rzmq::verif::curve_keypair_from(k32(r)), cli: rzmq::verif::curve_keypair_from(k32(r)) },
    Mech::Noise => Keys { srv: rzmq::verif::noise_keypair_from(k32(r)), cli: rzmq::verif::noise_keypair_from(k32(r)) },
  }
}

fn cfgs(m: Mech, k: &Keys, hb: bool, batch: Option<(usize, usize)>) -> (EngineCfg, EngineCfg) {
  let mut c = EngineCfg::new("DEALER");
  let mut s = EngineCfg::new("ROUTER");
  if hb {
    c = c.heartbeat(Some(Duration::from_millis(1)), Some(Duration::from_secs(30)));
    s = s.heartbeat(Some(Duration::from_millis(1)), Some(Duration::from_secs(30)));
  }
  if let Some((n, b)) = batch {
    c = c.sndbatch(n, b);
    s = s.sndbatch(n, b);
  }
  match m {
    Mech::Curve => (c.curve(k.cli.0, Some(k.srv.1)), s.curve(k.srv.0, None)),
    Mech::Noise => (c.noise_xx(k.cli.0, Some(k.srv.1)), s.noise_xx(k.srv.0, None)),
  }
}

/// Establish a pair in Data phase (a = client, b = server). None if the handshake fails.
fn establish(m: Mech, k: &Keys, hb: bool, batch: Option<(usize, usize)>, rng: &mut Rng) -> Option<Pair> {
  let (c, s) = cfgs(m, k, hb, batch);
  let mut p = Pair::new(&c, false, &s, true);
  p.start();
  let q = p.run(Sched::Random, rng, 20000);
  if q && p.a.in_data() && p.b.in_data() {
    Some(p)
  } else {
    None
  }
}

const MARK: usize = 32;

fn marked_payload(rng: &mut Rng, len: usize, marker: &[u8]) -> Vec<u8> {
  // marker repeated so that it is present wherever the payload is cut into records
  let mut v = Vec::with_capacity(len);
  while v.len() < len {
    let take = (len - v.len()).min(MARK);
    v.extend_from_slice(&marker[..take]);
  }
  let _ = rng;
  v
}

fn contains(hay: &[u8], needle: &[u8]) -> bool {
  needle.len() <= hay.len() && hay.windows(needle.len()).any(|w| w == needle)
}

fn fb(frames: &[Vec<u8>]) -> FrameBatch {
  let mut b = FrameBatch::new();
  for (i, f) in frames.iter().enumerate() {
    b.push(util::msg(f.clone(), i + 1 < frames.len()));
  }
  b
}

const SIZES: [usize; 12] = [0, 1, 31, 255, 256, 4096, 65000, 65500, 65519, 65520, 65536, 70000];

/// Secrecy + decodability: messages of many sizes through on_app_message and frame_batch.
fn secrecy_and_decodability(rep: &mut Report, m: Mech, from_client: bool, rng: &mut Rng, thorough: bool) {
  let k = keys(m, rng);
  let marker = rng.bytes(MARK);
  let mut sizes: Vec<usize> = SIZES.to_vec();
  if thorough {
    sizes.extend([200_000usize, 65518, 65521, 32768, 131072]);
    for _ in 0..20 {
      sizes.push(rng.range(0, 70000));
    }
  }
  for &sz in &sizes {
    for via_batch in [false, true] {
      let Some(mut p) = establish(m, &k, false, None, rng) else {
        rep.inconclusive(format!("{:?} handshake failed in setup", m));
        return;
      };
      let frames = if sz > 2000 && rng.chance(1, 3) { vec![marked_payload(rng, sz / 2, &marker), marked_payload(rng, sz - sz / 2, &marker)] } else { vec![marked_payload(rng, sz, &marker)] };
      let msg = fb(&frames);
      let (src, dst) = if from_client { (&mut p.a, &mut p.b) } else { (&mut p.b, &mut p.a) };
      let sizeclass = if sz <= 65000 { "<=65000" } else if sz < 65520 { "65001..65519" } else { ">=65520" };
      rep.case(&(m, from_client, sz, via_batch, frames.len()), true);
      // --- encode ---
      let wire: Result<Vec<u8>, String> = if via_batch {
        src.eng.frame_batch(&[msg.clone()]).map(|b| b.to_vec()).map_err(|e| format!("{:?}", e))
      } else {
        let out = src.eng.on_app_message(msg.clone());
        let before = src.errors.len();
        let w = src.absorb(out);
        if src.errors.len() > before {
          Err(src.errors.last().cloned().unwrap_or_default())
        } else {
          Ok(w)
        }
      };
      let wire = match wire {
        Err(_e) => {
          // refused with an error at the sender: allowed by the property
          rep.count(&format!("sender_refused[{:?},{}]", m, sizeclass), 1);
          continue;
        }
        Ok(w) => w,
      };
      // --- secrecy ---
      if sz >= MARK && contains(&wire, &marker) {
        rep.violation(format!("plaintext_on_wire|{:?}", m), format!("{:?}: the 32-byte payload marker appears in clear in the bytes sent (message of {} bytes)", m, sz), json!({"size": sz, "via_frame_batch": via_batch}));
      }
      // --- decodability ---
      let mut off = 0;
      while off < wire.len() && !dst.closed() {
        let n = rng.range(1, 9000).min(wire.len() - off);
        let _ = dst.feed(&wire[off..off + n]);
        off += n;
      }
      let ok = dst.errors.is_empty() && dst.delivered.len() == 1 && dst.delivered[0] == frames;
      if !ok {
        rep.violation(
          format!("undecodable|{:?}|size{}|{}", m, sizeclass, if via_batch { "frame_batch" } else { "on_app_message" }),
          format!("{:?}: sender accepted a {}-byte message ({} frames) without error but the peer could not decode it: errors={:?} delivered={}", m, sz, frames.len(), dst.errors, dst.delivered.len()),
          json!({"size": sz, "frames": frames.iter().map(|f| f.len()).collect::<Vec<_>>(), "wire_len": wire.len(), "via_frame_batch": via_batch, "peer_errors": dst.errors}),
        );
      }
    }
  }
  // batches whose total exceeds 64 KiB although each message is small
  for (n, each) in [(10usize, 7000usize), (70, 1000), (3, 30000), (128, 600)] {
    let Some(mut p) = establish(m, &k, false, Some((128, 256 * 1024)), rng) else { return };
    let msgs: Vec<Vec<Vec<u8>>> = (0..n).map(|i| vec![marked_payload(rng, each + i, &marker)]).collect();
    let batch: Vec<FrameBatch> = msgs.iter().map(|f| fb(f)).collect();
    let (src, dst) = if from_client { (&mut p.a, &mut p.b) } else { (&mut p.b, &mut p.a) };
    rep.case(&(m, from_client, "batch", n, each), true);
    match src.eng.frame_batch(&batch) {
      Err(_) => rep.count(&format!("sender_refused[{:?},batch]", m), 1),
      Ok(wire) => {
        if contains(&wire, &marker) {
          rep.violation(format!("plaintext_on_wire|{:?}", m), format!("{:?}: marker in clear in a {}x{} batch", m, n, each), json!({}));
        }
        let _ = dst.feed(&wire);
        if !(dst.errors.is_empty() && dst.delivered == msgs) {
          rep.violation(
            format!("undecodable|{:?}|batch_total_over_64k|frame_batch", m),
            format!("{:?}: a batch of {} messages x ~{} bytes (total {} bytes) was encoded without error but the peer decoded {} messages, errors {:?}", m, n, each, n * each, dst.delivered.len(), dst.errors),
            json!({"messages": n, "each": each, "wire_len": wire.len(), "peer_errors": dst.errors}),
          );
        }
      }
    }
  }
}

/// Heartbeats on an encrypted link: whatever on_tick emits must be decodable by the peer and
/// must not disturb subsequent data.
fn heartbeats_decodable(rep: &mut Report, m: Mech, rng: &mut Rng) {
  let k = keys(m, rng);
  for ticker_is_client in [true, false] {
    let Some(mut p) = establish(m, &k, true, None, rng) else { return };
    rep.case(&(m, "heartbeat", ticker_is_client), true);
    std::thread::sleep(Duration::from_millis(3));
    let (src, dst) = if ticker_is_client { (&mut p.a, &mut p.b) } else { (&mut p.b, &mut p.a) };
    let out = src.eng.on_tick(Instant::now());
    let wire = src.absorb(out);
    if wire.is_empty() {
      rep.inconclusive("on_tick emitted nothing although heartbeat_ivl elapsed".to_string());
      continue;
    }
    rep.count("pings_emitted_on_encrypted_link", 1);
    let back = dst.feed(&wire);
    let mut problems = vec![];
    if !dst.errors.is_empty() || dst.closed() {
      problems.push(format!("peer failed on the PING bytes: {:?}", dst.errors));
    } else {
      // the PONG (if any) must be decodable by the pinger
      let _ = src.feed(&back);
      if !src.errors.is_empty() || src.closed() {
        problems.push(format!("pinger failed on the PONG bytes: {:?}", src.errors));
      } else if src.eng.is_waiting_for_pong() {
        problems.push("PING was not answered by a PONG the pinger understood".to_string());
      }
    }
    // data after the heartbeat must still flow
    if problems.is_empty() {
      let frames = vec![rng.bytes(100)];
      let o = src.eng.on_app_message(fb(&frames));
      let w = src.absorb(o);
      let _ = dst.feed(&w);
      if dst.delivered.last() != Some(&frames) {
        problems.push("data after a heartbeat was not delivered".to_string());
      }
    }
    if !problems.is_empty() {
      rep.violation(format!("heartbeat_breaks_encrypted_link|{:?}", m), format!("{:?}: heartbeat emitted by the {} is not decodable inside the encrypted session: {}", m, if ticker_is_client { "client" } else { "server" }, problems.join("; ")), json!({"ping_wire_len": wire.len(), "problems": problems}));
    }
  }
}

fn records(wire: &[u8]) -> Vec<(usize, usize)> {
  // (offset, total length incl. 2-byte prefix) of each length-prefixed record
  let mut v = vec![];
  let mut off = 0;
  while off + 2 <= wire.len() {
    let l = u16::from_be_bytes([wire[off], wire[off + 1]]) as usize;
    if off + 2 + l > wire.len() {
      break;
    }
    v.push((off, 2 + l));
    off += 2 + l;
  }
  v
}

/// Tampering: any mutation of the ciphertext stream => the receiver delivers only a prefix of
/// the original sequence and (for anything but a pure truncation) ends Closed.
fn tampering(rep: &mut Report, m: Mech, from_client: bool, rng: &mut Rng, thorough: bool) {
  let k = keys(m, rng);
  // reference stream: 6 small messages, each its own record
  let msgs: Vec<Vec<Vec<u8>>> = (0..6).map(|i| if i % 3 == 2 { vec![rng.bytes(5 + i), rng.bytes(40)] } else { vec![rng.bytes(10 + 7 * i)] }).collect();
  let build = |rng: &mut Rng| -> Option<(Pair, Vec<u8>)> {
    let mut p = establish(m, &k, false, None, rng)?;
    let mut wire = vec![];
    for f in &msgs {
      let src = if from_client { &mut p.a } else { &mut p.b };
      let o = src.eng.on_app_message(fb(f));
      wire.extend(src.absorb(o));
    }
    Some((p, wire))
  };
  let Some((_, probe)) = build(rng) else {
    rep.inconclusive("setup failed".to_string());
    return;
  };
  let recs = records(&probe);
  if recs.len() != msgs.len() {
    rep.note(format!("{:?}: stream has {} records for {} messages", m, recs.len(), msgs.len()));
  }
  #[derive(Debug, Clone)]
  enum Mutn {
    Flip(usize, u8),
    DropRec(usize),
    DupRec(usize),
    SwapRec(usize),
    Cut(usize),
    Inject(usize, usize),
    /// a forged, well-framed record (16-bit length n, then n random bytes) inserted in front of record i (or at the end)
    ForgeRec(usize, usize),
  }
  let mut muts: Vec<Mutn> = vec![];
  // every bit of the first 3 records
  let first3_end = recs.iter().take(3).map(|r| r.0 + r.1).max().unwrap_or(0);
  for byte in 0..first3_end {
    for bit in 0..8 {
      if thorough || (byte * 8 + bit) % 5 == 0 {
        muts.push(Mutn::Flip(byte, 1 << bit));
      }
    }
  }
  for _ in 0..(if thorough { 400 } else { 60 }) {
    muts.push(Mutn::Flip(rng.range(first3_end.min(probe.len() - 1), probe.len() - 1), 1 << rng.below(8)));
  }
  for i in 0..recs.len() {
    muts.push(Mutn::DropRec(i));
    muts.push(Mutn::DupRec(i));
    if i + 1 < recs.len() {
      muts.push(Mutn::SwapRec(i));
    }
  }
  for c in 0..probe.len() {
    if thorough || c % 3 == 0 || c < 40 {
      muts.push(Mutn::Cut(c));
    }
  }
  for _ in 0..20 {
    muts.push(Mutn::Inject(rng.range(0, probe.len()), rng.range(1, 40)));
  }
  // forged records at every record boundary: empty, shorter than a MAC, exactly a MAC, longer
  for i in 0..=recs.len() {
    for n in [0usize, 1, 15, 16, 17, 48] {
      muts.push(Mutn::ForgeRec(i, n));
    }
  }
  // double mutations (sampled)
  let n_double = if thorough { 300 } else { 40 };
  let mut doubles: Vec<(Mutn, Mutn)> = vec![];
  for _ in 0..n_double {
    let a = rng.pick(&muts).clone();
    let b = rng.pick(&muts).clone();
    doubles.push((a, b));
  }
  let apply = |w: &[u8], recs: &[(usize, usize)], mu: &Mutn, rng: &mut Rng| -> (Vec<u8>, bool) {
    // returns (mutated, is_pure_truncation)
    let mut v = w.to_vec();
    match mu {
      Mutn::Flip(i, b) => {
        if *i < v.len() {
          v[*i] ^= *b;
        }
        (v, false)
      }
      Mutn::DropRec(i) => {
        if let Some((o, l)) = recs.get(*i) {
          if o + l <= v.len() {
            v.drain(*o..o + l);
          }
        }
        (v, false)
      }
      Mutn::DupRec(i) => {
        if let Some((o, l)) = recs.get(*i) {
          if o + l <= v.len() {
            let r: Vec<u8> = v[*o..o + l].to_vec();
            let at = o + l;
            v.splice(at..at, r);
          }
        }
        (v, false)
      }
      Mutn::SwapRec(i) => {
        if let (Some((o1, l1)), Some((o2, l2))) = (recs.get(*i), recs.get(*i + 1)) {
          if o2 + l2 <= v.len() {
            let r1: Vec<u8> = v[*o1..o1 + l1].to_vec();
            let r2: Vec<u8> = v[*o2..o2 + l2].to_vec();
            let mut nv = v[..*o1].to_vec();
            nv.extend(r2);
            nv.extend(r1);
            nv.extend(&v[o2 + l2..]);
            v = nv;
          }
        }
        (v, false)
      }
      Mutn::Cut(c) => {
        v.truncate(*c);
        (v, true)
      }
      Mutn::Inject(at, n) => {
        let junk = rng.bytes(*n);
        let at = (*at).min(v.len());
        v.splice(at..at, junk);
        (v, false)
      }
      Mutn::ForgeRec(i, n) => {
        let at = recs.get(*i).map(|r| r.0).unwrap_or(v.len()).min(v.len());
        let mut forged = (*n as u16).to_be_bytes().to_vec();
        forged.extend(rng.bytes(*n));
        v.splice(at..at, forged);
        (v, false)
      }
    }
  };
  let mut run_one = |rep: &mut Report, rng: &mut Rng, desc: String, kind: &str, f: &dyn Fn(&[u8], &[(usize, usize)], &mut Rng) -> (Vec<u8>, bool)| {
    let Some((mut p, wire)) = build(rng) else { return };
    let recs = records(&wire);
    let (mutated, pure_trunc) = f(&wire, &recs, rng);
    if mutated == wire {
      return;
    }
    let dst = if from_client { &mut p.b } else { &mut p.a };
    // feed in random chunks, but never panic the harness
    let mut off = 0;
    while off < mutated.len() && !dst.closed() {
      let n = rng.range(1, 64).min(mutated.len() - off);
      let _ = dst.feed(&mutated[off..off + n]);
      off += n;
    }
    rep.case(&(m, from_client, &desc), true);
    let is_prefix = dst.delivered.len() <= msgs.len() && dst.delivered.iter().zip(msgs.iter()).all(|(a, b)| a == b);
    if !is_prefix {
      rep.violation(format!("tampered_stream_delivered_wrong_data|{:?}|{}", m, kind), format!("{:?}: after mutation {} the receiver delivered something that is not a prefix of the original messages", m, desc), json!({"mutation": desc, "delivered": dst.delivered.len(), "original": msgs.len()}));
    } else if !pure_trunc && !dst.closed() && dst.eng.buffer_len() == 0 && !wire.starts_with(&mutated) {
      // The receiver consumed every mutated byte without complaint and is not waiting for the
      // rest of a record: the mutation was absorbed silently. (An engine that is still open but
      // holds an incomplete record is indistinguishable from a slow link at this level - the
      // transport's EOF ends it - and a mutated stream that is a prefix of the original is a
      // truncation; neither is judged.)
      rep.violation(format!("tampered_stream_not_closed|{:?}|{}", m, kind), format!("{:?}: after mutation {} the receiving engine is still open (delivered {} of {})", m, desc, dst.delivered.len(), msgs.len()), json!({"mutation": desc, "delivered": dst.delivered.len(), "errors": dst.errors}));
    }
  };
  for mu in &muts {
    let kind = format!("{:?}", mu).split('(').next().unwrap().to_string();
    let mu2 = mu.clone();
    run_one(rep, rng, format!("{:?}", mu), &kind, &|w, r, g| apply(w, r, &mu2, g));
  }
  for (a, b) in &doubles {
    let (a2, b2) = (a.clone(), b.clone());
    run_one(rep, rng, format!("{:?}+{:?}", a, b), "double", &|w, r, g| {
      let (v1, t1) = apply(w, r, &a2, g);
      let r2 = records(&v1);
      let (v2, t2) = apply(&v1, &r2, &b2, g);
      // a cut combined with anything else that changed earlier bytes is not a pure truncation
      let pure = (t1 || t2) && w.starts_with(&v2);
      (v2, pure)
    });
  }
  rep.sample(json!({"mech": format!("{:?}", m), "from_client": from_client, "stream_len": probe.len(), "records": recs.len(), "single_mutations": muts.len(), "double_mutations": doubles.len()}));
}

/// Two sessions with the same static keys must not encrypt the same first plaintext to the
/// same bytes.
fn session_distinctness(rep: &mut Report, m: Mech, rng: &mut Rng, sessions: usize) {
  let k = keys(m, rng);
  let plaintext = vec![rng.bytes(64)];
  for from_client in [true, false] {
    let mut seen: Vec<Vec<u8>> = vec![];
    for _ in 0..sessions {
      let Some(mut p) = establish(m, &k, false, None, rng) else { return };
      let src = if from_client { &mut p.a } else { &mut p.b };
      let o = src.eng.on_app_message(fb(&plaintext));
      let w = src.absorb(o);
      seen.push(w);
    }
    rep.case(&(m, "distinct", from_client, sessions), true);
    let mut dup = false;
    for i in 0..seen.len() {
      for j in (i + 1)..seen.len() {
        if seen[i] == seen[j] && !seen[i].is_empty() {
          dup = true;
        }
      }
    }
    if dup {
      rep.violation(format!("same_ciphertext_across_sessions|{:?}", m), format!("{:?}: {} sessions between the same static key pairs encrypted the same first plaintext ({} direction) to identical bytes", m, sessions, if from_client { "client->server" } else { "server->client" }), json!({"sessions": sessions, "wire_len": seen[0].len()}));
    }
  }
}

/// (stack) real sockets over CURVE / NOISE_XX: bursts that the session coalesces into batches far beyond one 64 KiB
/// record, single messages beyond a record, multipart messages. Every message send() accepted must be decodable by the
/// peer - i.e. arrive, exactly once, in order, byte-exact (the C01 oracle); an accepted message that kills the
/// connection or vanishes is "silently mangled".
async fn stack_case(rep: &mut Report, rng: &mut Rng, m: Mech, tr: util::Transport, shape: &'static str, dealer: bool) {
  use rzmq::socket::options as opt;
  use rzmq::SocketType;
  use vh::oracles::{self, SendStatus, SentMsg};
  let k = keys(m, rng);
  let ctx = util::new_ctx();
  let (st, rt) = if dealer { (SocketType::Dealer, SocketType::Router) } else { (SocketType::Push, SocketType::Pull) };
  let r = ctx.socket(rt).unwrap();
  let s = ctx.socket(st).unwrap();
  match m {
    Mech::Curve => {
      r.set_option(opt::CURVE_SERVER, true).await.unwrap();
      r.set_option_raw(opt::CURVE_SECRET_KEY, &k.srv.0).await.unwrap();
      s.set_option_raw(opt::CURVE_SECRET_KEY, &k.cli.0).await.unwrap();
      s.set_option_raw(opt::CURVE_SERVER_KEY, &k.srv.1).await.unwrap();
    }
    Mech::Noise => {
      r.set_option(opt::NOISE_XX_ENABLED, true).await.unwrap();
      r.set_option_raw(opt::NOISE_XX_STATIC_SECRET_KEY, &k.srv.0).await.unwrap();
      s.set_option(opt::NOISE_XX_ENABLED, true).await.unwrap();
      s.set_option_raw(opt::NOISE_XX_STATIC_SECRET_KEY, &k.cli.0).await.unwrap();
      s.set_option_raw(opt::NOISE_XX_REMOTE_STATIC_PUBLIC_KEY, &k.srv.1).await.unwrap();
    }
  }
  util::set_i32(&r, opt::RCVTIMEO, 1500).await;
  util::set_i32(&s, opt::SNDTIMEO, 5000).await;
  let ep = match util::bind_fresh(&r, tr).await {
    Ok(e) => e,
    Err(e) => {
      rep.inconclusive(format!("bind {e}"));
      return;
    }
  };
  let _ = s.connect(&ep).await;
  tokio::time::sleep(Duration::from_millis(500)).await;
  let run = (rng.next() & 0x7FFF_FFFF) as u32;
  let plan: Vec<Vec<usize>> = match shape {
    "burst_1k" => (0..300).map(|_| vec![1024]).collect(),
    "burst_mixed" => (0..120).map(|i| if i == 60 { vec![70_000] } else if i % 7 == 3 { vec![vh::payload::HDR + 5, 0, 3000] } else { vec![vh::payload::HDR + (i * 37) % 2000] }).collect(),
    "big_singles" => vec![vec![65_000], vec![65_519], vec![65_520], vec![66_000], vec![200_000], vec![100]],
    _ => (0..40).map(|i| vec![vh::payload::HDR + 20, 30_000 + i * 100, 0, 20_000]).collect(),
  };
  let mut sent: Vec<SentMsg> = vec![];
  for (seq, lens) in plan.iter().enumerate() {
    let lens: Vec<usize> = lens.iter().map(|l| (*l).max(if lens.len() == 1 { vh::payload::HDR } else { 0 })).collect();
    let frames = oracles::build_message(run, 1, seq as u32, u32::MAX, &lens);
    let nf = frames.len();
    let msgs: Vec<rzmq::Msg> = frames.into_iter().enumerate().map(|(i, f)| util::msg(f, i + 1 < nf)).collect();
    let ok = s.send_multipart(msgs).await.is_ok();
    sent.push(SentMsg { sender: 1, seq: seq as u32, dest: u32::MAX, frame_lens: lens, status: if ok { SendStatus::Accepted } else { SendStatus::Maybe } });
    // DEALER egress keeps order only when paced (recorded under C01)
    if dealer && seq % 8 == 7 {
      tokio::time::sleep(Duration::from_millis(2)).await;
    }
  }
  let mut got: Vec<Vec<Vec<u8>>> = vec![];
  let mut idle = 0;
  while idle < 2 {
    match r.recv_multipart().await {
      Ok(mm) => {
        idle = 0;
        let mut v: Vec<Vec<u8>> = mm.into_iter().map(|f| f.data().unwrap_or(&[]).to_vec()).collect();
        if dealer && !v.is_empty() {
          v.remove(0);
        }
        got.push(v);
      }
      Err(_) => idle += 1,
    }
  }
  let f = oracles::check_receiver(run, &sent, &got, None, true);
  let mut kinds = f.kinds();
  if dealer {
    kinds.retain(|k| *k != "reordered");
  }
  let accepted = sent.iter().filter(|x| x.status == SendStatus::Accepted).count();
  rep.case(&("stack", m, tr, shape, dealer), true);
  rep.count("stack_messages_accepted", accepted as u64);
  rep.count("stack_messages_received", got.len() as u64);
  if !kinds.is_empty() {
    rep.violation(
      format!("accepted_messages_not_decodable_by_peer|{:?}|{}|{}", m, shape, kinds.join("+")),
      format!("{:?} {} over {} ({}): {} accepted, {} received: {}", m, if dealer { "DEALER->ROUTER" } else { "PUSH->PULL" }, tr.name(), shape, accepted, got.len(), kinds.join("+")),
      json!({"mechanism": format!("{:?}", m), "shape": shape, "accepted": accepted, "received": got.len(), "findings": f.to_json()}),
    );
  }
  let _ = tokio::time::timeout(Duration::from_secs(12), ctx.term()).await;
}

/// (stack, heartbeats) an encrypted link whose reader stalls for two seconds with heartbeats running: PINGs and PONGs
/// are sealed while older sealed records are still waiting in the egress buffer (small kernel buffers, HWM 10). When
/// the reader resumes, everything accepted must arrive - a heartbeat record that jumps the queue breaks the nonce order
/// and kills the link.
async fn hb_stall_case(rep: &mut Report, rng: &mut Rng, m: Option<Mech>, hb_on: &'static str) {
  use rzmq::socket::options as opt;
  use rzmq::SocketType;
  use vh::oracles::{self, SendStatus, SentMsg};
  let ctx = util::new_ctx();
  let r = ctx.socket(SocketType::Pull).unwrap();
  let s = ctx.socket(SocketType::Push).unwrap();
  if let Some(m) = m {
    let k = keys(m, rng);
    match m {
      Mech::Curve => {
        r.set_option(opt::CURVE_SERVER, true).await.unwrap();
        r.set_option_raw(opt::CURVE_SECRET_KEY, &k.srv.0).await.unwrap();
        s.set_option_raw(opt::CURVE_SECRET_KEY, &k.cli.0).await.unwrap();
        s.set_option_raw(opt::CURVE_SERVER_KEY, &k.srv.1).await.unwrap();
      }
      Mech::Noise => {
        r.set_option(opt::NOISE_XX_ENABLED, true).await.unwrap();
        r.set_option_raw(opt::NOISE_XX_STATIC_SECRET_KEY, &k.srv.0).await.unwrap();
        s.set_option(opt::NOISE_XX_ENABLED, true).await.unwrap();
        s.set_option_raw(opt::NOISE_XX_STATIC_SECRET_KEY, &k.cli.0).await.unwrap();
        s.set_option_raw(opt::NOISE_XX_REMOTE_STATIC_PUBLIC_KEY, &k.srv.1).await.unwrap();
      }
    }
  }
  for x in [&r, &s] {
    util::set_i32(x, opt::SNDHWM, 10).await;
    util::set_i32(x, opt::RCVHWM, 10).await;
    util::set_i32(x, opt::SNDBUF, 32 * 1024).await;
    util::set_i32(x, opt::RCVBUF, 32 * 1024).await;
  }
  if hb_on == "reader" || hb_on == "both" {
    util::set_i32(&r, opt::HEARTBEAT_IVL, 100).await;
    util::set_i32(&r, opt::HEARTBEAT_TIMEOUT, 20_000).await;
  }
  if hb_on == "sender" || hb_on == "both" {
    util::set_i32(&s, opt::HEARTBEAT_IVL, 100).await;
    util::set_i32(&s, opt::HEARTBEAT_TIMEOUT, 20_000).await;
  }
  util::set_i32(&r, opt::RCVTIMEO, 2000).await;
  util::set_i32(&s, opt::SNDTIMEO, 0).await;
  let mon = s.monitor(256).await.unwrap();
  let ep = match util::bind_fresh(&r, util::Transport::Tcp).await {
    Ok(e) => e,
    Err(e) => {
      rep.inconclusive(format!("bind {e}"));
      return;
    }
  };
  let _ = s.connect(&ep).await;
  tokio::time::sleep(Duration::from_millis(500)).await;
  let run = (rng.next() & 0x7FFF_FFFF) as u32;
  let mut sent: Vec<SentMsg> = vec![];
  let t0 = Instant::now();
  let mut seq = 0u32;
  while t0.elapsed() < Duration::from_secs(2) {
    let lens = vec![20_000usize];
    let fr = oracles::build_message(run, 1, seq, u32::MAX, &lens);
    if s.send(util::msg(fr[0].clone(), false)).await.is_ok() {
      sent.push(SentMsg { sender: 1, seq, dest: u32::MAX, frame_lens: lens, status: SendStatus::Accepted });
      seq += 1;
    } else {
      tokio::time::sleep(Duration::from_millis(5)).await;
    }
  }
  let mut got: Vec<Vec<Vec<u8>>> = vec![];
  while let Ok(mm) = r.recv_multipart().await {
    got.push(mm.into_iter().map(|f| f.data().unwrap_or(&[]).to_vec()).collect());
  }
  let mut dropped = false;
  while let Ok(Ok(ev)) = tokio::time::timeout(Duration::from_millis(20), mon.recv()).await {
    if matches!(ev, rzmq::socket::SocketEvent::Disconnected { .. }) {
      dropped = true;
    }
  }
  let f = oracles::check_receiver(run, &sent, &got, None, true);
  let mname = m.map(|m| format!("{:?}", m)).unwrap_or("Null".into());
  rep.case(&("hb_stall", &mname, hb_on), true);
  rep.count("hb_stall_messages_accepted", sent.len() as u64);
  if !f.ok() || dropped {
    rep.violation(
      format!("stalled_reader_with_heartbeats_loses_accepted_messages|{}|hb={}", mname, hb_on),
      format!("{} PUSH->PULL over tcp, heartbeats (100 ms) on {}: the reader stalled for 2 s and then read everything available: {} accepted, {} received, sender saw Disconnected: {}; {}", mname, hb_on, sent.len(), got.len(), dropped, f.kinds().join("+")),
      json!({"mechanism": mname, "heartbeats_on": hb_on, "accepted": sent.len(), "received": got.len(), "disconnected": dropped, "findings": f.to_json()}),
    );
  }
  let _ = tokio::time::timeout(Duration::from_secs(12), ctx.term()).await;
}

fn main() {
  let args = Args::parse();
  util::install_panic_watch();
  let mut rep = Report::new("C18", &args.shard_name());
  let mut rng = Rng::new(args.seed.wrapping_mul(15485863).wrapping_add(args.shard as u64));
  if args.only.as_deref() == Some("stack") {
    let rt = util::runtime(2);
    let mut i = 0;
    for m in [Mech::Curve, Mech::Noise] {
      for shape in ["burst_1k", "burst_mixed", "big_singles", "multipart_big"] {
        for (tr, dealer) in [(util::Transport::Tcp, false), (util::Transport::Ipc, true)] {
          i += 1;
          if !args.mine(i) || (!args.thorough() && dealer && shape != "burst_1k") {
            continue;
          }
          util::guarded(&rt, stack_case(&mut rep, &mut rng, m, tr, shape, dealer));
        }
      }
    }
    for m in [Some(Mech::Curve), Some(Mech::Noise), None] {
      for hb_on in ["reader", "sender", "both"] {
        i += 1;
        if !args.mine(i) || (!args.thorough() && m.is_none() && hb_on != "both") {
          continue;
        }
        util::guarded(&rt, hb_stall_case(&mut rep, &mut rng, m, hb_on));
      }
    }
    util::cleanup_ipc_dir();
    for p in util::take_panics() {
      if p.in_rzmq {
        rep.violation(format!("panic|{}", util::panic_site(&p.location)), format!("panic at {}: {}", p.location, p.message), json!({"frames": p.backtrace_head}));
      } else {
        rep.inconclusive(format!("harness panic at {}: {}", p.location, p.message));
      }
    }
    rep.merge_hooks();
    rep.emit();
    return;
  }
  let mut idx = 0;
  for m in [Mech::Curve, Mech::Noise] {
    for from_client in [true, false] {
      for part in 0..4 {
        idx += 1;
        if !args.mine(idx) {
          continue;
        }
        let r = std::panic::catch_unwind(std::panic::AssertUnwindSafe(|| match part {
          0 => secrecy_and_decodability(&mut rep, m, from_client, &mut rng, args.thorough()),
          1 => tampering(&mut rep, m, from_client, &mut rng, args.thorough()),
          2 => {
            if from_client {
              heartbeats_decodable(&mut rep, m, &mut rng)
            }
          }
          _ => {
            if from_client {
              session_distinctness(&mut rep, m, &mut rng, if args.thorough() { 5 } else { 3 })
            }
          }
        }));
        if r.is_err() {
          rep.note(format!("part {} for {:?} ended by a panic", part, m));
        }
      }
    }
  }
  for p in util::take_panics() {
    if p.in_rzmq {
      rep.violation(format!("panic|{}", util::panic_site(&p.location)), format!("panic at {}: {}", p.location, p.message), json!({"frames": p.backtrace_head}));
    } else {
      rep.inconclusive(format!("harness panic at {}: {}", p.location, p.message));
    }
  }
  let _ = Bytes::new();
  rep.emit();
}

//! C10 — REQ and REP enforce strict alternation for every call history.
//! Boundary log of (call, return, result) per operation from one logical clock; exhaustive
//! linearisation search of the successful operations against the two-state automaton;
//! gate-forced check-then-act windows; reply routing with several peers.

use rzmq::socket::options as opt;
use rzmq::verif;
use rzmq::{Socket, SocketType};
use serde_json::json;
use std::sync::atomic::{AtomicU64, Ordering};
use std::sync::Arc;
use std::time::Duration;
use vh::args::Args;
use vh::gen::Rng;
use vh::oracles::{alternation_linearizable, alternation_necessary, Op};
use vh::report::Report;
use vh::util::{self, Transport};

static CLOCK: AtomicU64 = AtomicU64::new(1);
fn tick() -> u64 {
  CLOCK.fetch_add(1, Ordering::SeqCst)
}

fn is_state_err(e: &rzmq::ZmqError) -> bool {
  matches!(e, rzmq::ZmqError::InvalidState(_))
}

async fn echo_rep_server(rep_sock: Socket) {
  // plain echo server (one task, lock-step): the REP under test is NOT this one
  loop {
    match rep_sock.recv_multipart().await {
      Ok(m) => {
        let _ = rep_sock.send_multipart(m).await;
      }
      Err(rzmq::ZmqError::Timeout) => continue,
      Err(_) => return,
    }
  }
}

struct Hist {
  ops: Vec<Op>,
  results: Vec<String>,
}

/// REQ under test: `tasks` tasks on clones issue random send/recv; peers are echo REP servers.
async fn req_history(rng: &mut Rng, tr: Transport, tasks: usize, peers: usize, nops: usize, perturb: bool) -> Option<Hist> {
  let ctx = util::new_ctx();
  let req = ctx.socket(SocketType::Req).ok()?;
  util::set_i32(&req, opt::RCVTIMEO, 120).await;
  util::set_i32(&req, opt::SNDTIMEO, 300).await;
  let mut servers = vec![];
  for _ in 0..peers {
    let r = ctx.socket(SocketType::Rep).ok()?;
    util::set_i32(&r, opt::RCVTIMEO, 200).await;
    let ep = util::bind_fresh(&r, tr).await.ok()?;
    req.connect(&ep).await.ok()?;
    servers.push(tokio::spawn(echo_rep_server(r)));
  }
  tokio::time::sleep(Duration::from_millis(if tr == Transport::Inproc { 30 } else { 200 })).await;
  verif::set_perturbation(if perturb { rng.next() | 1 } else { 0 });
  let log: Arc<parking_lot::Mutex<Vec<(Op, String)>>> = Default::default();
  let mut hs = vec![];
  for t in 0..tasks {
    let req = req.clone();
    let log = log.clone();
    let mut r2 = rng.fork(t as u64 + 11);
    let n = nops / tasks + 1;
    hs.push(tokio::spawn(async move {
      for i in 0..n {
        let kind = if r2.chance(1, 2) { 'S' } else { 'R' };
        let call = tick();
        let res: Result<(), rzmq::ZmqError> = if kind == 'S' {
          req.send(util::msg(format!("t{}-{}", t, i).into_bytes(), false)).await
        } else if r2.chance(1, 3) {
          req.recv_multipart().await.map(|_| ())
        } else {
          req.recv().await.map(|_| ())
        };
        let ret = tick();
        let ok = res.is_ok();
        let desc = match &res {
          Ok(()) => "ok".to_string(),
          Err(e) => util::err_kind(e),
        };
        log.lock().push((Op { task: t, kind, call, ret, ok }, desc));
        if r2.chance(1, 4) {
          tokio::task::yield_now().await;
        }
      }
    }));
  }
  for h in hs {
    let _ = tokio::time::timeout(Duration::from_secs(20), h).await;
  }
  verif::set_perturbation(0);
  for s in servers {
    s.abort();
  }
  let _ = tokio::time::timeout(Duration::from_secs(12), ctx.term()).await;
  let l = log.lock().clone();
  Some(Hist { ops: l.iter().map(|x| x.0.clone()).collect(), results: l.iter().map(|x| x.1.clone()).collect() })
}

/// REP under test: tasks issue random recv/send; peers are DEALER clients that keep requests coming.
async fn rep_history(rng: &mut Rng, tr: Transport, tasks: usize, peers: usize, nops: usize, perturb: bool) -> Option<Hist> {
  let ctx = util::new_ctx();
  let rep = ctx.socket(SocketType::Rep).ok()?;
  util::set_i32(&rep, opt::RCVTIMEO, 120).await;
  util::set_i32(&rep, opt::SNDTIMEO, 300).await;
  let ep = util::bind_fresh(&rep, tr).await.ok()?;
  let mut clients = vec![];
  for p in 0..peers {
    let st = if tr == Transport::Inproc { SocketType::Req } else { SocketType::Dealer };
    let d = ctx.socket(st).ok()?;
    util::set_i32(&d, opt::RCVTIMEO, 50).await;
    util::set_i32(&d, opt::SNDTIMEO, 200).await;
    d.connect(&ep).await.ok()?;
    clients.push(tokio::spawn(async move {
      let mut k = 0u32;
      loop {
        let _ = d.send(util::msg(format!("c{}-{}", p, k).into_bytes(), false)).await;
        k += 1;
        let _ = d.recv_multipart().await;
        tokio::time::sleep(Duration::from_millis(3)).await;
        if k > 5000 {
          return;
        }
      }
    }));
  }
  // an unrelated peer that keeps connecting and disconnecting without ever sending a request
  if tr != Transport::Inproc {
    let ctx2 = ctx.clone();
    let ep2 = ep.clone();
    clients.push(tokio::spawn(async move {
      for _ in 0..200 {
        if let Ok(idle) = ctx2.socket(SocketType::Dealer) {
          let _ = idle.connect(&ep2).await;
          tokio::time::sleep(Duration::from_millis(25)).await;
          let _ = idle.close().await;
        }
        tokio::time::sleep(Duration::from_millis(10)).await;
      }
    }));
  }
  tokio::time::sleep(Duration::from_millis(if tr == Transport::Inproc { 30 } else { 200 })).await;
  verif::set_perturbation(if perturb { rng.next() | 1 } else { 0 });
  let log: Arc<parking_lot::Mutex<Vec<(Op, String)>>> = Default::default();
  let mut hs = vec![];
  for t in 0..tasks {
    let rep = rep.clone();
    let log = log.clone();
    let mut r2 = rng.fork(t as u64 + 31);
    let n = nops / tasks + 1;
    hs.push(tokio::spawn(async move {
      for i in 0..n {
        let kind = if r2.chance(1, 2) { 'R' } else { 'S' };
        let call = tick();
        let res: Result<(), rzmq::ZmqError> = if kind == 'S' {
          if r2.chance(1, 3) {
            rep.send_multipart(vec![util::msg(format!("r{}-{}", t, i).into_bytes(), false)]).await
          } else {
            rep.send(util::msg(format!("r{}-{}", t, i).into_bytes(), false)).await
          }
        } else if r2.chance(1, 3) {
          rep.recv_multipart().await.map(|_| ())
        } else {
          rep.recv().await.map(|_| ())
        };
        let ret = tick();
        let ok = res.is_ok();
        let desc = match &res {
          Ok(()) => "ok".to_string(),
          Err(e) => util::err_kind(e),
        };
        log.lock().push((Op { task: t, kind, call, ret, ok }, desc));
        if r2.chance(1, 4) {
          tokio::task::yield_now().await;
        }
      }
    }));
  }
  for h in hs {
    let _ = tokio::time::timeout(Duration::from_secs(20), h).await;
  }
  verif::set_perturbation(0);
  for c in clients {
    c.abort();
  }
  let _ = tokio::time::timeout(Duration::from_secs(12), ctx.term()).await;
  let l = log.lock().clone();
  Some(Hist { ops: l.iter().map(|x| x.0.clone()).collect(), results: l.iter().map(|x| x.1.clone()).collect() })
}

fn judge(rep: &mut Report, which: &str, first: char, tasks: usize, h: &Hist, ctx: &str) {
  let mut ops = h.ops.clone();
  ops.sort_by_key(|o| o.call);
  let lin = alternation_linearizable(&ops, first);
  let nec = alternation_necessary(&ops, first);
  let render: Vec<String> = {
    let mut v: Vec<(u64, String)> = h.ops.iter().zip(h.results.iter()).map(|(o, r)| (o.call, format!("t{} {}[{}..{}] {}", o.task, o.kind, o.call, o.ret, r))).collect();
    v.sort();
    v.into_iter().map(|x| x.1).collect()
  };
  if !lin {
    let mut mode = if tasks == 1 { "sequential" } else { "concurrent" };
    if which == "REQ" {
      // recorded defect: a recv() that fails with Timeout puts REQ back into ready-to-send. If the
      // history becomes linearisable once timed-out recvs are counted as state-resetting recvs,
      // it is that defect and nothing else.
      let relaxed: Vec<Op> = h.ops.iter().zip(h.results.iter()).map(|(o, r)| { let mut o = o.clone(); if o.kind == 'R' && !o.ok && r == "Timeout" { o.ok = true; } o }).collect();
      let mut rs = relaxed.clone();
      rs.sort_by_key(|o| o.call);
      if alternation_linearizable(&rs, first) {
        mode = "recv_timeout_resets_state";
      }
    }
    rep.violation(
      format!("alternation_broken|{}|{}", which, mode),
      format!("{}: the successful operations admit no linearisation that alternates {} ({}; necessary count condition holds: {})", which, if first == 'S' { "send,recv,send,.." } else { "recv,send,recv,.." }, ctx, nec),
      json!({"context": ctx, "history": render.iter().take(40).collect::<Vec<_>>(), "ok_sends": ops.iter().filter(|o| o.ok && o.kind == 'S').count(), "ok_recvs": ops.iter().filter(|o| o.ok && o.kind == 'R').count()}),
    );
  }
  // any failure other than invalid-state / timeout / would-block is noteworthy but not judged here
}

/// Gate-forced window: hold one task between the state check and the state update until a second
/// task has passed the check as well.
async fn gate_case(rep: &mut Report, which: &str) {
  let ctx = util::new_ctx();
  let (st, peer_t) = if which == "REQ" { (SocketType::Req, SocketType::Rep) } else { (SocketType::Rep, SocketType::Dealer) };
  let s = ctx.socket(st).unwrap();
  util::set_i32(&s, opt::RCVTIMEO, 1500).await;
  util::set_i32(&s, opt::SNDTIMEO, 1500).await;
  let ep = util::bind_fresh(&s, Transport::Tcp).await.unwrap();
  let gate = if which == "REQ" { "req.send.after_check" } else { "rep.recv.after_check" };
  let mut aux = vec![];
  if which == "REQ" {
    let r = ctx.socket(peer_t).unwrap();
    util::set_i32(&r, opt::RCVTIMEO, 300).await;
    r.connect(&ep).await.unwrap();
    aux.push(tokio::spawn(echo_rep_server(r)));
  } else {
    for p in 0..2 {
      let d = ctx.socket(peer_t).unwrap();
      d.connect(&ep).await.unwrap();
      let _ = d.send(util::msg(format!("req-from-{}", p).into_bytes(), false)).await;
      aux.push(tokio::spawn(async move {
        let _ = d.recv_multipart().await;
      }));
    }
  }
  tokio::time::sleep(Duration::from_millis(300)).await;
  verif::arm_gate(gate, 1);
  let log: Arc<parking_lot::Mutex<Vec<Op>>> = Default::default();
  let mut hs = vec![];
  for t in 0..2 {
    let s = s.clone();
    let log = log.clone();
    let which = which.to_string();
    hs.push(tokio::spawn(async move {
      let call = tick();
      let ok = if which == "REQ" { s.send(util::msg(format!("q{}", t).into_bytes(), false)).await.is_ok() } else { s.recv().await.is_ok() };
      let ret = tick();
      log.lock().push(Op { task: t, kind: if which == "REQ" { 'S' } else { 'R' }, call, ret, ok });
    }));
    // let the first one reach the gate before the second starts
    let t0 = std::time::Instant::now();
    while t == 0 && verif::gate_arrived(gate) == 0 && t0.elapsed() < Duration::from_secs(2) {
      tokio::task::yield_now().await;
    }
  }
  let arrived = verif::gate_arrived(gate);
  // the second task runs to completion while the first is held
  tokio::time::sleep(Duration::from_millis(400)).await;
  verif::release_gate(gate);
  for h in hs {
    let _ = tokio::time::timeout(Duration::from_secs(5), h).await;
  }
  rep.case(&("gate", which), true);
  if arrived == 0 {
    rep.inconclusive(format!("gate {} never reached", gate));
  } else {
    let ops = log.lock().clone();
    let first = if which == "REQ" { 'S' } else { 'R' };
    if !alternation_linearizable(&ops, first) {
      rep.violation(
        format!("alternation_broken|{}|check_then_act_window", which),
        format!("{}: two racing {} calls both succeeded: the second passed the state check while the first sat between its own check and the state update", which, if which == "REQ" { "send()" } else { "recv()" }),
        json!({"schedule": ["task0: state check passes", "gate holds task0 before it acts", "task1: state check passes (state not yet updated), call completes Ok", "release gate", "task0: call completes Ok as well"], "ops": ops.iter().map(|o| format!("t{} {} ok={}", o.task, o.kind, o.ok)).collect::<Vec<_>>()}),
      );
    }
  }
  for a in aux {
    a.abort();
  }
  let _ = tokio::time::timeout(Duration::from_secs(12), ctx.term()).await;
}

/// A REQ whose reply is late: send ok, recv times out, then send again. The operations that
/// succeed must still alternate, so the second send has to be refused until a recv succeeded.
async fn late_reply_case(rep: &mut Report) {
  let ctx = util::new_ctx();
  let req = ctx.socket(SocketType::Req).unwrap();
  util::set_i32(&req, opt::RCVTIMEO, 100).await;
  util::set_i32(&req, opt::SNDTIMEO, 500).await;
  let r = ctx.socket(SocketType::Rep).unwrap();
  util::set_i32(&r, opt::RCVTIMEO, 2000).await;
  let ep = util::bind_fresh(&r, Transport::Tcp).await.unwrap();
  req.connect(&ep).await.unwrap();
  tokio::time::sleep(Duration::from_millis(250)).await;
  // the REP answers only after 400 ms
  let server = tokio::spawn(async move {
    while let Ok(m) = r.recv_multipart().await {
      tokio::time::sleep(Duration::from_millis(400)).await;
      let _ = r.send_multipart(m).await;
    }
  });
  let mut ops: Vec<Op> = vec![];
  let mut desc = vec![];
  let mut push = |kind: char, res: Result<(), rzmq::ZmqError>, call: u64| {
    let ret = tick();
    desc.push(format!("{} {}", kind, match &res { Ok(()) => "ok".to_string(), Err(e) => util::err_kind(e) }));
    ops.push(Op { task: 0, kind, call, ret, ok: res.is_ok() });
  };
  let c = tick();
  push('S', req.send(util::msg(b"q1".to_vec(), false)).await, c);
  let c = tick();
  push('R', req.recv().await.map(|_| ()), c);
  let c = tick();
  push('S', req.send(util::msg(b"q2".to_vec(), false)).await, c);
  let c = tick();
  push('S', req.send(util::msg(b"q3".to_vec(), false)).await, c);
  rep.case(&("late_reply", desc.clone()), true);
  if !alternation_linearizable(&ops, 'S') {
    rep.violation("alternation_broken|REQ|recv_timeout_resets_state".to_string(), format!("REQ (one task): {:?} - two sends succeeded with no successful recv in between: a recv() that timed out put the socket back into the ready-to-send state", desc), json!({"history": desc}));
  }
  server.abort();
  let _ = tokio::time::timeout(Duration::from_secs(12), ctx.term()).await;
}

/// A reply is owed to peer A; meanwhile another peer B (or A itself) goes away. The REP must
/// still answer A / must accept the next request, i.e. stay on the alternation track.
async fn disconnect_while_reply_owed_case(rep: &mut Report, requester_leaves: bool, tr: Transport) {
  use rzmq::socket::SocketEvent;
  let ctx = util::new_ctx();
  let r = ctx.socket(SocketType::Rep).unwrap();
  util::set_i32(&r, opt::RCVTIMEO, 1500).await;
  util::set_i32(&r, opt::SNDTIMEO, 1500).await;
  let mon = r.monitor(256).await.unwrap();
  let ep = util::bind_fresh(&r, tr).await.unwrap();
  let a = ctx.socket(SocketType::Req).unwrap();
  util::set_i32(&a, opt::RCVTIMEO, 2000).await;
  let b = ctx.socket(SocketType::Req).unwrap();
  a.connect(&ep).await.unwrap();
  b.connect(&ep).await.unwrap();
  tokio::time::sleep(Duration::from_millis(250)).await;
  let mut desc: Vec<String> = vec![];
  let _ = a.send(util::msg(b"from-A".to_vec(), false)).await;
  let g = r.recv().await;
  desc.push(format!("REP.recv -> {}", g.as_ref().map(|m| String::from_utf8_lossy(m.data().unwrap_or(&[])).into_owned()).unwrap_or_else(|e| util::err_kind(e))));
  if requester_leaves {
    let _ = a.close().await;
  } else {
    let _ = b.close().await;
  }
  let _ = util::wait_event(&mon, Duration::from_secs(2), |e| matches!(e, SocketEvent::Disconnected { .. })).await;
  tokio::time::sleep(Duration::from_millis(100)).await;
  let s = r.send(util::msg(b"reply-to-A".to_vec(), false)).await;
  desc.push(format!("REP.send -> {}", s.as_ref().map(|_| "ok".to_string()).unwrap_or_else(|e| util::err_kind(e))));
  rep.case(&("disconnect_while_reply_owed", requester_leaves, tr), true);
  let sig_tail = if requester_leaves { "requester_left" } else { "other_peer_left" };
  if !requester_leaves {
    if s.is_err() {
      rep.violation(format!("reply_owed_lost_on_unrelated_disconnect|{}", sig_tail), format!("REP over {}: after recv() of A's request an UNRELATED peer disconnected; the owed send() failed: {:?}", tr.name(), desc), json!({"history": desc}));
    } else {
      match a.recv().await {
        Ok(m) if m.data() == Some(b"reply-to-A") => {}
        other => rep.violation(format!("reply_owed_lost_on_unrelated_disconnect|{}", sig_tail), format!("REP over {}: the reply did not reach the requester after an unrelated peer disconnected: {:?}", tr.name(), other.map(|m| m.size()).map_err(|e| util::err_kind(&e))), json!({"history": desc})),
      }
    }
  }
  // whatever happened to that reply, the REP must now be ready to receive the next request
  let c = ctx.socket(SocketType::Req).unwrap();
  util::set_i32(&c, opt::RCVTIMEO, 2000).await;
  c.connect(&ep).await.unwrap();
  tokio::time::sleep(Duration::from_millis(200)).await;
  let _ = c.send(util::msg(b"from-C".to_vec(), false)).await;
  let g2 = r.recv().await;
  let s2 = r.send(util::msg(b"reply-to-C".to_vec(), false)).await;
  let c_got = c.recv().await;
  desc.push(format!("REP.recv -> {:?}; REP.send -> {:?}", g2.as_ref().map(|m| m.size()).map_err(|e| util::err_kind(e)), s2.as_ref().map_err(|e| util::err_kind(e))));
  if !(matches!(&g2, Ok(m) if m.data() == Some(b"from-C")) && s2.is_ok() && matches!(&c_got, Ok(m) if m.data() == Some(b"reply-to-C"))) {
    rep.violation(format!("rep_off_track_after_disconnect|{}", sig_tail), format!("REP over {}: after a peer disconnected while a reply was owed, the next request/reply round failed: {:?}", tr.name(), desc), json!({"history": desc}));
  }
  let _ = tokio::time::timeout(Duration::from_secs(12), ctx.term()).await;
}

/// Reply routing: one REP (single task, lock-step) with 3 DEALER clients; REP echoes the request;
/// every client must only ever receive echoes of its own requests, each exactly once.
async fn routing_case(rep: &mut Report, rng: &mut Rng, tr: Transport) {
  let ctx = util::new_ctx();
  let r = ctx.socket(SocketType::Rep).unwrap();
  util::set_i32(&r, opt::RCVTIMEO, 400).await;
  let ep = util::bind_fresh(&r, tr).await.unwrap();
  let nclients = 3;
  let per = rng.range(5, 25);
  let mut hs = vec![];
  for c in 0..nclients {
    let st = if tr == Transport::Inproc { SocketType::Req } else if c == 0 { SocketType::Req } else { SocketType::Dealer };
    let d = ctx.socket(st).unwrap();
    util::set_i32(&d, opt::RCVTIMEO, 3000).await;
    d.connect(&ep).await.unwrap();
    hs.push(tokio::spawn(async move {
      let mut bad: Vec<String> = vec![];
      let mut got = 0;
      tokio::time::sleep(Duration::from_millis(150)).await;
      for k in 0..per {
        let body = format!("client{}-req{}", c, k).into_bytes();
        if d.send(util::msg(body.clone(), false)).await.is_err() {
          break;
        }
        match d.recv_multipart().await {
          Ok(m) => {
            got += 1;
            let last = m.last().and_then(|f| f.data().map(|d| d.to_vec())).unwrap_or_default();
            if last != body {
              bad.push(format!("client {} request {} answered with {:?}", c, k, String::from_utf8_lossy(&last)));
            }
          }
          Err(e) => {
            bad.push(format!("client {} request {}: no reply ({:?})", c, k, e));
            break;
          }
        }
      }
      (got, bad)
    }));
  }
  let server = {
    let r = r.clone();
    tokio::spawn(async move {
      let mut idle = 0;
      loop {
        match r.recv_multipart().await {
          Ok(m) => {
            idle = 0;
            let _ = r.send_multipart(m).await;
          }
          Err(_) => {
            idle += 1;
            if idle > 6 {
              return;
            }
          }
        }
      }
    })
  };
  let mut all_bad = vec![];
  let mut total = 0;
  for h in hs {
    if let Ok(Ok((g, b))) = tokio::time::timeout(Duration::from_secs(30), h).await {
      total += g;
      all_bad.extend(b);
    }
  }
  server.abort();
  rep.case(&("routing", tr, per), true);
  rep.count("replies_checked", total as u64);
  if !all_bad.is_empty() {
    rep.violation(format!("reply_to_wrong_peer_or_missing|{}", tr.name()), format!("REP with {} clients over {}: {}", nclients, tr.name(), all_bad[0]), json!({"problems": all_bad.iter().take(8).collect::<Vec<_>>()}));
  }
  let _ = tokio::time::timeout(Duration::from_secs(12), ctx.term()).await;
}

/// (parked reply) a reply to peer A cannot be written (A is a pipelining DEALER that never reads, SNDHWM/RCVHWM 1, large
/// replies) and send() parks until SNDTIMEO; meanwhile another task on a clone receives peer B's request - legitimately,
/// the socket is ready to receive while the send is parked. When the parked send has failed, the reply the application
/// sends next answers B's request and must reach B, never A; A must only ever see replies to its own requests.
async fn parked_reply_case(rep: &mut Report, tr: Transport, sndtimeo_ms: i32) {
  let ctx = util::new_ctx();
  let r = ctx.socket(SocketType::Rep).unwrap();
  util::set_i32(&r, opt::SNDHWM, 1).await;
  util::set_i32(&r, opt::SNDTIMEO, sndtimeo_ms).await;
  util::set_i32(&r, opt::RCVTIMEO, 2000).await;
  let ep = match util::bind_fresh(&r, tr).await {
    Ok(e) => e,
    Err(e) => {
      rep.inconclusive(format!("bind {e}"));
      return;
    }
  };
  let a_ctx = util::new_ctx();
  let a = a_ctx.socket(SocketType::Dealer).unwrap();
  util::set_i32(&a, opt::RCVHWM, 1).await;
  util::set_i32(&a, opt::RCVTIMEO, 300).await;
  util::set_i32(&a, opt::RCVBUF, 16 * 1024).await;
  let b_ctx = util::new_ctx();
  let b = b_ctx.socket(SocketType::Req).unwrap();
  util::set_i32(&b, opt::RCVTIMEO, (sndtimeo_ms + 4000) * util::slow_factor() as i32).await;
  let _ = a.connect(&ep).await;
  let _ = b.connect(&ep).await;
  tokio::time::sleep(Duration::from_millis(300)).await;
  let cfg = format!("REP over {} (SNDHWM 1, SNDTIMEO {} ms), peer A a pipelining DEALER that never reads, peer B a REQ", tr.name(), sndtimeo_ms);
  let big = vec![0x41u8; 512 * 1024];
  let mut parked: Option<tokio::task::JoinHandle<Result<(), rzmq::ZmqError>>> = None;
  let mut answered_a = 0;
  for k in 0..40 {
    // A sends one more request without ever reading a reply (rzmq's DEALER adds the empty delimiter itself)
    let _ = a.send(util::msg(format!("A-req-{}", k).into_bytes(), false)).await;
    match r.recv().await {
      Ok(m) if m.data().map_or(false, |d| d.starts_with(b"A-req-")) => {}
      other => {
        rep.note(format!("parked_reply: recv before parking returned {:?}", other.map(|m| String::from_utf8_lossy(&m.data().unwrap_or(&[])[..m.size().min(16)]).to_string()).map_err(|e| util::err_kind(&e))));
        break;
      }
    }
    let r2 = r.clone();
    let mut body = b"reply-A:".to_vec();
    body.extend_from_slice(&big);
    let mut h = tokio::spawn(async move { r2.send(util::msg(body, false)).await });
    match tokio::time::timeout(Duration::from_millis(200), &mut h).await {
      Ok(Ok(Ok(()))) => answered_a += 1,
      Ok(other) => {
        rep.note(format!("parked_reply: send #{} ended within 200 ms with {:?}", answered_a, other.map(|r| r.map_err(|e| util::err_kind(&e)))));
        break; // failed at once (would-block): nothing parked in this mode
      }
      Err(_) => {
        parked = Some(h);
        break;
      }
    }
  }
  rep.case(&("parked_reply", tr, sndtimeo_ms), true);
  let Some(parked) = parked else {
    rep.count("parked_reply_send_never_parked", 1);
    let _ = tokio::time::timeout(Duration::from_secs(10), ctx.term()).await;
    let _ = tokio::time::timeout(Duration::from_secs(10), a_ctx.term()).await;
    let _ = tokio::time::timeout(Duration::from_secs(10), b_ctx.term()).await;
    return;
  };
  rep.count("parked_reply_send_parked", 1);
  // while the reply to A is parked: B's request arrives and another task takes it
  let b2 = b.clone();
  let b_task = tokio::spawn(async move {
    let _ = b2.send(util::msg(b"B-req-0".to_vec(), false)).await;
    b2.recv().await.map(|m| m.data().unwrap_or(&[]).to_vec())
  });
  let mut got_b_request = false;
  for _ in 0..10 {
    match r.recv().await {
      Ok(m) if m.data() == Some(b"B-req-0") => {
        got_b_request = true;
        break;
      }
      Ok(_) => {}
      Err(_) => {}
    }
  }
  // the parked send finishes (it is expected to fail with a timeout)
  let parked_result = tokio::time::timeout(util::scaled(Duration::from_millis(sndtimeo_ms as u64 + 3000)), parked).await;
  let parked_desc = match &parked_result {
    Ok(Ok(Ok(()))) => "Ok".to_string(),
    Ok(Ok(Err(e))) => util::err_kind(e),
    _ => "still pending".to_string(),
  };
  if !got_b_request {
    // the socket refused to receive while the send was parked: nothing to route, not this scenario
    rep.count("parked_reply_b_request_not_received_while_parked", 1);
  } else {
    // A finally starts reading (its replies so far), so that nothing is in the way of any peer any more
    let mut a_foreign: Vec<String> = vec![];
    let mut a_seen = 0;
    for _ in 0..3 {
      if let Ok(m) = a.recv_multipart().await {
        a_seen += 1;
        for f in m {
          let d = f.data().unwrap_or(&[]);
          if !d.is_empty() && !d.starts_with(b"reply-A:") {
            a_foreign.push(String::from_utf8_lossy(&d[..d.len().min(24)]).to_string());
          }
        }
      }
    }
    let sent_b = r.send(util::msg(b"reply-B-0".to_vec(), false)).await;
    let b_got = tokio::time::timeout(util::scaled(Duration::from_secs(8)), b_task).await.ok().and_then(|x| x.ok());
    // drain A: it must only see replies to its own requests
    let mut idle = 0;
    while idle < 3 && a_seen < 200 {
      match a.recv_multipart().await {
        Ok(m) => {
          idle = 0;
          a_seen += 1;
          for f in m {
            let d = f.data().unwrap_or(&[]);
            if !d.is_empty() && !d.starts_with(b"reply-A:") {
              a_foreign.push(String::from_utf8_lossy(&d[..d.len().min(24)]).to_string());
            }
          }
        }
        Err(_) => idle += 1,
      }
    }
    let b_ok = matches!(&b_got, Some(Ok(d)) if d == b"reply-B-0");
    if !a_foreign.is_empty() || !b_ok {
      rep.violation(
        format!("reply_misrouted_after_parked_send|{}", if a_foreign.is_empty() { "requester_got_nothing" } else { "delivered_to_other_peer" }),
        format!("{}: the reply to A parked and ended with {}; B's request was received meanwhile; the next send (reply-B-0) returned {:?}; B received {:?}; A received foreign replies {:?}", cfg, parked_desc, sent_b.as_ref().map_err(|e| util::err_kind(e)), b_got.as_ref().map(|r| r.as_ref().map(|d| String::from_utf8_lossy(d).to_string()).map_err(|e| util::err_kind(e))), a_foreign),
        json!({"config": cfg, "replies_to_a_before_parking": answered_a, "parked_send": parked_desc, "a_foreign": a_foreign}),
      );
    }
  }
  let _ = tokio::time::timeout(Duration::from_secs(10), ctx.term()).await;
  let _ = tokio::time::timeout(Duration::from_secs(10), a_ctx.term()).await;
  let _ = tokio::time::timeout(Duration::from_secs(10), b_ctx.term()).await;
}

/// "Any other call fails ... and changes nothing" also covers a send() that is REFUSED: a REQ whose request could not be
/// queued (the pipe to the peer is at its high-water mark; SNDTIMEO 0 -> would-block, >0 -> timeout) has not sent, so it is
/// still the sender's turn: recv() must be rejected as invalid-state at once (not wait for a reply to a request that never
/// left) and the retry must be refused the same way again (not as invalid-state). The REP never reads, the REQ gives up on
/// each reply after RCVTIMEO, so abandoned requests fill the pipe.
async fn refused_send_case(rep: &mut Report, tr: Transport, sndtimeo: i32) {
  let ctx = util::new_ctx();
  let server = ctx.socket(SocketType::Rep).unwrap();
  util::set_i32(&server, opt::RCVHWM, 2).await;
  let Ok(ep) = util::bind_fresh(&server, tr).await else {
    rep.inconclusive("bind".to_string());
    return;
  };
  let req = ctx.socket(SocketType::Req).unwrap();
  util::set_i32(&req, opt::SNDHWM, 2).await;
  util::set_i32(&req, opt::SNDTIMEO, sndtimeo).await;
  util::set_i32(&req, opt::RCVTIMEO, 10).await;
  let _ = req.connect(&ep).await;
  tokio::time::sleep(Duration::from_millis(150)).await;
  let cfg = format!("{} SNDTIMEO={} SNDHWM=2 RCVHWM=2 RCVTIMEO=10", tr.name(), sndtimeo);
  let big = if tr == Transport::Inproc { 16 } else { 256 * 1024 };
  let mut accepted = 0usize;
  let mut refused: Option<String> = None;
  for i in 0..400usize {
    let mut body = format!("req-{i}").into_bytes();
    body.resize(big, b'.');
    match req.send(util::msg(body, false)).await {
      Ok(()) => {
        accepted += 1;
        let _ = req.recv().await; // nobody answers: Timeout, after which rzmq lets the REQ send again
      }
      Err(e) => {
        refused = Some(util::err_kind(&e));
        break;
      }
    }
  }
  rep.case(&("refused", tr, sndtimeo, accepted), true);
  let Some(refused) = refused else {
    rep.sample(json!({"refused_send": "never refused in 400 requests", "config": cfg}));
    let _ = tokio::time::timeout(Duration::from_secs(10), ctx.term()).await;
    return;
  };
  if refused.contains("InvalidState") {
    // the previous recv() did not time out cleanly - not the situation under test
    rep.sample(json!({"refused_send": "first refusal was invalid-state", "config": cfg, "accepted": accepted}));
    let _ = tokio::time::timeout(Duration::from_secs(10), ctx.term()).await;
    return;
  }
  util::set_i32(&req, opt::RCVTIMEO, 1500).await;
  let t0 = std::time::Instant::now();
  let r = req.recv().await;
  let took = t0.elapsed();
  let recv_desc = r.as_ref().map(|_| "Ok".to_string()).unwrap_or_else(|e| util::err_kind(e));
  let retry1 = req.send(util::msg(b"retry-1".to_vec(), false)).await.map_err(|e| util::err_kind(&e));
  let retry2 = req.send(util::msg(b"retry-2".to_vec(), false)).await.map_err(|e| util::err_kind(&e));
  let bad_recv = !recv_desc.contains("InvalidState");
  let bad_retry = [&retry1, &retry2].iter().any(|r| matches!(r, Err(e) if e.contains("InvalidState")));
  rep.sample(json!({"refused_send": {"config": cfg, "accepted_before_refusal": accepted, "refusal": refused, "recv_after": recv_desc, "recv_ms": took.as_millis() as u64, "retry1": format!("{:?}", retry1), "retry2": format!("{:?}", retry2)}}));
  if bad_recv || bad_retry {
    rep.violation(
      format!("refused_send_advanced_req_state|{}", tr.name()),
      format!("{}: after {} accepted requests send() was refused with {}; then recv() returned {} after {} ms (must be invalid-state: nothing was sent), retry #1 {:?}, retry #2 {:?} (must not be invalid-state: it is still the sender's turn)", cfg, accepted, refused, recv_desc, took.as_millis(), retry1, retry2),
      json!({"config": cfg, "accepted": accepted, "refusal": refused, "recv_after": recv_desc, "retry1": format!("{:?}", retry1), "retry2": format!("{:?}", retry2)}),
    );
  }
  let _ = tokio::time::timeout(Duration::from_secs(10), ctx.term()).await;
}

fn main() {
  let args = Args::parse();
  util::install_panic_watch();
  let mut rep = Report::new("C10", &args.shard_name());
  let mut rng = Rng::new(args.seed.wrapping_mul(217645177).wrapping_add(args.shard as u64));
  match args.only.as_deref() {
    Some("gate") => {
      let rt = util::runtime(2);
      rt.block_on(gate_case(&mut rep, "REQ"));
      rt.block_on(gate_case(&mut rep, "REP"));
      rt.block_on(late_reply_case(&mut rep));
      for tr in [Transport::Tcp, Transport::Ipc] {
        rt.block_on(disconnect_while_reply_owed_case(&mut rep, false, tr));
        rt.block_on(disconnect_while_reply_owed_case(&mut rep, true, tr));
      }
      for tr in [Transport::Tcp, Transport::Inproc, Transport::Ipc] {
        rt.block_on(routing_case(&mut rep, &mut rng, tr));
      }
      for (tr, to) in [(Transport::Tcp, 1500), (Transport::Ipc, 800), (Transport::Tcp, 300)] {
        rt.block_on(parked_reply_case(&mut rep, tr, to));
      }
      for (tr, to) in [(Transport::Inproc, 0), (Transport::Inproc, 20), (Transport::Tcp, 0), (Transport::Ipc, 20)] {
        rt.block_on(refused_send_case(&mut rep, tr, to));
      }
      util::cleanup_ipc_dir();
    }
    _ => {
      let budget = Duration::from_secs(if args.thorough() { 420 } else { 45 });
      let t0 = std::time::Instant::now();
      let mut i = 0;
      while t0.elapsed() < budget {
        let workers = *rng.pick(&[0usize, 4]);
        let rt = util::runtime(workers);
        let tasks = *rng.pick(&[1usize, 1, 2, 3, 4, 8]);
        let peers = rng.range(1, 3);
        let tr = *rng.pick(&[Transport::Tcp, Transport::Inproc, Transport::Ipc]);
        let nops = rng.range(4, 16);
        let perturb = rng.chance(2, 3);
        let which = if i % 2 == 0 { "REQ" } else { "REP" };
        let ctxs = format!("{} tasks={} peers={} tr={} workers={} ops~{} perturb={}", which, tasks, peers, tr.name(), workers, nops, perturb);
        let h = rt.block_on(async {
          if which == "REQ" {
            req_history(&mut rng, tr, tasks, peers, nops, perturb).await
          } else {
            rep_history(&mut rng, tr, tasks, peers, nops, perturb).await
          }
        });
        rt.shutdown_timeout(Duration::from_millis(200));
        i += 1;
        match h {
          None => rep.inconclusive(format!("setup failed: {}", ctxs)),
          Some(h) => {
            let okn = h.ops.iter().filter(|o| o.ok).count();
            rep.case(&(ctxs.clone(), h.results.clone()), okn >= 2);
            rep.count("successful_ops", okn as u64);
            judge(&mut rep, which, if which == "REQ" { 'S' } else { 'R' }, tasks, &h, &ctxs);
            if i <= 2 {
              rep.sample(json!({"context": ctxs, "ops": h.ops.iter().zip(h.results.iter()).map(|(o, r)| format!("t{} {} {}", o.task, o.kind, r)).collect::<Vec<_>>()}));
            }
          }
        }
      }
      util::cleanup_ipc_dir();
    }
  }
  let _ = is_state_err;
  for p in util::take_panics() {
    if p.in_rzmq {
      rep.violation(format!("panic|{}", util::panic_site(&p.location)), format!("panic at {}: {}", p.location, p.message), json!({"frames": p.backtrace_head}));
    } else {
      rep.inconclusive(format!("harness panic at {}: {}", p.location, p.message));
    }
  }
  rep.merge_hooks();
  rep.emit();
}

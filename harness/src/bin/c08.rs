//! C08 — a receiver never sleeps while a message is queued for it (no lost wake-ups).
//! (rpq) many short histories on the real ReadyPipeQueue with seeded delays at the schedule
//! points between the individual queue/counter steps; offline multiset/order check + structural
//! invariant at quiescence. (notify) gate-forced windows in LoadBalancer::wait_for_connection and
//! WaitGroup::wait.

use rzmq::verif::{self, PipeKind, Rpq, RpqMsgSender, RpqSender, RpqTrySendError};
use rzmq::FrameBatch;
use serde_json::json;
use std::collections::{BTreeMap, VecDeque};
use std::sync::atomic::{AtomicBool, AtomicUsize, Ordering};
use std::sync::Arc;
use std::time::{Duration, Instant};
use vh::args::Args;
use vh::cancel::{CancelAfter, CancelOutcome};
use vh::gen::Rng;
use vh::report::Report;
use vh::util;

type Item = (usize, u32); // (pipe, seq)

/// histories that looked stuck for 1.5 s and then moved again (CPU starvation, not a lost wake-up)
static SLOW_BUT_ALIVE: AtomicUsize = AtomicUsize::new(0);

#[derive(Clone, Copy, Debug, PartialEq, Eq, Hash)]
enum SendMode {
  Async,
  Try,
  Batch,
  Mixed,
}

/// How items travel: the generic ReadyPipeSender<T>, or FrameBatches through the sender kind a socket
/// type layers on top of it (SUB's filtered kind has its own hand-inlined batch loop).
#[derive(Clone, Copy, Debug, PartialEq, Eq, Hash)]
enum Via {
  Generic,
  Msg(PipeKind),
}

fn enc(it: Item) -> FrameBatch {
  let mut v = Vec::with_capacity(9);
  v.push(b'k');
  v.extend_from_slice(&(it.0 as u32).to_be_bytes());
  v.extend_from_slice(&it.1.to_be_bytes());
  let mut fb = FrameBatch::new();
  fb.push(rzmq::Msg::from_vec(v));
  fb
}
fn noise() -> FrameBatch {
  let mut fb = FrameBatch::new();
  fb.push(rzmq::Msg::from_vec(b"x-not-subscribed".to_vec()));
  fb
}
fn dec(fb: &FrameBatch) -> Option<Item> {
  let d = fb.iter().next()?.data()?;
  if d.len() != 9 || d[0] != b'k' {
    return None;
  }
  Some((u32::from_be_bytes([d[1], d[2], d[3], d[4]]) as usize, u32::from_be_bytes([d[5], d[6], d[7], d[8]])))
}

enum TryErr {
  Full,
  Closed,
}

enum Tx {
  Plain(RpqSender<Item>),
  Msg(RpqMsgSender, bool),
}

impl Tx {
  async fn send(&self, it: Item, rng: &mut Rng) -> Result<(), ()> {
    match self {
      Tx::Plain(t) => t.send(it).await.map_err(|_| ()),
      Tx::Msg(t, filtered) => {
        if *filtered && rng.chance(1, 3) {
          let _ = t.send(noise()).await;
        }
        t.send(enc(it)).await.map_err(|_| ())
      }
    }
  }
  fn try_send(&self, it: Item, rng: &mut Rng) -> Result<(), TryErr> {
    match self {
      Tx::Plain(t) => match t.try_send(it) {
        Ok(()) => Ok(()),
        Err(RpqTrySendError::Full(_)) => Err(TryErr::Full),
        Err(RpqTrySendError::Closed(_)) => Err(TryErr::Closed),
      },
      Tx::Msg(t, filtered) => {
        if *filtered && rng.chance(1, 3) {
          let _ = t.try_send(noise());
        }
        match t.try_send(enc(it)) {
          Ok(()) => Ok(()),
          Err(RpqTrySendError::Full(_)) => Err(TryErr::Full),
          Err(RpqTrySendError::Closed(_)) => Err(TryErr::Closed),
        }
      }
    }
  }
  /// Offers `items` in one batch call; returns how many of them were accepted (a prefix).
  fn try_send_batch(&self, items: &[Item], rng: &mut Rng) -> usize {
    match self {
      Tx::Plain(t) => {
        let mut dq: VecDeque<Item> = items.iter().copied().collect();
        let _ = t.try_send_batch(&mut dq);
        items.len() - dq.len()
      }
      Tx::Msg(t, filtered) => {
        let mut dq: VecDeque<FrameBatch> = VecDeque::new();
        for it in items {
          if *filtered && rng.chance(1, 3) {
            dq.push_back(noise());
          }
          dq.push_back(enc(*it));
        }
        if *filtered && rng.chance(1, 4) {
          dq.push_back(noise());
        }
        let _ = t.try_send_batch(&mut dq);
        let left = dq.iter().filter(|fb| dec(fb).is_some()).count();
        items.len() - left
      }
    }
  }
}

enum Q {
  Plain(Rpq<Item>),
  Msg(Rpq<FrameBatch>),
}

impl Q {
  fn register(&self, pipe: usize, capacity: usize, via: Via) -> Tx {
    match (self, via) {
      (Q::Plain(q), _) => Tx::Plain(q.register_pipe(pipe, capacity, 1)),
      (Q::Msg(q), Via::Msg(k)) => Tx::Msg(q.register_pipe_kind(pipe, capacity, 1, k, &[b"k"]), k == PipeKind::FilteredAnonymous),
      (Q::Msg(q), Via::Generic) => Tx::Msg(q.register_pipe_kind(pipe, capacity, 1, PipeKind::DirectAnonymous, &[]), false),
    }
  }
  async fn pop(&self) -> Result<(usize, Option<Item>), rzmq::ZmqError> {
    match self {
      Q::Plain(q) => q.pop().await.map(|(p, it)| (p, Some(it))),
      Q::Msg(q) => q.pop().await.map(|(p, fb)| (p, dec(&fb))),
    }
  }
  fn try_pop(&self) -> Option<(usize, Option<Item>)> {
    match self {
      Q::Plain(q) => q.try_pop().map(|(p, it)| (p, Some(it))),
      Q::Msg(q) => q.try_pop().map(|(p, fb)| (p, dec(&fb))),
    }
  }
  fn deregister_pipe(&self, p: usize) {
    match self {
      Q::Plain(q) => q.deregister_pipe(p),
      Q::Msg(q) => q.deregister_pipe(p),
    }
  }
  fn close(&self) {
    match self {
      Q::Plain(q) => q.close(),
      Q::Msg(q) => q.close(),
    }
  }
  fn slots(&self) -> Vec<verif::SlotSnapshot> {
    match self {
      Q::Plain(q) => q.slots(),
      Q::Msg(q) => q.slots(),
    }
  }
  fn ready_len(&self) -> usize {
    match self {
      Q::Plain(q) => q.ready_len(),
      Q::Msg(q) => q.ready_len(),
    }
  }
}

#[derive(Clone, Debug)]
struct Cfg {
  via: Via,
  producers: usize,
  items: u32,
  capacity: usize,
  ready_cap: usize,
  send_mode: SendMode,
  batch_max: usize,
  consumers: usize,
  try_pop_mix: bool,
  cancel_pops: bool,
  deregister_pipe: Option<usize>,
  workers: usize,
  perturb: bool,
}

async fn producer(tx: Tx, pipe: usize, n: u32, mode: SendMode, batch_max: usize, seed: u64, pushed: Arc<parking_lot::Mutex<Vec<Item>>>) {
  let mut rng = Rng::new(seed);
  let mut seq = 0u32;
  while seq < n {
    let m = if mode == SendMode::Mixed { *rng.pick(&[SendMode::Async, SendMode::Try, SendMode::Batch]) } else { mode };
    match m {
      SendMode::Async => {
        if tx.send((pipe, seq), &mut rng).await.is_err() {
          return; // pipe deregistered
        }
        pushed.lock().push((pipe, seq));
        seq += 1;
      }
      SendMode::Try => match tx.try_send((pipe, seq), &mut rng) {
        Ok(()) => {
          pushed.lock().push((pipe, seq));
          seq += 1;
        }
        Err(TryErr::Full) => tokio::task::yield_now().await,
        Err(TryErr::Closed) => return,
      },
      _ => {
        let k = rng.range(1, batch_max).min((n - seq) as usize) as u32;
        let items: Vec<Item> = (seq..seq + k).map(|s| (pipe, s)).collect();
        let sent = tx.try_send_batch(&items, &mut rng);
        for s in seq..seq + sent as u32 {
          pushed.lock().push((pipe, s));
        }
        seq += sent as u32;
        if (sent as u32) < k {
          // what the sessions do with the item that did not fit: a blocking send of the front item
          if mode == SendMode::Batch || rng.chance(1, 2) {
            if tx.send((pipe, seq), &mut rng).await.is_err() {
              return;
            }
            pushed.lock().push((pipe, seq));
            seq += 1;
          } else {
            match tx.try_send((pipe, seq), &mut rng) {
              Ok(()) => {
                pushed.lock().push((pipe, seq));
                seq += 1;
              }
              Err(TryErr::Full) => {}
              Err(TryErr::Closed) => return,
            }
            tokio::task::yield_now().await;
          }
        }
      }
    }
    if rng.chance(1, 8) {
      tokio::task::yield_now().await;
    }
  }
}

struct Outcome {
  popped: Vec<Item>,
  pushed: Vec<Item>,
  stuck: Option<String>,
  slots: Vec<verif::SlotSnapshot>,
  ready_len: usize,
  /// popped FrameBatches that are not one of our items (the filter let a non-matching message through)
  undecodable: usize,
  /// items of the deregistered pipe that had been accepted before deregister_pipe() was called
  must_survive: Vec<Item>,
}

fn run_history(cfg: &Cfg, seed: u64) -> Option<Outcome> {
  let rt = util::runtime(cfg.workers);
  verif::set_perturbation(if cfg.perturb { seed | 1 } else { 0 });
  let cfgc = cfg.clone();
  let out = rt.block_on(async move {
    let cfg = cfgc;
    let q: Arc<Q> = Arc::new(match cfg.via {
      Via::Generic => Q::Plain(Rpq::new(cfg.ready_cap)),
      Via::Msg(_) => Q::Msg(Rpq::new(cfg.ready_cap)),
    });
    let undecodable = Arc::new(AtomicUsize::new(0));
    let pushed = Arc::new(parking_lot::Mutex::new(Vec::<Item>::new()));
    let popped = Arc::new(parking_lot::Mutex::new(Vec::<Item>::new()));
    let producers_done = Arc::new(AtomicUsize::new(0));
    let stop = Arc::new(AtomicBool::new(false));
    let last_progress = Arc::new(parking_lot::Mutex::new(Instant::now()));
    let mut handles = vec![];
    for p in 0..cfg.producers {
      let tx = q.register(p, cfg.capacity, cfg.via);
      let pd = producers_done.clone();
      let pushed = pushed.clone();
      let counts = Some(p) != cfg.deregister_pipe;
      handles.push(tokio::spawn(async move {
        producer(tx, p, cfg.items, cfg.send_mode, cfg.batch_max, seed.wrapping_add(p as u64 * 7919), pushed).await;
        if counts {
          pd.fetch_add(1, Ordering::SeqCst);
        }
      }));
    }
    let mut consumers = vec![];
    for c in 0..cfg.consumers {
      let q = q.clone();
      let popped = popped.clone();
      let stop = stop.clone();
      let lp = last_progress.clone();
      let try_mix = cfg.try_pop_mix;
      let cancel = cfg.cancel_pops;
      let undec = undecodable.clone();
      consumers.push(tokio::spawn(async move {
        let record = |it: Option<Item>| match it {
          Some(it) => {
            popped.lock().push(it);
            *lp.lock() = Instant::now();
          }
          None => {
            undec.fetch_add(1, Ordering::SeqCst);
          }
        };
        let mut rng = Rng::new(seed ^ (0xC0 + c as u64));
        loop {
          if stop.load(Ordering::SeqCst) {
            return;
          }
          if try_mix && rng.chance(1, 3) {
            if let Some((_, it)) = q.try_pop() {
              record(it);
            } else {
              tokio::task::yield_now().await;
            }
            continue;
          }
          if cancel && rng.chance(1, 4) {
            // cancel a (possibly blocked) pop at its n-th Pending
            let n = rng.range(1, 3);
            match CancelAfter::new(q.pop(), n).await {
              CancelOutcome::Completed(Ok((_, it)), _) => {
                record(it);
              }
              CancelOutcome::Completed(Err(_), _) => return,
              CancelOutcome::Cancelled(_) => {
                tokio::task::yield_now().await;
              }
            }
            continue;
          }
          match q.pop().await {
            Ok((_, it)) => {
              record(it);
            }
            Err(_) => return,
          }
        }
      }));
    }
    // optional deregistration mid-stream. Items the pipe's producer had ALREADY been told were accepted when
    // deregister_pipe() is called are queued for the receiver like any others and must still be popped; what the
    // producer pushes concurrently with / after the call stays open.
    // (the flag says "the history is over": set by the main loop under the same lock, so that a deregistration task
    // that was starved of CPU cannot fire after the verdict loop has ended and add survivors nobody will pop any more)
    let history_over: Arc<parking_lot::Mutex<bool>> = Default::default();
    let must_survive: Arc<parking_lot::Mutex<Option<Vec<Item>>>> = Default::default();
    if let Some(p) = cfg.deregister_pipe {
      let q2 = q.clone();
      let popped2 = popped.clone();
      let pushed2 = pushed.clone();
      let must2 = must_survive.clone();
      let over2 = history_over.clone();
      let half = (cfg.items / 2) as usize;
      tokio::spawn(async move {
        loop {
          if popped2.lock().iter().filter(|i| i.0 == p).count() >= half.max(1) {
            let over = over2.lock();
            if *over {
              return;
            }
            let before: Vec<Item> = pushed2.lock().iter().filter(|i| i.0 == p).copied().collect();
            q2.deregister_pipe(p);
            *must2.lock() = Some(before);
            return;
          }
          tokio::task::yield_now().await;
        }
      });
    }
    // wait for producers (bounded: a producer blocked forever on a full pipe whose consumer is
    // asleep is exactly the deadlock we look for)
    let t0 = Instant::now();
    let mut stuck: Option<String> = None;
    let need_done = cfg.producers - cfg.deregister_pipe.map_or(0, |_| 1);
    loop {
      let all_done = producers_done.load(Ordering::SeqCst) == need_done;
      let dp = cfg.deregister_pipe;
      let npushed = pushed.lock().iter().filter(|i| Some(i.0) != dp).count();
      let npopped = popped.lock().iter().filter(|i| Some(i.0) != dp).count();
      let survivors_popped = match &*must_survive.lock() {
        Some(m) => {
          let pp = popped.lock();
          m.iter().all(|it| pp.contains(it))
        }
        None => cfg.deregister_pipe.is_none() || all_done, // deregistration not reached yet: wait for it unless everything else is over
      };
      if all_done && npopped >= npushed && survivors_popped {
        // end of history, unless the deregistration slipped in since `survivors_popped` was computed
        let mut over = history_over.lock();
        let still_ok = match &*must_survive.lock() {
          Some(m) => {
            let pp = popped.lock();
            m.iter().all(|it| pp.contains(it))
          }
          None => true,
        };
        if still_ok {
          *over = true;
          break;
        }
        continue;
      }
      let idle = last_progress.lock().elapsed();
      if idle > util::scaled(Duration::from_millis(1500)) && t0.elapsed() > util::scaled(Duration::from_millis(1600)) {
        // Suspected. A lost wake-up (or any deadlock) is permanent, a consumer starved of CPU on an oversubscribed
        // machine is not: confirm by watching for ANY movement (a pop, a push, a producer finishing) for a further
        // 20 s before calling it stuck. Resumed histories are counted, not judged.
        let snap = (npushed, npopped, producers_done.load(Ordering::SeqCst));
        let t1 = Instant::now();
        let mut moved = false;
        while t1.elapsed() < util::scaled(Duration::from_secs(20)) {
          tokio::time::sleep(Duration::from_millis(25)).await;
          let now = (pushed.lock().iter().filter(|i| Some(i.0) != dp).count(), popped.lock().iter().filter(|i| Some(i.0) != dp).count(), producers_done.load(Ordering::SeqCst));
          if now != snap {
            moved = true;
            break;
          }
        }
        if moved {
          SLOW_BUT_ALIVE.fetch_add(1, Ordering::SeqCst);
          *last_progress.lock() = Instant::now();
          continue;
        }
        *history_over.lock() = true;
        stuck = Some(format!("no progress for {:?} (confirmed over a further 20 s without any push, pop or producer exit): producers done {}/{}, pushed {}, popped {} (deregistered pipe excluded)", idle + t1.elapsed(), producers_done.load(Ordering::SeqCst), need_done, npushed, npopped));
        break;
      }
      tokio::time::sleep(Duration::from_millis(2)).await;
    }
    let slots = q.slots();
    let ready_len = q.ready_len();
    stop.store(true, Ordering::SeqCst);
    q.close();
    for h in handles {
      h.abort();
    }
    for c in consumers {
      c.abort();
    }
    let pushed = pushed.lock().clone();
    let popped = popped.lock().clone();
    let must = must_survive.lock().clone().unwrap_or_default();
    Outcome { popped, pushed, stuck, slots, ready_len, undecodable: undecodable.load(Ordering::SeqCst), must_survive: must }
  });
  verif::set_perturbation(0);
  rt.shutdown_timeout(Duration::from_millis(200));
  Some(out)
}

fn check_history(rep: &mut Report, cfg: &Cfg, seed: u64, o: &Outcome) {
  let cfgs = format!("{:?}", cfg);
  let sigcfg = format!("via={:?}|mode={:?}|cap={}|consumers={}|cancel={}|dereg={}", cfg.via, cfg.send_mode, cfg.capacity, cfg.consumers, cfg.cancel_pops, cfg.deregister_pipe.is_some());
  if o.undecodable > 0 {
    rep.violation(format!("filter_leak|{}", sigcfg), format!("{} messages that match no subscription were queued for the receiver", o.undecodable), json!({"config": cfgs, "seed": seed}));
    return;
  }
  let wit = |o: &Outcome| json!({"config": cfgs, "seed": seed, "pushed": o.pushed.len(), "popped": o.popped.len(), "ready_len": o.ready_len, "slots": o.slots.iter().map(|s| format!("pipe{} chan={} queued={} reserved={}", s.pipe_id, s.channel_len, s.queued_count, s.reserved_count)).collect::<Vec<_>>()});
  let lost_survivors: Vec<&Item> = o.must_survive.iter().filter(|it| !o.popped.contains(it)).collect();
  if !lost_survivors.is_empty() {
    rep.violation(format!("items_queued_before_deregistration_lost|{}", sigcfg), format!("{} item(s) that pipe {} had accepted before deregister_pipe() was called were never popped (first {:?}); {}", lost_survivors.len(), cfg.deregister_pipe.unwrap_or(0), lost_survivors[0], o.stuck.clone().unwrap_or_default()), wit(o));
    return;
  }
  if let Some(why) = &o.stuck {
    // lost wake-up predicate: items sit in a pipe, the ready list is empty, nothing is running
    let orphan = o.slots.iter().any(|s| s.channel_len > 0 && Some(s.pipe_id) != cfg.deregister_pipe) && o.ready_len == 0;
    let sig = if orphan { "lost_wakeup" } else { "stalled" };
    rep.violation(format!("{}|{}", sig, sigcfg), format!("consumer asleep although items are queued ({}); {}", if orphan { "pipe non-empty but not in the ready list" } else { "no pipe holds items" }, why), wit(o));
    return;
  }
  // per-pipe order and exactly-once
  let mut last: BTreeMap<usize, i64> = BTreeMap::new();
  let mut seen = std::collections::HashSet::new();
  for it in &o.popped {
    if !seen.insert(*it) {
      rep.violation(format!("duplicate_pop|{}", sigcfg), format!("item {:?} popped twice", it), wit(o));
      return;
    }
    let e = last.entry(it.0).or_insert(-1);
    if cfg.consumers == 1 && (it.1 as i64) < *e {
      rep.violation(format!("per_pipe_order|{}", sigcfg), format!("pipe {} item {} popped after {}", it.0, it.1, e), wit(o));
      return;
    }
    *e = (*e).max(it.1 as i64);
  }
  let pushed: std::collections::HashSet<Item> = o.pushed.iter().copied().collect();
  for it in &o.popped {
    // for the deregistered pipe the producer may still be inside a call whose return is not yet
    // logged (an open operation): its items cannot be judged phantom
    if !pushed.contains(it) && Some(it.0) != cfg.deregister_pipe {
      rep.violation(format!("phantom_pop|{}", sigcfg), format!("item {:?} popped but never accepted", it), wit(o));
      return;
    }
  }
  for it in &o.pushed {
    if Some(it.0) != cfg.deregister_pipe && !seen.contains(it) {
      rep.violation(format!("lost_item|{}", sigcfg), format!("item {:?} accepted but never popped", it), wit(o));
      return;
    }
  }
  // structural invariant at quiescence
  for s in &o.slots {
    if Some(s.pipe_id) == cfg.deregister_pipe {
      continue;
    }
    if s.queued_count != s.channel_len || s.reserved_count != s.channel_len {
      rep.violation(format!("counter_desync|{}", sigcfg), format!("at quiescence pipe {} has channel_len={} queued_count={} reserved_count={}", s.pipe_id, s.channel_len, s.queued_count, s.reserved_count), wit(o));
      return;
    }
  }
}

fn rpq_layer(rep: &mut Report, args: &Args, rng: &mut Rng) {
  util::install_panic_watch();
  let budget = Duration::from_secs(if args.thorough() { 420 } else { 40 });
  let t0 = Instant::now();
  let mut n = 0u64;
  let mut orders: std::collections::HashSet<u64> = std::collections::HashSet::new();
  while t0.elapsed() < budget {
    let producers = rng.range(1, 4);
    let cfg = Cfg {
      via: *rng.pick(&[Via::Generic, Via::Msg(PipeKind::DirectAnonymous), Via::Msg(PipeKind::FilteredAnonymous), Via::Msg(PipeKind::FilteredAnonymous), Via::Msg(PipeKind::DirectAddressed)]),
      batch_max: *rng.pick(&[3usize, 3, 6, 12]),
      producers,
      items: rng.range(3, 50) as u32,
      capacity: *rng.pick(&[1usize, 1, 2, 2, 3, 5]),
      ready_cap: *rng.pick(&[1usize, 2, 4, 16]).max(&producers),
      send_mode: *rng.pick(&[SendMode::Async, SendMode::Try, SendMode::Batch, SendMode::Mixed, SendMode::Mixed]),
      consumers: if rng.chance(1, 4) { 2 } else { 1 },
      try_pop_mix: rng.chance(1, 2),
      cancel_pops: rng.chance(1, 3),
      deregister_pipe: if rng.chance(1, 6) { Some(0) } else { None },
      workers: *rng.pick(&[0usize, 2, 4]),
      perturb: rng.chance(3, 4),
    };
    let seed = rng.next();
    verif::record_order(n % 16 == 0);
    let o = run_history(&cfg, seed);
    if n % 16 == 0 {
      let ord = verif::take_order();
      orders.insert(vh::report::hash_of(&ord));
      verif::record_order(false);
    }
    n += 1;
    let Some(o) = o else { continue };
    rep.case(&(format!("{:?}", cfg), seed), true);
    check_history(rep, &cfg, seed, &o);
    if n <= 2 {
      rep.sample(json!({"config": format!("{:?}", cfg), "pushed": o.pushed.len(), "popped": o.popped.len(), "stuck": o.stuck}));
    }
    for p in util::take_panics() {
      if p.in_rzmq {
        rep.violation(format!("panic|{}", util::panic_site(&p.location)), format!("panic at {}: {} ({:?})", p.location, p.message, cfg), json!({"frames": p.backtrace_head, "seed": seed}));
      }
    }
  }
  rep.count("distinct_hook_orders_sampled", orders.len() as u64);
  rep.count("histories_suspected_stuck_that_resumed", SLOW_BUT_ALIVE.load(Ordering::SeqCst) as u64);
}

/// (miri) a handful of tiny histories meant to be executed by Miri (one shard per -Zmiri-seed): its scheduler preempts
/// threads at random basic blocks and its weak-memory emulation lets Relaxed/Acquire loads return stale values that
/// x86 hardware never shows, so the counter/arming protocol is exercised under orderings the native shards cannot
/// produce; Miri's data-race detector watches every access meanwhile. Same oracle as the native histories.
fn miri_layer(rep: &mut Report, args: &Args, rng: &mut Rng) {
  let cases = args.get_usize("cases", 6);
  let first = args.get_usize("first", 0);
  for i in first..first + cases {
    let cfg = Cfg {
      via: [Via::Generic, Via::Msg(PipeKind::DirectAnonymous), Via::Msg(PipeKind::FilteredAnonymous), Via::Msg(PipeKind::DirectAddressed)][i % 4],
      producers: 1 + (i / 2) % 2,
      items: 3,
      capacity: 1 + (i / 4) % 2,
      ready_cap: 2,
      send_mode: [SendMode::Async, SendMode::Batch, SendMode::Try, SendMode::Mixed][(i / 4) % 4],
      batch_max: 3,
      consumers: 1 + (i / 8) % 2,
      try_pop_mix: i % 2 == 1,
      cancel_pops: i % 3 == 2,
      deregister_pipe: None,
      workers: 2,
      perturb: false,
    };
    let seed = rng.next();
    let Some(o) = run_history(&cfg, seed) else { continue };
    rep.case(&(format!("{:?}", cfg), seed), true);
    rep.count("miri_histories", 1);
    rep.count("miri_items_popped", o.popped.len() as u64);
    check_history(rep, &cfg, seed, &o);
    if i == first {
      rep.sample(json!({"layer": "miri", "config": format!("{:?}", cfg), "pushed": o.pushed.len(), "popped": o.popped.len(), "stuck": o.stuck}));
    }
  }
}

// ---- Notify users ------------------------------------------------------------------------------

struct NullConn;
impl verif::ScriptedConn for NullConn {
  fn try_send(&self, _m: rzmq::FrameBatch) -> Result<(), rzmq::FrameBatch> {
    Ok(())
  }
  fn send<'a>(&'a self, _m: rzmq::FrameBatch) -> std::pin::Pin<Box<dyn std::future::Future<Output = Result<(), Option<rzmq::FrameBatch>>> + Send + 'a>> {
    Box::pin(async { Ok(()) })
  }
}

fn notify_layer(rep: &mut Report) {
  // LoadBalancer::wait_for_connection: hold the waiter between its check and notified(), add
  // the connection meanwhile, release. The waiter must complete.
  for workers in [0usize, 2] {
    let rt = util::runtime(workers);
    let finished = rt.block_on(async {
      let lb = Arc::new(verif::Balancer::new());
      verif::arm_gate("lb.wait.after_check", 1);
      let lb2 = lb.clone();
      let waiter = tokio::spawn(async move { lb2.wait_for_connection().await.is_ok() });
      let t0 = Instant::now();
      while verif::gate_arrived("lb.wait.after_check") == 0 && t0.elapsed() < Duration::from_secs(3) {
        tokio::task::yield_now().await;
      }
      let arrived = verif::gate_arrived("lb.wait.after_check");
      lb.add_connection("peer-1", Arc::new(NullConn));
      verif::release_gate("lb.wait.after_check");
      let r = tokio::time::timeout(Duration::from_millis(800), waiter).await;
      (arrived, r.is_ok())
    });
    rep.case(&("notify", "lb.wait_for_connection", workers), true);
    if finished.0 == 0 {
      rep.inconclusive("gate lb.wait.after_check never reached".to_string());
    } else if !finished.1 {
      rep.violation(
        "lost_notify|LoadBalancer::wait_for_connection".to_string(),
        "a sender waiting for the first peer stayed asleep although a peer was added: the add_connection() notification landed between the waiter's check and its notified().await and was lost".to_string(),
        json!({"schedule": ["waiter: peers.is_empty() -> true", "gate holds waiter before notified()", "main: add_connection() -> notify_waiters() (no waiter registered)", "release gate", "waiter: notified().await -> never woken"], "runtime_workers": workers}),
      );
    }
    rt.shutdown_timeout(Duration::from_millis(100));
  }
  // WaitGroup::wait
  for workers in [0usize, 2] {
    let rt = util::runtime(workers);
    let finished = rt.block_on(async {
      let wg = verif::Wg::new();
      wg.add(1);
      verif::arm_gate("wg.wait.after_check", 1);
      let wg2 = wg.clone();
      let waiter = tokio::spawn(async move { wg2.wait().await });
      let t0 = Instant::now();
      while verif::gate_arrived("wg.wait.after_check") == 0 && t0.elapsed() < Duration::from_secs(3) {
        tokio::task::yield_now().await;
      }
      let arrived = verif::gate_arrived("wg.wait.after_check");
      wg.done();
      verif::release_gate("wg.wait.after_check");
      let r = tokio::time::timeout(Duration::from_millis(800), waiter).await;
      (arrived, r.is_ok())
    });
    rep.case(&("notify", "wg.wait", workers), true);
    if finished.0 == 0 {
      rep.inconclusive("gate wg.wait.after_check never reached".to_string());
    } else if !finished.1 {
      rep.violation(
        "lost_notify|WaitGroup::wait".to_string(),
        "WaitGroup::wait() stayed asleep although the count reached zero: done()'s notify_waiters() landed between the waiter's count check and its notified().await".to_string(),
        json!({"schedule": ["waiter: count != 0", "gate holds waiter before notified()", "main: done() -> count 0 -> notify_waiters() (no waiter registered)", "release gate", "waiter: notified().await -> never woken"], "runtime_workers": workers}),
      );
    }
    rt.shutdown_timeout(Duration::from_millis(100));
  }
  // positive controls: without interference in the window both complete
  let rt = util::runtime(0);
  let ok = rt.block_on(async {
    let lb = Arc::new(verif::Balancer::new());
    let lb2 = lb.clone();
    let w = tokio::spawn(async move { lb2.wait_for_connection().await.is_ok() });
    for _ in 0..5 {
      tokio::task::yield_now().await;
    }
    lb.add_connection("p", Arc::new(NullConn));
    let a = tokio::time::timeout(Duration::from_millis(800), w).await.is_ok();
    let wg = verif::Wg::new();
    wg.add(2);
    let wg2 = wg.clone();
    let w = tokio::spawn(async move { wg2.wait().await });
    for _ in 0..5 {
      tokio::task::yield_now().await;
    }
    wg.done();
    wg.done();
    let b = tokio::time::timeout(Duration::from_millis(800), w).await.is_ok();
    a && b
  });
  rep.cases(1);
  if !ok {
    rep.violation("notify_positive_control_failed".to_string(), "waiters do not complete even without interference".to_string(), json!({}));
  }
  rep.sample(json!({"notify_cases": ["LoadBalancer::wait_for_connection x {current-thread, 2 workers}", "WaitGroup::wait x {current-thread, 2 workers}"], "method": "gate at the schedule point between check and notified(); condition made true while the waiter is held"}));
}

fn main() {
  let args = Args::parse();
  let mut rep = Report::new("C08", &args.shard_name());
  let mut rng = Rng::new(args.seed.wrapping_mul(67867967).wrapping_add(args.shard as u64));
  match args.only.as_deref() {
    Some("notify") => {
      util::install_panic_watch();
      notify_layer(&mut rep);
    }
    Some("miri") => miri_layer(&mut rep, &args, &mut rng),
    _ => rpq_layer(&mut rep, &args, &mut rng),
  }
  rep.merge_hooks();
  rep.emit();
}

use rzmq::socket::options as opt;
use rzmq::SocketType;
use std::time::{Duration, Instant};
use vh::util;
// usage: probe <case> <iterations>
fn main() {
  let which = std::env::args().nth(1).unwrap_or("A".into());
  let iters: usize = std::env::args().nth(2).and_then(|x| x.parse().ok()).unwrap_or(50);
  let rt = util::runtime(4);
  let mut hangs = 0;
  for it in 0..iters {
    let r = rt.block_on(async {
      let ctx = util::new_ctx();
      match which.as_str() {
        "A" => {
          // set_option racing with term
          let s = ctx.socket(SocketType::Pull).unwrap();
          let ep = util::bind_fresh(&s, util::Transport::Tcp).await.unwrap();
          let p = ctx.socket(SocketType::Push).unwrap();
          p.connect(&ep).await.unwrap();
          let s2 = s.clone();
          let h = tokio::spawn(async move {
            for _ in 0..2000 {
              if s2.set_option(opt::SNDTIMEO, -1).await.is_err() { return true; }
            }
            true
          });
          tokio::time::sleep(Duration::from_micros((it as u64 * 37) % 3000)).await;
          let _ = ctx.term().await;
          tokio::time::timeout(Duration::from_secs(3), h).await.is_ok()
        }
        "O" => {
          // first API call right after socket creation
          let s = ctx.socket(SocketType::Push).unwrap();
          let r = s.set_option(opt::RECONNECT_IVL, 50).await;
          if let Err(e) = &r {
            println!("iter {} set_option failed: {:?}", it, e);
          }
          let _ = tokio::time::timeout(Duration::from_secs(5), ctx.term()).await;
          r.is_ok()
        }
        "O2" => {
          // API calls on one socket while the context's event bus is busy (other sockets coming and going)
          let s = ctx.socket(SocketType::Push).unwrap();
          let c2 = ctx.clone();
          let churn = tokio::spawn(async move {
            loop {
              let mut v = vec![];
              for _ in 0..4 {
                if let Ok(x) = c2.socket(SocketType::Pull) {
                  let _ = x.bind("tcp://127.0.0.1:0").await;
                  v.push(x);
                }
              }
              for x in v {
                let _ = x.close().await;
              }
            }
          });
          let mut bad = 0;
          for k in 0..3000 {
            let r = if k % 2 == 0 { s.set_option(opt::RECONNECT_IVL, 50).await } else { s.get_option(opt::RCVHWM).await.map(|_| ()) };
            if let Err(e) = &r {
              println!("iter {} call {} failed: {:?}", it, k, e);
              bad += 1;
            }
          }
          churn.abort();
          let _ = tokio::time::timeout(Duration::from_secs(10), ctx.term()).await;
          bad == 0
        }
        "R" => {
          // does an outbound ipc connection come back after the listener dropped it / was replaced?
          let path = format!("{}/probe-r-{}", util::ipc_dir(), it);
          let (lst, ep) = vh::rawpeer::RawListener::bind_unix(&path).await.unwrap();
          let s = ctx.socket(SocketType::Push).unwrap();
          util::set_i32(&s, opt::RECONNECT_IVL, 100).await;
          let mon = s.monitor(256).await.unwrap();
          tokio::spawn(async move {
            let t = Instant::now();
            while let Ok(ev) = mon.recv().await {
              println!("  [monitor +{:?}] {:?}", t.elapsed(), ev);
            }
          });
          let _ = s.connect(&ep).await;
          let t0 = Instant::now();
          let mut accepts = vec![];
          while t0.elapsed() < Duration::from_secs(3) {
            match tokio::time::timeout(Duration::from_millis(3000).saturating_sub(t0.elapsed()), lst.accept()).await {
              Ok(Ok(c)) => {
                accepts.push(t0.elapsed().as_millis());
                drop(c);
              }
              _ => break,
            }
          }
          println!("ipc accept-and-drop: accepts at {:?} ms", accepts);
          // now the listener goes away and a new one takes the path
          drop(lst);
          tokio::time::sleep(Duration::from_millis(300)).await;
          let (lst2, _) = vh::rawpeer::RawListener::bind_unix(&path).await.unwrap();
          let r = tokio::time::timeout(Duration::from_secs(4), lst2.accept()).await;
          println!("after the path was re-bound: connection within 4 s: {}", matches!(r, Ok(Ok(_))));
          let _ = tokio::time::timeout(Duration::from_secs(5), ctx.term()).await;
          accepts.len() >= 2 && matches!(r, Ok(Ok(_)))
        }
        "P" => {
          // a PUSH sender loop must end after its peer closed and the context terminated
          let pull = ctx.socket(SocketType::Pull).unwrap();
          util::set_i32(&pull, opt::RCVHWM, 100).await;
          let ep = util::bind_fresh(&pull, util::Transport::Tcp).await.unwrap();
          let push = ctx.socket(SocketType::Push).unwrap();
          util::set_i32(&push, opt::SNDHWM, 100).await;
          let _ = push.connect(&ep).await;
          let p2 = push.clone();
          let sender = tokio::spawn(async move {
            let mut errs = 0;
            loop {
              if p2.send(util::msg(vec![0x42; 2000], false)).await.is_err() {
                errs += 1;
                if errs > 3 {
                  break;
                }
              }
            }
          });
          let p3 = push.clone();
          let setter = tokio::spawn(async move {
            for _ in 0..100000 {
              if p3.set_option(opt::SNDTIMEO, -1).await.is_err() {
                break;
              }
              tokio::time::sleep(Duration::from_millis(1)).await;
            }
          });
          let reader = if it % 2 == 0 {
            let pl = pull.clone();
            Some(tokio::spawn(async move { while pl.recv().await.is_ok() {} }))
          } else {
            None
          };
          tokio::time::sleep(Duration::from_micros((it as u64 * 137) % 6000)).await;
          let _ = pull.close().await;
          tokio::time::sleep(Duration::from_micros((it as u64 * 911) % 30000)).await;
          let _ = tokio::time::timeout(Duration::from_secs(20), ctx.term()).await;
          let ok = tokio::time::timeout(Duration::from_secs(5), sender).await.is_ok();
          if !ok {
            println!("iter {}: PUSH sender loop still running 5 s after term()", it);
          }
          setter.abort();
          if let Some(r) = reader {
            r.abort();
          }
          ok
        }
        "LG" => {
          // bounded LINGER towards a stalled inproc consumer: how long does close() take, when do the actors go?
          let pull = ctx.socket(SocketType::Pull).unwrap();
          util::set_i32(&pull, opt::RCVHWM, 4).await;
          let ep = util::bind_fresh(&pull, util::Transport::Inproc).await.unwrap();
          let push = ctx.socket(SocketType::Push).unwrap();
          util::set_i32(&push, opt::SNDHWM, 4).await;
          util::set_i32(&push, opt::SNDTIMEO, 0).await;
          util::set_i32(&push, opt::LINGER, 300).await;
          let _ = push.connect(&ep).await;
          tokio::time::sleep(Duration::from_millis(80)).await;
          let mut acc = 0;
          for _ in 0..20 {
            if push.send(util::msg(vec![1u8; 100], false)).await.is_ok() {
              acc += 1;
            }
          }
          let la0 = rzmq::verif::live_actors(&ctx);
          let t0 = Instant::now();
          let _ = push.close().await;
          println!("accepted {}; close() took {:?}; live actors before {} / right after {}", acc, t0.elapsed(), la0, rzmq::verif::live_actors(&ctx));
          for _ in 0..12 {
            tokio::time::sleep(Duration::from_millis(100)).await;
            println!("  +{:?}: live actors {} registered sockets {}", t0.elapsed(), rzmq::verif::live_actors(&ctx), rzmq::verif::registered_sockets(&ctx));
          }
          let _ = tokio::time::timeout(Duration::from_secs(5), ctx.term()).await;
          true
        }
        "DI" => {
          // DEALER over inproc closes: does the bound ROUTER notice?
          let router = ctx.socket(SocketType::Router).unwrap();
          router.set_option(opt::ROUTER_MANDATORY, true).await.unwrap();
          util::set_i32(&router, opt::RCVTIMEO, 1000).await;
          let mon = router.monitor(256).await.unwrap();
          let tr = if it % 2 == 0 { util::Transport::Inproc } else { util::Transport::Tcp };
          let ep = util::bind_fresh(&router, tr).await.unwrap();
          let d = ctx.socket(SocketType::Dealer).unwrap();
          d.set_option_raw(opt::ROUTING_ID, b"D").await.unwrap();
          let _ = d.connect(&ep).await;
          tokio::time::sleep(Duration::from_millis(150)).await;
          let _ = d.send(util::msg(b"hello".to_vec(), false)).await;
          let got = router.recv_multipart().await.map(|m| m.len());
          let _ = d.close().await;
          tokio::time::sleep(Duration::from_millis(600)).await;
          let mut evs = vec![];
          while let Ok(Ok(e)) = tokio::time::timeout(Duration::from_millis(20), mon.recv()).await {
            evs.push(format!("{:?}", e).chars().take(40).collect::<String>());
          }
          let r = router.send_multipart(vec![util::msg(b"D".to_vec(), true), util::msg(b"x".to_vec(), false)]).await;
          println!("{}: hello received {:?}; after dealer.close(): events {:?}; send to D -> {:?}", tr.name(), got, evs, r.map_err(|e| util::err_kind(&e)));
          let _ = tokio::time::timeout(Duration::from_secs(5), ctx.term()).await;
          true
        }
        "NB" => {
          // burst of small messages over an encrypted link (session batches them into one record?)
          let mech = if it % 2 == 0 { "noise" } else { "curve" };
          let mut k1 = [7u8; 32];
          k1[0] = it as u8;
          let mut k2 = [9u8; 32];
          k2[1] = it as u8;
          let pull = ctx.socket(SocketType::Pull).unwrap();
          let push = ctx.socket(SocketType::Push).unwrap();
          if mech == "noise" {
            let srv = rzmq::verif::noise_keypair_from(k1);
            let cli = rzmq::verif::noise_keypair_from(k2);
            pull.set_option(opt::NOISE_XX_ENABLED, true).await.unwrap();
            pull.set_option_raw(opt::NOISE_XX_STATIC_SECRET_KEY, &srv.0).await.unwrap();
            push.set_option(opt::NOISE_XX_ENABLED, true).await.unwrap();
            push.set_option_raw(opt::NOISE_XX_STATIC_SECRET_KEY, &cli.0).await.unwrap();
            push.set_option_raw(opt::NOISE_XX_REMOTE_STATIC_PUBLIC_KEY, &srv.1).await.unwrap();
          } else {
            let srv = rzmq::verif::curve_keypair_from(k1);
            let cli = rzmq::verif::curve_keypair_from(k2);
            pull.set_option(opt::CURVE_SERVER, true).await.unwrap();
            pull.set_option_raw(opt::CURVE_SECRET_KEY, &srv.0).await.unwrap();
            push.set_option_raw(opt::CURVE_SECRET_KEY, &cli.0).await.unwrap();
            push.set_option_raw(opt::CURVE_SERVER_KEY, &srv.1).await.unwrap();
          }
          util::set_i32(&pull, opt::RCVTIMEO, 1500).await;
          let ep = util::bind_fresh(&pull, util::Transport::Tcp).await.unwrap();
          let _ = push.connect(&ep).await;
          tokio::time::sleep(Duration::from_millis(400)).await;
          let mut acc = 0;
          for k in 0..300u32 {
            let mut b = k.to_be_bytes().to_vec();
            b.resize(1024, 0x55);
            if push.send(util::msg(b, false)).await.is_ok() {
              acc += 1;
            }
          }
          let mut got = 0;
          while pull.recv().await.is_ok() {
            got += 1;
          }
          println!("{}: accepted {} received {}", mech, acc, got);
          let _ = tokio::time::timeout(Duration::from_secs(5), ctx.term()).await;
          got == acc
        }
        "GO" => {
          // many tasks calling get_option() on a quiet socket: does any call fail?
          let s = ctx.socket(SocketType::Pull).unwrap();
          let _ = util::bind_fresh(&s, util::Transport::Tcp).await;
          let mut hs = vec![];
          for _ in 0..32 {
            let p = s.clone();
            hs.push(tokio::spawn(async move {
              let mut f = 0;
              for _ in 0..3000 {
                if let Err(e) = p.get_option(opt::RCVHWM).await {
                  if f == 0 {
                    println!("get_option failed: {:?}", e);
                  }
                  f += 1;
                }
                tokio::task::yield_now().await;
              }
              f
            }));
          }
          let mut total = 0;
          for h in hs {
            total += h.await.unwrap_or(0);
          }
          println!("failures: {} of 96000 calls", total);
          let _ = tokio::time::timeout(Duration::from_secs(5), ctx.term()).await;
          total == 0
        }
        "HB" => {
          // encrypted link, reader stalls with heartbeats on: does a PONG jump ahead of sealed data?
          let mech = ["noise", "curve", "null"][it % 3];
          let k1 = [7u8; 32];
          let k2 = [9u8; 32];
          let pull = ctx.socket(SocketType::Pull).unwrap();
          let push = ctx.socket(SocketType::Push).unwrap();
          if mech == "noise" {
            let srv = rzmq::verif::noise_keypair_from(k1);
            let cli = rzmq::verif::noise_keypair_from(k2);
            pull.set_option(opt::NOISE_XX_ENABLED, true).await.unwrap();
            pull.set_option_raw(opt::NOISE_XX_STATIC_SECRET_KEY, &srv.0).await.unwrap();
            push.set_option(opt::NOISE_XX_ENABLED, true).await.unwrap();
            push.set_option_raw(opt::NOISE_XX_STATIC_SECRET_KEY, &cli.0).await.unwrap();
            push.set_option_raw(opt::NOISE_XX_REMOTE_STATIC_PUBLIC_KEY, &srv.1).await.unwrap();
          } else if mech == "curve" {
            let srv = rzmq::verif::curve_keypair_from(k1);
            let cli = rzmq::verif::curve_keypair_from(k2);
            pull.set_option(opt::CURVE_SERVER, true).await.unwrap();
            pull.set_option_raw(opt::CURVE_SECRET_KEY, &srv.0).await.unwrap();
            push.set_option_raw(opt::CURVE_SECRET_KEY, &cli.0).await.unwrap();
            push.set_option_raw(opt::CURVE_SERVER_KEY, &srv.1).await.unwrap();
          }
          for s in [&pull, &push] {
            util::set_i32(s, opt::SNDHWM, 10).await;
            util::set_i32(s, opt::RCVHWM, 10).await;
            util::set_i32(s, opt::SNDBUF, 32 * 1024).await;
            util::set_i32(s, opt::RCVBUF, 32 * 1024).await;
          }
          // the READER pings (it sees no activity while it does not read)
          util::set_i32(&pull, opt::HEARTBEAT_IVL, 100).await;
          util::set_i32(&pull, opt::HEARTBEAT_TIMEOUT, 10_000).await;
          util::set_i32(&pull, opt::RCVTIMEO, 2000).await;
          util::set_i32(&push, opt::SNDTIMEO, 0).await;
          let ep = util::bind_fresh(&pull, util::Transport::Tcp).await.unwrap();
          let _ = push.connect(&ep).await;
          tokio::time::sleep(Duration::from_millis(500)).await;
          let mut acc = 0;
          let t0 = Instant::now();
          // produce for 2 s against a reader that does not read
          let mut k = 0u32;
          while t0.elapsed() < Duration::from_secs(2) {
            let mut b = k.to_be_bytes().to_vec();
            b.resize(20_000, 0x55);
            if push.send(util::msg(b, false)).await.is_ok() {
              acc += 1;
              k += 1;
            } else {
              tokio::time::sleep(Duration::from_millis(5)).await;
            }
          }
          let mut got = 0;
          while pull.recv().await.is_ok() {
            got += 1;
          }
          println!("{}: accepted {} received {}", mech, acc, got);
          let _ = tokio::time::timeout(Duration::from_secs(5), ctx.term()).await;
          got == acc
        }
        "RT" => {
          // tcp accept-and-drop: do the reconnect attempts ever stop?
          let (lst, ep) = vh::rawpeer::RawListener::bind_tcp().await.unwrap();
          let s = ctx.socket(SocketType::Push).unwrap();
          util::set_i32(&s, opt::RECONNECT_IVL, 200).await;
          util::set_i32(&s, opt::RECONNECT_IVL_MAX, 200).await;
          let mon = s.monitor(1024).await.unwrap();
          let evlog: std::sync::Arc<parking_lot::Mutex<Vec<String>>> = Default::default();
          let ev2 = evlog.clone();
          tokio::spawn(async move {
            let t = Instant::now();
            while let Ok(ev) = mon.recv().await {
              ev2.lock().push(format!("+{:?} {}", t.elapsed(), format!("{:?}", ev).chars().take(90).collect::<String>()));
            }
          });
          let _ = s.connect(&ep).await;
          let t0 = Instant::now();
          let mut accepts = vec![];
          while t0.elapsed() < Duration::from_secs(6) {
            match tokio::time::timeout(Duration::from_millis(6000).saturating_sub(t0.elapsed()), lst.accept()).await {
              Ok(Ok(c)) => {
                accepts.push(t0.elapsed().as_millis());
                c.set_linger0();
                drop(c);
              }
              _ => break,
            }
          }
          let last_gap = t0.elapsed().as_millis() - accepts.last().copied().unwrap_or(0);
          let ok = last_gap < 1500;
          if !ok {
            println!("attempts STOPPED: accepts at {:?} ms (nothing for the last {} ms)", accepts, last_gap);
            for l in evlog.lock().iter().rev().take(14).rev() {
              println!("   {}", l);
            }
            let api = tokio::time::timeout(Duration::from_secs(2), s.get_option(opt::RECONNECT_IVL)).await;
            println!("   socket API afterwards: {:?}", api.map(|r| r.map(|v| v.len())));
          }
          let _ = tokio::time::timeout(Duration::from_secs(5), ctx.term()).await;
          ok
        }
        "Q" => {
          // does ReadyPipeQueue::close() release a blocked pop() while a sender clone is still alive?
          let q = std::sync::Arc::new(rzmq::verif::Rpq::<u32>::new(4));
          let keep = q.register_pipe(1, 4, 1);
          let q2 = q.clone();
          let h = tokio::spawn(async move { q2.pop().await.is_err() });
          tokio::time::sleep(Duration::from_millis(20)).await;
          q.close();
          let r = tokio::time::timeout(Duration::from_secs(2), h).await.is_ok();
          println!("  Q: pop released by close() with a live sender clone: {}", r);
          // and a pop() started after close()
          let q3 = q.clone();
          let r2 = tokio::time::timeout(Duration::from_secs(2), async move { q3.pop().await.is_err() }).await.is_ok();
          println!("  Q: pop started after close() returns: {}", r2);
          drop(keep);
          r && r2
        }
        "S" => {
          // SUB recv() racing with a connection attaching and close()/term()
          let publ = ctx.socket(SocketType::Pub).unwrap();
          let tr = if it % 2 == 0 { util::Transport::Ipc } else { util::Transport::Tcp };
          let ep = util::bind_fresh(&publ, tr).await.unwrap();
          let sub = ctx.socket(SocketType::Sub).unwrap();
          sub.set_option(opt::SUBSCRIBE, "").await.unwrap();
          let s2 = sub.clone();
          let h = tokio::spawn(async move {
            loop {
              if s2.recv().await.is_err() {
                return true;
              }
            }
          });
          sub.connect(&ep).await.unwrap();
          tokio::time::sleep(Duration::from_micros((it as u64 * 53) % 4000)).await;
          let s3 = sub.clone();
          let c = tokio::spawn(async move {
            let _ = s3.close().await;
          });
          let _ = tokio::time::timeout(Duration::from_secs(10), ctx.term()).await;
          let _ = c.await;
          let t = std::time::Instant::now();
          let ok = tokio::time::timeout(Duration::from_secs(60), h).await.is_ok();
          if t.elapsed() > Duration::from_secs(2) {
            println!("  S it={} recv() returned {:?} after close+term (ok={}) live_actors={}", it, t.elapsed(), ok, rzmq::verif::live_actors(&ctx));
          }
          ok
        }
        "B" => {
          let s = ctx.socket(SocketType::Pull).unwrap();
          let ep = util::bind_fresh(&s, util::Transport::Tcp).await.unwrap();
          let p = ctx.socket(SocketType::Push).unwrap();
          p.connect(&ep).await.unwrap();
          tokio::time::sleep(Duration::from_micros((it as u64 * 53) % 5000)).await;
          let s2 = s.clone(); let p2 = p.clone(); let c2 = ctx.clone();
          let h1 = tokio::spawn(async move { let _ = s2.close().await; });
          let h2 = tokio::spawn(async move { let _ = p2.close().await; });
          let h3 = tokio::spawn(async move { let _ = c2.term().await; });
          let t = Instant::now();
          let a = tokio::time::timeout(Duration::from_secs(15), async { let _ = h1.await; let _ = h2.await; let _ = h3.await; }).await.is_ok();
          if !a { println!("  B: close/term concurrent did not finish in 15s"); }
          let _ = t;
          a
        }
        "C" => {
          let d = ctx.socket(SocketType::Push).unwrap();
          util::set_i32(&d, opt::RECONNECT_IVL, 20).await;
          let _ = d.connect("tcp://127.0.0.1:9").await;
          let r = ctx.socket(SocketType::Router).unwrap();
          let ep = util::bind_fresh(&r, util::Transport::Tcp).await.unwrap();
          let dl = ctx.socket(SocketType::Dealer).unwrap();
          dl.connect(&ep).await.unwrap();
          tokio::time::sleep(Duration::from_millis((it as u64 * 7) % 30)).await;
          let _ = r.close().await; let _ = dl.close().await; let _ = d.close().await;
          let t = Instant::now();
          let _ = ctx.term().await;
          let el = t.elapsed();
          let la = rzmq::verif::live_actors(&ctx);
          if el > Duration::from_secs(5) || la > 0 { println!("  C: term took {:?}, live actors {}", el, la); false } else { true }
        }
        "D" => {
          let d = ctx.socket(SocketType::Push).unwrap();
          util::set_i32(&d, opt::RECONNECT_IVL, 20).await;
          let _ = d.connect("tcp://127.0.0.1:9").await;
          tokio::time::sleep(Duration::from_millis((it as u64 * 7) % 60)).await;
          let _ = d.close().await;
          let t = Instant::now();
          let _ = ctx.term().await;
          let el = t.elapsed();
          let la = rzmq::verif::live_actors(&ctx);
          if el > Duration::from_secs(5) || la > 0 { println!("  D: sleep {}ms term took {:?}, live actors {}", (it as u64 * 7) % 60, el, la); false } else { true }
        }
        "E" => {
          // no close, just term while retrying
          let d = ctx.socket(SocketType::Push).unwrap();
          util::set_i32(&d, opt::RECONNECT_IVL, 20).await;
          let _ = d.connect("tcp://127.0.0.1:9").await;
          tokio::time::sleep(Duration::from_millis((it as u64 * 7) % 60)).await;
          let t = Instant::now();
          let _ = ctx.term().await;
          let el = t.elapsed();
          let la = rzmq::verif::live_actors(&ctx);
          if el > Duration::from_secs(5) || la > 0 { println!("  E: sleep {}ms term took {:?}, live actors {}", (it as u64 * 7) % 60, el, la); false } else { true }
        }
        "F" => {
          // PULL with a raw peer stalled mid-handshake; a recv() is in flight while close()+term()
          let s = ctx.socket(SocketType::Pull).unwrap();
          util::set_i32(&s, opt::HANDSHAKE_IVL, 5000).await;
          let ep = util::bind_fresh(&s, util::Transport::Tcp).await.unwrap();
          let mut raw = vh::rawpeer::RawStream::connect(&ep).await.unwrap();
          let _ = raw.write_all(&vh::refzmtp::greeting_v3(0, "NULL", false)[..20]).await;
          let s2 = s.clone();
          let h = tokio::spawn(async move { let r = s2.recv().await; r.is_err() });
          tokio::time::sleep(Duration::from_millis(20 + (it as u64 * 7) % 40)).await;
          let t = Instant::now();
          let _ = s.close().await;
          let _ = ctx.term().await;
          let el = t.elapsed();
          let ok = tokio::time::timeout(Duration::from_secs(3), h).await.is_ok();
          if !ok { println!("  F: recv() still pending 3 s after close+term (which took {:?}); live actors {}", el, rzmq::verif::live_actors(&ctx)); }
          drop(raw);
          ok
        }
        "G" => {
          // same without the raw peer
          let s = ctx.socket(SocketType::Pull).unwrap();
          let ep = util::bind_fresh(&s, util::Transport::Tcp).await.unwrap();
          let p = ctx.socket(SocketType::Push).unwrap();
          p.connect(&ep).await.unwrap();
          let s2 = s.clone();
          let h = tokio::spawn(async move { let r = s2.recv().await; r.is_err() });
          tokio::time::sleep(Duration::from_millis(20 + (it as u64 * 7) % 40)).await;
          let _ = s.close().await;
          let _ = ctx.term().await;
          let ok = tokio::time::timeout(Duration::from_secs(3), h).await.is_ok();
          if !ok { println!("  G: recv() still pending 3 s after close+term; live actors {}", rzmq::verif::live_actors(&ctx)); }
          ok
        }
        "A2" => {
          // many option setters/getters on several sockets racing with term
          let mut socks = vec![];
          for t in [SocketType::Pull, SocketType::Push, SocketType::Dealer, SocketType::Router, SocketType::Sub, SocketType::Pub] {
            socks.push(ctx.socket(t).unwrap());
          }
          let ep = util::bind_fresh(&socks[0], util::Transport::Tcp).await.unwrap();
          socks[1].connect(&ep).await.unwrap();
          let mut hs = vec![];
          for s in &socks {
            for k in 0..3 {
              let s2 = s.clone();
              hs.push(tokio::spawn(async move {
                for i in 0..5000 {
                  let r = if (i + k) % 2 == 0 { s2.set_option(opt::SNDTIMEO, -1).await } else { s2.get_option(opt::RCVHWM).await.map(|_| ()) };
                  if r.is_err() { return; }
                }
              }));
            }
          }
          tokio::time::sleep(Duration::from_micros((it as u64 * 371) % 9000)).await;
          let _ = ctx.term().await;
          let mut ok = true;
          for h in hs { if tokio::time::timeout(Duration::from_secs(3), h).await.is_err() { ok = false; } }
          if !ok { println!("  A2: an option call still pending 3 s after term"); }
          ok
        }
        "L" => {
          let rctx = util::new_ctx();
          let pull = rctx.socket(SocketType::Pull).unwrap();
          util::set_i32(&pull, opt::RCVTIMEO, 1500).await;
          let ep = util::bind_fresh(&pull, util::Transport::Tcp).await.unwrap();
          let push = ctx.socket(SocketType::Push).unwrap();
          util::set_i32(&push, opt::LINGER, -1).await;
          push.connect(&ep).await.unwrap();
          tokio::time::sleep(Duration::from_millis(300)).await;
          let n = 200;
          for i in 0..n { push.send(util::msg(format!("m{}", i).into_bytes(), false)).await.unwrap(); }
          let t = Instant::now();
          let _ = push.close().await;
          let ct = t.elapsed();
          let mut got = 0;
          while pull.recv().await.is_ok() { got += 1; }
          println!("  L: LINGER=-1, {} sent+accepted, close took {:?}, received {}", n, ct, got);
          let _ = rctx.term().await;
          got == n
        }
        "H" => {
          // REQ with no peer: send() waits for a connection; close()+term() must release it
          let s = ctx.socket(SocketType::Req).unwrap();
          let s2 = s.clone();
          let h = tokio::spawn(async move { s2.send(util::msg(b"q".to_vec(), false)).await.is_err() });
          tokio::time::sleep(Duration::from_millis(30)).await;
          let _ = s.close().await;
          let _ = ctx.term().await;
          let ok = tokio::time::timeout(Duration::from_secs(3), h).await.is_ok();
          if !ok { println!("  H: REQ send() still pending 3 s after close+term"); }
          ok
        }
        _ => true,
      }
    });
    if !r { hangs += 1; }
  }
  println!("case {} : {} problem(s) in {} iterations", which, hangs, iters);
}

fn main() { let c = rzmq::verif::EngineCfg::new("PUSH"); let _e = c.engine(true); println!("ok"); }

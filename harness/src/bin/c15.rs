//! C15 — LINGER governs what happens to accepted messages at close.
//! Sender queues N accepted messages, then close()/term()/drop with a given LINGER; the receiver
//! (another context) keeps reading. C01 integrity oracle at the receiver, completeness when
//! LINGER is -1 or ample, wall time of close/term against LINGER.

use rzmq::socket::options as opt;
use rzmq::SocketType;
use serde_json::json;
use std::time::{Duration, Instant};
use vh::args::Args;
use vh::gen::Rng;
use vh::oracles::{self, SendStatus, SentMsg};
use vh::report::Report;
use vh::util::{self, Transport};

#[derive(Clone, Copy, Debug, PartialEq, Eq, Hash)]
enum How {
  Close,
  Term,
  CloseThenTerm,
  Drop,
}

#[derive(Clone, Copy, Debug, PartialEq, Eq, Hash)]
enum Depth {
  Zero,
  BelowHwm,
  AboveHwm,
  BeyondKernel,
}

#[derive(Clone, Copy, Debug, PartialEq, Eq, Hash)]
enum Tx {
  Push,
  Dealer,
  Router,
  Pub,
}

async fn case(rep: &mut Report, rng: &mut Rng, tx: Tx, tr: Transport, linger_ms: i32, depth: Depth, how: How, slow_reader: bool) {
  let rctx = util::new_ctx();
  let same_ctx = tr == Transport::Inproc;
  let sctx = if same_ctx { rctx.clone() } else { util::new_ctx() };
  let (st, rt) = match tx {
    Tx::Push => (SocketType::Push, SocketType::Pull),
    Tx::Dealer => (SocketType::Dealer, SocketType::Router),
    Tx::Router => (SocketType::Router, SocketType::Dealer),
    Tx::Pub => (SocketType::Pub, SocketType::Sub),
  };
  let r = rctx.socket(rt).unwrap();
  util::set_i32(&r, opt::RCVHWM, 100_000).await;
  util::set_i32(&r, opt::RCVTIMEO, 500).await;
  if rt == SocketType::Sub {
    r.set_option(opt::SUBSCRIBE, "").await.unwrap();
  }
  if rt == SocketType::Dealer {
    r.set_option_raw(opt::ROUTING_ID, b"RX").await.unwrap();
  }
  let ep = match util::bind_fresh(&r, tr).await {
    Ok(e) => e,
    Err(e) => {
      rep.inconclusive(format!("bind {e}"));
      return;
    }
  };
  let s = sctx.socket(st).unwrap();
  let sndhwm = 1000;
  util::set_i32(&s, opt::SNDHWM, match depth { Depth::BeyondKernel => 100_000, _ => sndhwm }).await;
  util::set_i32(&s, opt::LINGER, linger_ms).await;
  util::set_i32(&s, opt::SNDTIMEO, 2000).await;
  if st == SocketType::Router {
    s.set_option(opt::ROUTER_MANDATORY, true).await.unwrap();
  }
  if s.connect(&ep).await.is_err() {
    rep.inconclusive("connect failed".to_string());
    return;
  }
  tokio::time::sleep(Duration::from_millis(if tr == Transport::Inproc { 80 } else { 300 })).await;
  let (n, len) = match depth {
    Depth::Zero => (0u32, 100usize),
    Depth::BelowHwm => (200, 200),
    Depth::AboveHwm => (3000, 300),
    Depth::BeyondKernel => (5000, 4096),
  };
  let run = (rng.next() & 0x7FFF_FFFF) as u32;
  // reader
  let sender_closed = std::sync::Arc::new(std::sync::atomic::AtomicBool::new(false));
  let reader = {
    let r = r.clone();
    let strip = rt == SocketType::Router;
    let sender_closed = sender_closed.clone();
    tokio::spawn(async move {
      let mut got: Vec<Vec<Vec<u8>>> = vec![];
      let mut idle = 0;
      let mut errs: Vec<String> = vec![];
      let t_reader = Instant::now();
      loop {
        let t_call = Instant::now();
        match r.recv_multipart().await {
          Ok(m) => {
            idle = 0;
            let mut v: Vec<Vec<u8>> = m.into_iter().map(|f| f.data().unwrap_or(&[]).to_vec()).collect();
            if strip && !v.is_empty() {
              v.remove(0);
            }
            got.push(v);
            if slow_reader && got.len() % 50 == 0 {
              tokio::time::sleep(Duration::from_millis(5)).await;
            }
          }
          Err(e) => {
            idle += 1;
            let k = util::err_kind(&e);
            // an error that is not the 500 ms RCVTIMEO expiring (wrong kind, or returned early) means the reader
            // did not really wait: remembered so that an incomplete delivery is not blamed on LINGER
            if (k != "Timeout" && k != "ResourceLimitReached") || t_call.elapsed() < Duration::from_millis(400) {
              errs.push(format!("{} after {:?}", k, t_call.elapsed()));
            }
            // the peer keeps reading through the close: silence only counts once close/term has returned
            if !sender_closed.load(std::sync::atomic::Ordering::SeqCst) && t_reader.elapsed() < Duration::from_secs(50) {
              idle = 0;
            }
            if idle >= 5 {
              return (got, errs, t_reader.elapsed());
            }
          }
        }
      }
    })
  };
  // PUB: make sure the subscription is live before counting
  if tx == Tx::Pub {
    tokio::time::sleep(Duration::from_millis(200)).await;
  }
  let mut sent: Vec<SentMsg> = vec![];
  let t_send = Instant::now();
  for seq in 0..n {
    let fr = oracles::build_message(run, 1, seq, u32::MAX, &[len]);
    let res = if st == SocketType::Router { s.send_multipart(vec![util::msg(b"RX".to_vec(), true), util::msg(fr[0].clone(), false)]).await } else { s.send(util::msg(fr[0].clone(), false)).await };
    sent.push(SentMsg { sender: 1, seq, dest: u32::MAX, frame_lens: vec![len], status: if res.is_ok() { SendStatus::Accepted } else { SendStatus::Maybe } });
    if res.is_err() {
      break;
    }
    // DEALER egress keeps order only when paced (recorded under C01): do not burst
    if tx == Tx::Dealer && seq % 20 == 19 {
      tokio::task::yield_now().await;
    }
  }
  let accepted = sent.iter().filter(|x| x.status == SendStatus::Accepted).count();
  let send_phase = t_send.elapsed();
  // ---- close ----
  let t0 = Instant::now();
  let limit = Duration::from_secs(45);
  let closed = tokio::time::timeout(limit, async {
    match how {
      How::Close => {
        let _ = s.close().await;
      }
      How::Term => {
        if !same_ctx {
          let _ = sctx.term().await;
        } else {
          let _ = s.close().await;
        }
      }
      How::CloseThenTerm => {
        let _ = s.close().await;
        if !same_ctx {
          let _ = sctx.term().await;
        }
      }
      How::Drop => {
        drop(s);
        if !same_ctx {
          let _ = sctx.term().await;
        }
      }
    }
  })
  .await;
  let close_time = t0.elapsed();
  sender_closed.store(true, std::sync::atomic::Ordering::SeqCst);
  let (got, reader_errs, reader_ran) = tokio::time::timeout(Duration::from_secs(60), reader).await.ok().and_then(|x| x.ok()).unwrap_or_default();
  // post-mortem for an incomplete delivery: is anything still obtainable from the receiving socket?
  let mut late_reads = 0usize;
  if got.len() < accepted {
    while late_reads < 50 {
      match r.recv_multipart().await {
        Ok(_) => late_reads += 1,
        Err(_) => break,
      }
    }
  }
  let cfg = format!("{:?} over {} LINGER={}ms depth={:?} ({}x{}B, {} accepted) via {:?} reader={}", tx, tr.name(), linger_ms, depth, n, len, accepted, how, if slow_reader { "slow" } else { "fast" });
  rep.case(&(tx, tr, linger_ms, depth, how, slow_reader), true);
  rep.max(&format!("max:close_ms[linger={}]", linger_ms), close_time.as_millis() as u64);
  let sigd = format!("tx={:?}|depth={:?}", tx, depth);
  // (1) integrity always
  let must_complete = (linger_ms < 0 || linger_ms >= 10_000) && tx != Tx::Pub && how != How::Drop;
  let f = oracles::check_receiver(run, &sent, &got, None, must_complete);
  let mut kinds = f.kinds();
  if tx == Tx::Dealer {
    // DEALER egress loss/reorder is recorded under C01; here only integrity + duplicates count
    kinds.retain(|k| *k != "lost" && *k != "reordered");
  }
  if kinds == vec!["lost"] && !reader_errs.is_empty() {
    // the reading side gave up on errors other than its receive timeout: not a verdict on LINGER
    rep.inconclusive(format!("{}: reader stopped after {:?} on unexpected recv errors {:?}; got {} of {}", cfg, reader_ran, &reader_errs[..reader_errs.len().min(5)], got.len(), accepted));
  } else if !kinds.is_empty() {
    let incomplete_only = kinds == vec!["lost"];
    // one defect whatever the depth / LINGER value: keyed on the sender type and transport class
    let sig = if incomplete_only { format!("linger_did_not_wait_for_accepted_messages|tx={:?}|{}", tx, if tr == Transport::Inproc { "inproc" } else { "stream" }) } else { format!("{}_at_close|{}", kinds.join("+"), sigd) };
    rep.violation(sig, format!("{}: close took {:?}; receiver got {} of {} accepted: {}", cfg, close_time, got.len(), accepted, kinds.join("+")), json!({"config": cfg, "close_ms": close_time.as_millis() as u64, "received": got.len(), "accepted": accepted, "reader_ran_ms": reader_ran.as_millis() as u64, "reader_unexpected_errors": reader_errs, "send_phase_ms": send_phase.as_millis() as u64, "obtainable_after_reader_gave_up": late_reads, "findings": f.to_json()}));
  }
  // (2) time bounds
  if closed.is_err() {
    rep.violation(format!("close_never_returned|{:?}", how), format!("{}: close/term did not return within {:?}", cfg, limit), json!({"config": cfg}));
  } else if linger_ms == 0 && close_time > util::scaled(Duration::from_secs(3)) {
    rep.violation(format!("linger0_close_not_prompt|{:?}", how), format!("{}: LINGER 0 but close/term took {:?}", cfg, close_time), json!({"config": cfg, "close_ms": close_time.as_millis() as u64}));
  } else if linger_ms > 0 && close_time > Duration::from_millis(linger_ms as u64) + Duration::from_secs(12) {
    rep.violation(format!("close_outlasts_linger|{:?}", how), format!("{}: close/term took {:?}, far beyond LINGER", cfg, close_time), json!({"config": cfg, "close_ms": close_time.as_millis() as u64}));
  }
  let _ = tokio::time::timeout(Duration::from_secs(12), rctx.term()).await;
}

/// (settled) The sender's side is taken out of the picture: a small burst (well below the kernel socket
/// buffers) is accepted, the sender waits until its session has written everything, and only then closes.
/// The receiving application is slow (small RCVHWM, starts late and/or paces itself), so at the moment the
/// peer's end-of-stream arrives, accepted messages are still parked in the receiving session / per-pipe
/// queue. Everything accepted before close must still reach the reading peer, for every LINGER value.
#[allow(clippy::too_many_arguments)]
async fn settled_case(rep: &mut Report, rng: &mut Rng, tx: Tx, tr: Transport, rcvhwm: i32, n: u32, len: usize, linger_ms: i32, how: How, reader_late: bool, pace_ms: u64, rcvbatch: Option<i32>, instant: bool) {
  let rctx = util::new_ctx();
  let same_ctx = tr == Transport::Inproc;
  let sctx = if same_ctx { rctx.clone() } else { util::new_ctx() };
  let (st, rt) = match tx {
    Tx::Push => (SocketType::Push, SocketType::Pull),
    Tx::Router => (SocketType::Router, SocketType::Dealer),
    Tx::Dealer => (SocketType::Dealer, SocketType::Router),
    Tx::Pub => (SocketType::Pub, SocketType::Sub),
  };
  let r = rctx.socket(rt).unwrap();
  util::set_i32(&r, opt::RCVHWM, rcvhwm).await;
  util::set_i32(&r, opt::RCVTIMEO, 400).await;
  if let Some(b) = rcvbatch {
    util::set_i32(&r, opt::RCVBATCH_COUNT, b).await;
  }
  if rt == SocketType::Dealer {
    r.set_option_raw(opt::ROUTING_ID, b"RX").await.unwrap();
  }
  let ep = match util::bind_fresh(&r, tr).await {
    Ok(e) => e,
    Err(e) => {
      rep.inconclusive(format!("bind {e}"));
      return;
    }
  };
  let s = sctx.socket(st).unwrap();
  util::set_i32(&s, opt::SNDHWM, 1000).await;
  util::set_i32(&s, opt::LINGER, linger_ms).await;
  util::set_i32(&s, opt::SNDTIMEO, 2000).await;
  if st == SocketType::Router {
    s.set_option(opt::ROUTER_MANDATORY, true).await.unwrap();
  }
  if s.connect(&ep).await.is_err() {
    rep.inconclusive("connect failed".to_string());
    return;
  }
  if !instant {
    tokio::time::sleep(util::scaled(Duration::from_millis(300))).await;
  }
  let run = (rng.next() & 0x7FFF_FFFF) as u32;
  let (go_tx, go_rx) = tokio::sync::oneshot::channel::<()>();
  let reader = {
    let r = r.clone();
    let strip = rt == SocketType::Router;
    tokio::spawn(async move {
      if reader_late {
        let _ = go_rx.await;
      }
      let mut got: Vec<Vec<Vec<u8>>> = vec![];
      let mut idle = 0;
      while (got.len() as u32) < n {
        match r.recv_multipart().await {
          Ok(m) => {
            idle = 0;
            let mut v: Vec<Vec<u8>> = m.into_iter().map(|f| f.data().unwrap_or(&[]).to_vec()).collect();
            if strip && !v.is_empty() {
              v.remove(0);
            }
            got.push(v);
            if pace_ms > 0 {
              tokio::time::sleep(Duration::from_millis(pace_ms)).await;
            }
          }
          Err(_) => {
            idle += 1;
            if idle >= 6 {
              break;
            }
          }
        }
      }
      // one more read: nothing beyond the accepted set may show up
      if let Ok(Ok(m)) = tokio::time::timeout(Duration::from_millis(50), r.recv_multipart()).await {
        got.push(m.into_iter().map(|f| f.data().unwrap_or(&[]).to_vec()).collect());
      }
      got
    })
  };
  let mut sent: Vec<SentMsg> = vec![];
  for seq in 0..n {
    let fr = oracles::build_message(run, 1, seq, u32::MAX, &[len]);
    let res = if st == SocketType::Router { s.send_multipart(vec![util::msg(b"RX".to_vec(), true), util::msg(fr[0].clone(), false)]).await } else { s.send(util::msg(fr[0].clone(), false)).await };
    sent.push(SentMsg { sender: 1, seq, dest: u32::MAX, frame_lens: vec![len], status: if res.is_ok() { SendStatus::Accepted } else { SendStatus::Maybe } });
    if res.is_err() {
      break;
    }
  }
  let accepted = sent.iter().filter(|x| x.status == SendStatus::Accepted).count();
  // let the sending session put everything on the wire (total <= 48 KiB: fits the kernel buffers of tcp and unix sockets)
  if !instant {
    tokio::time::sleep(util::scaled(Duration::from_millis(700))).await;
  }
  let t0 = Instant::now();
  let closed = tokio::time::timeout(Duration::from_secs(45), async {
    match how {
      How::Close => {
        let _ = s.close().await;
      }
      How::Term => {
        if same_ctx {
          let _ = s.close().await;
        } else {
          let _ = sctx.term().await;
        }
      }
      How::CloseThenTerm => {
        let _ = s.close().await;
        if !same_ctx {
          let _ = sctx.term().await;
        }
      }
      How::Drop => {
        drop(s);
        if !same_ctx {
          let _ = sctx.term().await;
        }
      }
    }
  })
  .await;
  let close_time = t0.elapsed();
  if reader_late {
    // give the end-of-stream time to reach the receiving session before the application starts reading
    tokio::time::sleep(util::scaled(Duration::from_millis(150))).await;
  }
  let _ = go_tx.send(());
  let got = tokio::time::timeout(Duration::from_secs(90), reader).await.ok().and_then(|x| x.ok()).unwrap_or_default();
  let cfg = format!("{}: {:?} over {} {}x{}B ({} accepted) RCVHWM={} RCVBATCH_COUNT={:?} LINGER={}ms via {:?}, reader {} pace {}ms", if instant { "instant (connect, send, close back to back)" } else { "settled" }, tx, tr.name(), n, len, accepted, rcvhwm, rcvbatch, linger_ms, how, if reader_late { "starts after the close" } else { "running" }, pace_ms);
  rep.case(&("settled", instant, tx, tr, rcvhwm, n, len, linger_ms, how, reader_late, pace_ms, rcvbatch), true);
  rep.count("settled_cases", 1);
  rep.count("settled_messages_accepted", accepted as u64);
  rep.count("settled_messages_received", got.len() as u64);
  if closed.is_err() {
    rep.violation(format!("close_never_returned|{:?}", how), format!("{}: close/term did not return within 45 s", cfg), json!({"config": cfg}));
  }
  let f = oracles::check_receiver(run, &sent, &got, None, true);
  let kinds = f.kinds();
  if !kinds.is_empty() {
    let sig = format!("{}_close_{}|tx={:?}|{}", if instant { "instant" } else { "settled" }, kinds.join("+"), tx, if reader_late { "reader_after_close" } else { "slow_reader" });
    rep.violation(sig, format!("{}: close took {:?}; receiver got {} of {} accepted although everything had been on the wire for 0.7 s before the close: {}", cfg, close_time, got.len(), accepted, kinds.join("+")), json!({"config": cfg, "received": got.len(), "accepted": accepted, "findings": f.to_json()}));
  }
  let _ = tokio::time::timeout(Duration::from_secs(12), rctx.term()).await;
}

/// (bounded) a bounded LINGER is a bound: the closing socket must let go of a connection whose peer does not drain
/// (inproc, RCVHWM 4, never reads; a backlog is queued) once LINGER has expired - observed at the closing socket's own monitor, which
/// must report the disconnect within LINGER + slack of the close() call. close() itself must return promptly too.
async fn bounded_linger_case(rep: &mut Report, tx: Tx, linger_ms: i32, how: How) {
  let ctx = util::new_ctx();
  let (st, rt) = match tx {
    Tx::Push => (SocketType::Push, SocketType::Pull),
    Tx::Router => (SocketType::Router, SocketType::Dealer),
    Tx::Dealer => (SocketType::Dealer, SocketType::Router),
    Tx::Pub => (SocketType::Pub, SocketType::Sub),
  };
  let r = ctx.socket(rt).unwrap();
  util::set_i32(&r, opt::RCVHWM, 4).await;
  if rt == SocketType::Dealer {
    r.set_option_raw(opt::ROUTING_ID, b"RX").await.unwrap();
  }
  let mon = r.monitor(256).await.unwrap();
  let ep = match util::bind_fresh(&r, Transport::Inproc).await {
    Ok(e) => e,
    Err(e) => {
      rep.inconclusive(format!("bind {e}"));
      return;
    }
  };
  let s = ctx.socket(st).unwrap();
  // room on the sender's side, so that part of the backlog waits in ITS queue when it closes
  util::set_i32(&s, opt::SNDHWM, 100).await;
  util::set_i32(&s, opt::SNDTIMEO, 0).await;
  util::set_i32(&s, opt::LINGER, linger_ms).await;
  if st == SocketType::Router {
    s.set_option(opt::ROUTER_MANDATORY, true).await.unwrap();
  }
  let smon = s.monitor(256).await.unwrap();
  if s.connect(&ep).await.is_err() {
    rep.inconclusive("connect failed".to_string());
    return;
  }
  tokio::time::sleep(Duration::from_millis(80)).await;
  // produce, unhurried, until the pipeline refuses: the peer's queue, its reader's hand and the connection's channel
  // are then all full, so the closing socket really has something to linger for
  let mut accepted = 0;
  for k in 0..200u32 {
    let body = k.to_be_bytes().to_vec();
    let res = if st == SocketType::Router { s.send_multipart(vec![util::msg(b"RX".to_vec(), true), util::msg(body, false)]).await } else { s.send(util::msg(body, false)).await };
    if res.is_ok() {
      accepted += 1;
    } else if st != SocketType::Pub {
      break;
    }
    tokio::time::sleep(Duration::from_millis(2)).await;
  }
  // drain monitor events so far (Accepted/Connected ...)
  while let Ok(Ok(_)) = tokio::time::timeout(Duration::from_millis(10), mon.recv()).await {}
  while let Ok(Ok(_)) = tokio::time::timeout(Duration::from_millis(10), smon.recv()).await {}
  let t0 = Instant::now();
  let closed = tokio::time::timeout(util::scaled(Duration::from_secs(20)), async {
    match how {
      How::Drop => drop(s),
      _ => {
        let _ = s.close().await;
      }
    }
  })
  .await;
  let close_time = t0.elapsed();
  let bound = Duration::from_millis(linger_ms.max(0) as u64) + util::scaled(Duration::from_millis(2000));
  let mut torn_down: Option<Duration> = None;
  // the disconnect is looked for on the closing socket's own monitor and on the peer's
  while t0.elapsed() < bound && torn_down.is_none() {
    let left = bound.saturating_sub(t0.elapsed());
    tokio::select! {
      e = mon.recv() => {
        // (the peer's monitor reports the pipe's detach at once, whatever LINGER is: recorded, not the verdict)
        match e {
          Ok(rzmq::socket::SocketEvent::Disconnected { .. }) => rep.count("bounded_peer_saw_disconnect", 1),
          Ok(_) => {}
          Err(_) => tokio::time::sleep(Duration::from_millis(20)).await,
        }
      }
      e = smon.recv() => {
        match e {
          Ok(rzmq::socket::SocketEvent::Disconnected { .. }) => torn_down = Some(t0.elapsed()),
          Ok(_) => {}
          Err(_) => tokio::time::sleep(Duration::from_millis(20)).await,
        }
      }
      _ = tokio::time::sleep(left) => {}
    }
  }
  let cfg = format!("bounded: {:?} over inproc, {} messages accepted towards a peer that never reads (RCVHWM 4, sender SNDHWM 100), LINGER={} ms, via {:?}", tx, accepted, linger_ms, how);
  rep.case(&("bounded", tx, linger_ms, how), true);
  if let Some(t) = torn_down {
    rep.max(&format!("max:bounded_linger_teardown_ms[linger={}]", linger_ms), t.as_millis() as u64);
  }
  if closed.is_err() {
    rep.violation(format!("close_never_returned|{:?}", how), format!("{}: close() did not return within 20 s", cfg), json!({"config": cfg}));
  } else if close_time > Duration::from_millis(linger_ms.max(0) as u64) + util::scaled(Duration::from_secs(3)) {
    rep.violation(format!("close_outlasts_linger|{:?}", how), format!("{}: close() took {:?}", cfg, close_time), json!({"config": cfg}));
  }
  if torn_down.is_none() {
    rep.violation(format!("bounded_linger_never_expires|tx={:?}", tx), format!("{}: {:?} after the close (LINGER + 2 s) the closing socket had still not reported the connection torn down (its monitor's Disconnected event) - it keeps lingering", cfg, bound), json!({"config": cfg, "close_ms": close_time.as_millis() as u64}));
  }
  let _ = tokio::time::timeout(Duration::from_secs(12), ctx.term()).await;
}

fn settled_layer(rep: &mut Report, rng: &mut Rng, rt: &tokio::runtime::Runtime, args: &Args) {
  let mut idx = 0usize;
  // inproc, no pauses at all: connect(), burst, close() back to back (the binder may not even have attached the pipe yet)
  for k in 0..(if args.thorough() { 40 } else { 12 }) {
    if args.mine(k) {
      let linger = *rng.pick(&[-1, 10_000]);
      let (n, len) = *rng.pick(&[(1u32, 10usize), (5, 100), (100, 100), (1000, 1000), (5000, 4096)]);
      let how = *rng.pick(&[How::Close, How::Drop]);
      let tx = *rng.pick(&[Tx::Push, Tx::Router]);
      let late = rng.chance(1, 3);
      let _ = util::guarded(rt, settled_case(rep, rng, tx, Transport::Inproc, 100_000, n, len, linger, how, late, 0, None, true));
    }
  }
  // inproc has no kernel buffer to respect: deep backlogs (20 MB) in front of a reader that starts after the close
  for (k, how) in [How::Close, How::Drop].into_iter().enumerate() {
    for late in [true, false] {
      if args.mine(k) {
        let linger = *rng.pick(&[-1, 10_000]);
        let _ = util::guarded(rt, settled_case(rep, rng, Tx::Push, Transport::Inproc, 100_000, 5000, 4096, linger, how, late, 0, None, false));
      }
    }
  }
  let hwms: &[i32] = if args.thorough() { &[1, 2, 5, 20, 100] } else { &[1, 5, 50] };
  for tx in [Tx::Push, Tx::Router] {
    for tr in [Transport::Tcp, Transport::Ipc, Transport::Inproc] {
      for &hwm in hwms {
        for how in [How::Close, How::Term, How::CloseThenTerm, How::Drop] {
          for late in [true, false] {
            idx += 1;
            if !args.mine(idx) {
              continue;
            }
            if !args.thorough() && (idx / args.nshards.max(1)) % 2 == 1 {
              continue;
            }
            let linger = *rng.pick(&[-1, 0, 100, 10_000]);
            // total payload <= 48 KiB
            let (n, len) = *rng.pick(&[(100u32, 100usize), (300, 60), (40, 1000), (150, 300), (20, 40), (230, 200)]);
            let pace = if late { *rng.pick(&[0u64, 0, 1]) } else { *rng.pick(&[2u64, 5]) };
            let rcvbatch = *rng.pick(&[None, None, Some(1), Some(4)]);
            if !util::guarded(rt, settled_case(rep, rng, tx, tr, hwm, n, len, linger, how, late, pace, rcvbatch, false)) {
              for p in util::take_panics() {
                if p.in_rzmq {
                  rep.violation(format!("panic|{}", util::panic_site(&p.location)), format!("panic at {}: {}", p.location, p.message), json!({"frames": p.backtrace_head}));
                } else {
                  rep.inconclusive(format!("harness panic at {}: {}", p.location, p.message));
                }
              }
            }
          }
        }
      }
    }
  }
}

fn main() {
  let args = Args::parse();
  util::install_panic_watch();
  let mut rep = Report::new("C15", &args.shard_name());
  let mut rng = Rng::new(args.seed.wrapping_mul(275604541).wrapping_add(args.shard as u64));
  let rt = util::runtime(2);
  if args.only.as_deref() == Some("stallprobe") {
    // diagnostic: the deep inproc case over and over (used under artificial CPU load)
    for k in 0..args.get_usize("cases", 30) {
      let tx = if k % 2 == 0 { Tx::Push } else { Tx::Router };
      let _ = util::guarded(&rt, case(&mut rep, &mut rng, tx, Transport::Inproc, -1, Depth::BeyondKernel, How::Close, false));
    }
    rep.merge_hooks();
    rep.emit();
    return;
  }
  if args.only.as_deref() == Some("bounded") {
    let mut i = 0;
    // (DEALER is left out: over inproc its bound ROUTER peer's monitor reports no Disconnected event even for LINGER 0,
    // so the observation point does not exist there; a dropped handle without term() does not close the socket at all)
    for tx in [Tx::Push, Tx::Router, Tx::Pub] {
      for linger in [300, 1000, 0, 50] {
        for how in [How::Close] {
          i += 1;
          if !args.mine(i) || (!args.thorough() && linger == 50) {
            continue;
          }
          let _ = util::guarded(&rt, bounded_linger_case(&mut rep, tx, linger, how));
        }
      }
    }
    rep.merge_hooks();
    rep.emit();
    return;
  }
  if args.only.as_deref() == Some("settled") {
    settled_layer(&mut rep, &mut rng, &rt, &args);
    util::cleanup_ipc_dir();
    rep.sample(json!({"layer": "settled", "note": "burst <= 48 KiB accepted, 0.7 s settle, then close/term/drop with LINGER in {-1,0,100,10000}; receiver RCVHWM small, reads late or slowly"}));
    rep.merge_hooks();
    rep.emit();
    return;
  }
  let mut idx = 0usize;
  let lingers: &[i32] = if args.thorough() { &[-1, 0, 50, 1000, 10_000] } else { &[-1, 0, 10_000] };
  let depths: &[Depth] = if args.thorough() { &[Depth::Zero, Depth::BelowHwm, Depth::AboveHwm, Depth::BeyondKernel] } else { &[Depth::BelowHwm, Depth::BeyondKernel] };
  for tx in [Tx::Push, Tx::Router, Tx::Dealer, Tx::Pub] {
    for tr in [Transport::Tcp, Transport::Ipc, Transport::Inproc] {
      if !args.thorough() && tr == Transport::Ipc && tx != Tx::Push {
        continue;
      }
      for &l in lingers {
        for &d in depths {
          for how in [How::Close, How::Term, How::CloseThenTerm, How::Drop] {
            if !args.thorough() && matches!(how, How::Drop | How::Close) && tx != Tx::Push {
              continue;
            }
            idx += 1;
            if !args.mine(idx) {
              continue;
            }
            let slow = idx % 3 == 0;
            if !util::guarded(&rt, case(&mut rep, &mut rng, tx, tr, l, d, how, slow)) {
              for p in util::take_panics() {
                if p.in_rzmq {
                  rep.violation(format!("panic|{}", util::panic_site(&p.location)), format!("panic at {}: {}", p.location, p.message), json!({"frames": p.backtrace_head}));
                } else {
                  rep.inconclusive(format!("harness panic at {}: {}", p.location, p.message));
                }
              }
            }
          }
        }
      }
    }
  }
  util::cleanup_ipc_dir();
  rep.sample(json!({"lingers_ms": lingers, "depths": depths.iter().map(|d| format!("{:?}", d)).collect::<Vec<_>>(), "how": ["close", "term", "close+term", "drop+term"], "senders": ["PUSH", "ROUTER", "DEALER", "PUB"]}));
  for p in util::take_panics() {
    if p.in_rzmq {
      rep.violation(format!("panic|{}", util::panic_site(&p.location)), format!("panic at {}: {}", p.location, p.message), json!({"frames": p.backtrace_head}));
    }
  }
  rep.merge_hooks();
  rep.emit();
}

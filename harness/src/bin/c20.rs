//! C20 — the io_uring backend is observably equivalent to the Tokio backend.
//! One process per UringConfig (the backend is a process-global singleton). Every scenario is run
//! twice in the same process with the same seed: sockets on the default (tokio) backend and
//! sockets with IO_URING_SESSION_ENABLED; the observable outcomes must be equal. Afterwards:
//! send-pool gauge back to 0, /proc/self/fd back to baseline.
#![allow(clippy::too_many_arguments)]

use rzmq::socket::options as opt;
use rzmq::socket::SocketEvent;
use rzmq::{Socket, SocketType};
use serde_json::{json, Value};
use std::time::{Duration, Instant};
use vh::args::Args;
use vh::gen::Rng;
use vh::oracles::{self, SendStatus, SentMsg};
use vh::payload::HDR;
use vh::rawpeer::RawStream;
use vh::refzmtp;
use vh::report::Report;
use vh::util::{self, Transport};

#[derive(Clone, Copy, Debug)]
struct Ucfg {
  zc: bool,
  ms: bool,
  cork: bool,
  bufs: usize,
  bufsize: usize,
}

async fn mk(ctx: &rzmq::Context, t: SocketType, uring: bool, u: &Ucfg) -> Socket {
  let s = ctx.socket(t).unwrap();
  util::set_i32(&s, opt::RCVTIMEO, 1500).await;
  util::set_i32(&s, opt::SNDTIMEO, 4000).await;
  util::set_i32(&s, opt::RECONNECT_IVL, 60_000).await;
  if uring {
    s.set_option(opt::IO_URING_SESSION_ENABLED, true).await.expect("IO_URING_SESSION_ENABLED");
    #[cfg(feature = "uring")]
    {
      s.set_option(opt::IO_URING_SNDZEROCOPY, u.zc).await.expect("zc");
      s.set_option(opt::IO_URING_RCVMULTISHOT, u.ms).await.expect("ms");
    }
  }
  if u.cork {
    let _ = s.set_option(opt::TCP_CORK, true).await;
  }
  s
}

fn to_vecs(m: Vec<rzmq::Msg>) -> Vec<Vec<u8>> {
  m.into_iter().map(|f| f.data().unwrap_or(&[]).to_vec()).collect()
}

/// Observable outcome of one streaming scenario on one backend.
#[derive(Debug, PartialEq, Eq)]
struct StreamObs {
  accepted: usize,
  received_ok: bool,
  findings: String,
  send_errors: Vec<String>,
}

async fn stream_scenario(rng_seed: u64, pair: (SocketType, SocketType), uring: bool, u: &Ucfg, sizes: &[usize], hwm: i32, slow_reader: bool) -> Option<(StreamObs, Value)> {
  let mut rng = Rng::new(rng_seed);
  let ctx = util::new_ctx();
  let a = mk(&ctx, pair.0, uring, u).await;
  let b = mk(&ctx, pair.1, uring, u).await;
  for s in [&a, &b] {
    util::set_i32(s, opt::SNDHWM, hwm).await;
    util::set_i32(s, opt::RCVHWM, hwm).await;
  }
  let mut dest: Option<Vec<u8>> = None;
  if pair.0 == SocketType::Router {
    a.set_option(opt::ROUTER_MANDATORY, true).await.ok()?;
    b.set_option_raw(opt::ROUTING_ID, b"D1").await.ok()?;
    dest = Some(b"D1".to_vec());
  }
  let ep = util::bind_fresh(&b, Transport::Tcp).await.ok()?;
  a.connect(&ep).await.ok()?;
  tokio::time::sleep(util::scaled(Duration::from_millis(300))).await;
  let run = (rng.next() & 0x7FFF_FFFF) as u32;
  let n = sizes.len() as u32;
  let a2 = a.clone();
  let sizes2 = sizes.to_vec();
  let dest2 = dest.clone();
  let sender = tokio::spawn(async move {
    let mut sent = vec![];
    let mut errs = vec![];
    for seq in 0..n {
      let lens = if seq % 5 == 4 { vec![sizes2[seq as usize].max(HDR), 0, 33] } else { vec![sizes2[seq as usize].max(HDR)] };
      let fr = oracles::build_message(run, 1, seq, u32::MAX, &lens);
      let mut msgs = vec![];
      if let Some(d) = &dest2 {
        msgs.push(util::msg(d.clone(), true));
      }
      let nf = fr.len();
      for (i, f) in fr.into_iter().enumerate() {
        msgs.push(util::msg(f, i + 1 < nf));
      }
      let r = if msgs.len() == 1 { a2.send(msgs.pop().unwrap()).await } else { a2.send_multipart(msgs).await };
      if let Err(e) = &r {
        errs.push(util::err_kind(e));
      }
      sent.push(SentMsg { sender: 1, seq, dest: u32::MAX, frame_lens: lens, status: if r.is_ok() { SendStatus::Accepted } else { SendStatus::Maybe } });
      if r.is_err() {
        break;
      }
      // DEALER egress ordering is a recorded C01 finding on both backends: pace DEALER
      if seq % 4 == 3 {
        tokio::task::yield_now().await;
      }
    }
    (sent, errs)
  });
  let strip = pair.1 == SocketType::Router;
  let mut got: Vec<Vec<Vec<u8>>> = vec![];
  let mut idle = 0;
  while idle < 3 {
    match b.recv_multipart().await {
      Ok(m) => {
        idle = 0;
        let mut v = to_vecs(m);
        if strip && !v.is_empty() {
          v.remove(0);
        }
        got.push(v);
        if slow_reader && got.len() % 16 == 0 {
          tokio::time::sleep(Duration::from_millis(20)).await;
        }
      }
      Err(_) => idle += 1,
    }
  }
  let (sent, errs) = sender.await.ok()?;
  let f = oracles::check_receiver(run, &sent, &got, None, true);
  let obs = StreamObs { accepted: sent.iter().filter(|s| s.status == SendStatus::Accepted).count(), received_ok: f.ok(), findings: f.kinds().join("+"), send_errors: errs };
  let detail = f.to_json();
  let _ = tokio::time::timeout(Duration::from_secs(12), ctx.term()).await;
  Some((obs, detail))
}

/// Hostile peers that keep talking after their bad greeting (the connection is already condemned, its receive may still
/// be armed), several times the size of the provided receive ring - then a healthy pair on the same backend: the ring's
/// buffers must all have been given back, i.e. the healthy pair delivers as on the tokio backend.
async fn chatter_then_healthy(uring: bool, u: &Ucfg) -> Option<usize> {
  let ctx = util::new_ctx();
  let victim = mk(&ctx, SocketType::Pull, uring, u).await;
  util::set_i32(&victim, opt::HANDSHAKE_IVL, 1500).await;
  let vep = util::bind_fresh(&victim, Transport::Tcp).await.ok()?;
  let chunks = (u.bufs * 2).max(8);
  let mut raws = vec![];
  for _ in 0..2 {
    if let Ok(mut r) = vh::rawpeer::RawStream::connect(&vep).await {
      let _ = r.write_all(&[0x13u8; 80]).await;
      for k in 0..chunks {
        tokio::time::sleep(Duration::from_millis(4)).await;
        if r.write_all(&vec![0x40 + (k % 20) as u8; 200]).await.is_err() {
          break;
        }
      }
      raws.push(r);
    }
  }
  tokio::time::sleep(Duration::from_millis(100)).await;
  drop(raws);
  // the healthy pair
  let pull = mk(&ctx, SocketType::Pull, uring, u).await;
  let ep = util::bind_fresh(&pull, Transport::Tcp).await.ok()?;
  let push = mk(&ctx, SocketType::Push, uring, u).await;
  let _ = push.connect(&ep).await;
  tokio::time::sleep(util::scaled(Duration::from_millis(300))).await;
  let p2 = push.clone();
  let sender = tokio::spawn(async move {
    for k in 0..30u32 {
      let mut b = k.to_be_bytes().to_vec();
      b.resize(500, 0x22);
      if p2.send(util::msg(b, false)).await.is_err() {
        break;
      }
    }
  });
  let mut got = 0usize;
  let mut idle = 0;
  while idle < 2 && got < 30 {
    match pull.recv().await {
      Ok(_) => {
        idle = 0;
        got += 1;
      }
      Err(_) => idle += 1,
    }
  }
  sender.abort();
  let _ = tokio::time::timeout(Duration::from_secs(12), ctx.term()).await;
  Some(got)
}

/// Handshake outcome / error kind for a given peer behaviour on one backend.
async fn handshake_scenario(which: &str, uring: bool, u: &Ucfg) -> Option<String> {
  let ctx = util::new_ctx();
  let pull = mk(&ctx, SocketType::Pull, uring, u).await;
  util::set_i32(&pull, opt::HANDSHAKE_IVL, 1500).await;
  util::set_i32(&pull, opt::RCVTIMEO, 600).await;
  if which.starts_with("plain") {
    pull.set_option(opt::PLAIN_SERVER, true).await.ok()?;
    pull.set_option(opt::PLAIN_USERNAME, "user").await.ok()?;
    pull.set_option(opt::PLAIN_PASSWORD, "pass").await.ok()?;
  }
  let mon = pull.monitor(256).await.ok()?;
  let ep = util::bind_fresh(&pull, Transport::Tcp).await.ok()?;
  let mut outcome = String::new();
  match which {
    "compatible" | "incompatible_type" | "plain_ok" | "plain_bad_password" | "plain_vs_null" => {
      let t = if which == "incompatible_type" { SocketType::Pub } else { SocketType::Push };
      let p = mk(&ctx, t, uring, u).await;
      if which == "plain_ok" || which == "plain_bad_password" {
        p.set_option(opt::PLAIN_USERNAME, "user").await.ok()?;
        p.set_option(opt::PLAIN_PASSWORD, if which == "plain_ok" { "pass" } else { "nope" }).await.ok()?;
      }
      let pm = p.monitor(256).await.ok()?;
      let _ = p.connect(&ep).await;
      let srv_ok = util::wait_event(&mon, Duration::from_millis(1200), |e| matches!(e, SocketEvent::HandshakeSucceeded { .. })).await;
      let cli_ok = util::wait_event(&pm, Duration::from_millis(if srv_ok { 1200 } else { 200 }), |e| matches!(e, SocketEvent::HandshakeSucceeded { .. })).await;
      let mut delivered = false;
      if t == SocketType::Push {
        let _ = tokio::time::timeout(Duration::from_millis(500), p.send(util::msg(b"x".to_vec(), false))).await;
        delivered = pull.recv().await.is_ok();
      }
      outcome = format!("listener_handshake={} connector_handshake={} delivered={}", srv_ok, cli_ok, delivered);
    }
    _ => {
      // raw peers
      let mut raw = RawStream::connect(&ep).await.ok()?;
      let bytes = match which {
        "raw_garbage" => vec![0x13u8; 80],
        "raw_v2" => {
          let mut t = refzmtp::greeting_v2(refzmtp::V2_PUSH, b"");
          t.extend(refzmtp::message(&[b"v2-data"]));
          t
        }
        "raw_oversize_frames" => {
          let mut t = refzmtp::null_client_handshake("PUSH", None);
          for i in 0..300u32 {
            refzmtp::encode_frame(&refzmtp::Frame::data(&[i as u8], true), &mut t);
          }
          t
        }
        _ => refzmtp::greeting_v3(0, "NULL", false)[..30].to_vec(), // stalls mid-greeting
      };
      let _ = raw.write_all(&bytes).await;
      let closed = raw.wait_closed(Duration::from_millis(2800)).await.is_some();
      let got = pull.recv().await.map(|m| String::from_utf8_lossy(m.data().unwrap_or(&[])).into_owned()).map_err(|e| util::err_kind(&e));
      outcome = format!("connection_closed_by_rzmq={} recv={:?}", closed, got);
    }
  }
  let _ = tokio::time::timeout(Duration::from_secs(12), ctx.term()).await;
  Some(outcome)
}

/// connect / send / close churn (with RST raw peers in between) on one backend; returns how
/// many cycles delivered their message.
async fn churn_scenario(uring: bool, u: &Ucfg, cycles: usize) -> usize {
  let ctx = util::new_ctx();
  let pull = mk(&ctx, SocketType::Pull, uring, u).await;
  let ep = util::bind_fresh(&pull, Transport::Tcp).await.unwrap();
  let mut delivered = 0usize;
  for i in 0..cycles {
    let p = mk(&ctx, SocketType::Push, uring, u).await;
    if p.connect(&ep).await.is_err() {
      continue;
    }
    let body = format!("churn-{}", i).into_bytes();
    let _ = tokio::time::timeout(Duration::from_secs(2), p.send(util::msg(body.clone(), false))).await;
    if let Ok(m) = pull.recv().await {
      if m.data() == Some(&body[..]) {
        delivered += 1;
      }
    }
    let _ = p.close().await;
    if i % 7 == 0 {
      if let Ok(mut r) = RawStream::connect(&ep).await {
        let _ = r.write_all(&refzmtp::null_client_handshake("PUSH", None)).await;
        r.set_linger0();
      }
    }
  }
  let _ = tokio::time::timeout(Duration::from_secs(15), ctx.term()).await;
  delivered
}

fn main() {
  let args = Args::parse();
  util::install_panic_watch();
  let mut rep = Report::new("C20", &args.shard_name());
  let mut rng = Rng::new(args.seed.wrapping_mul(353868019).wrapping_add(args.shard as u64));
  let u = Ucfg {
    zc: args.get_usize("zc", 0) == 1,
    ms: args.get_usize("ms", 1) == 1,
    cork: args.get_usize("cork", 0) == 1,
    bufs: args.get_usize("bufs", 16),
    bufsize: args.get_usize("bufsize", 65536),
  };
  #[cfg(feature = "uring")]
  {
    let cfg = rzmq::uring::UringConfig {
      default_send_zerocopy: u.zc,
      default_recv_multishot: u.ms,
      default_recv_buffer_count: u.bufs,
      default_recv_buffer_size: u.bufsize,
      default_send_buffer_count: u.bufs,
      default_send_buffer_size: u.bufsize,
      ..Default::default()
    };
    if let Err(e) = rzmq::uring::initialize_uring_backend(cfg) {
      rep.inconclusive(format!("io_uring backend could not be initialised: {e}"));
      rep.emit();
      return;
    }
  }
  #[cfg(not(feature = "uring"))]
  {
    rep.inconclusive("built without the uring feature".to_string());
    rep.emit();
    return;
  }
  let cfgname = format!("zerocopy={} multishot={} cork={} bufs={}x{}", u.zc, u.ms, u.cork, u.bufs, u.bufsize);
  let rt = util::runtime(4);
  // baseline after the backend and one context exist
  let fd0 = rt.block_on(async {
    let c = util::new_ctx();
    let _ = c.term().await;
    tokio::time::sleep(Duration::from_millis(100)).await;
    util::open_fds()
  });
  let pairs = [(SocketType::Push, SocketType::Pull), (SocketType::Dealer, SocketType::Router), (SocketType::Router, SocketType::Dealer)];
  let nscen = if args.thorough() { 14 } else { 5 };
  let t_start = Instant::now();
  for i in 0..nscen {
    let pair = pairs[i % pairs.len()];
    let n = rng.range(20, if args.thorough() { 200 } else { 80 });
    // sizes below / at / above the buffer size and the zero-copy threshold (16 KiB)
    let pool = [HDR, 100, 1000, 16 * 1024 - 1, 16 * 1024, 16 * 1024 + 1, u.bufsize.saturating_sub(9), u.bufsize, u.bufsize + 1, 2 * u.bufsize + 7, 200_000];
    let sizes: Vec<usize> = (0..n).map(|_| if rng.chance(1, 3) { *rng.pick(&pool) } else { rng.range(HDR, 3000) }).collect();
    let hwm = *rng.pick(&[2, 16, 1000]);
    let slow = rng.chance(1, 3);
    let seed = rng.next();
    let mut res: Vec<Option<(StreamObs, Value)>> = vec![];
    for uring in [false, true] {
      let mut r = None;
      util::guarded(&rt, async {
        r = tokio::time::timeout(Duration::from_secs(90), stream_scenario(seed, pair, uring, &u, &sizes, hwm, slow)).await.ok().flatten();
      });
      res.push(r);
    }
    let name = format!("{:?}->{:?} n={} hwm={} slow_reader={}", pair.0, pair.1, n, hwm, slow);
    rep.case(&("stream", &name, seed), true);
    match (&res[0], &res[1]) {
      (Some((t, td)), Some((uo, ud))) => {
        let dealer_sender = pair.0 == SocketType::Dealer;
        // equal observable outcome; for a DEALER sender both backends share the recorded C01 defect, so only integrity kinds are compared
        let same = if dealer_sender { (t.findings.contains("corrupt") || t.findings.contains("duplicated")) == (uo.findings.contains("corrupt") || uo.findings.contains("duplicated")) } else { t == uo };
        if !same {
          rep.violation(
            format!("backend_difference|stream|{}|tokio={}|uring={}", if dealer_sender { "sender=DEALER" } else { "other" }, if t.received_ok { "ok".to_string() } else { t.findings.clone() }, if uo.received_ok { "ok".to_string() } else { uo.findings.clone() }),
            format!("{} [{}]: tokio backend -> accepted {} ok={} ({}); io_uring backend -> accepted {} ok={} ({}), send errors {:?} vs {:?}", name, cfgname, t.accepted, t.received_ok, t.findings, uo.accepted, uo.received_ok, uo.findings, t.send_errors, uo.send_errors),
            json!({"scenario": name, "uring_config": cfgname, "tokio": td, "uring": ud}),
          );
        }
        if !uo.received_ok && !dealer_sender && same {
          rep.note(format!("both backends show {} on {}", uo.findings, name));
        }
      }
      _ => rep.inconclusive(format!("scenario did not finish on one backend: {} [{}]", name, cfgname)),
    }
    if i == 0 {
      rep.sample(json!({"uring_config": cfgname, "scenario": name, "sizes_head": sizes.iter().take(12).collect::<Vec<_>>()}));
    }
  }
  for which in ["compatible", "incompatible_type", "plain_ok", "plain_bad_password", "plain_vs_null", "raw_garbage", "raw_v2", "raw_oversize_frames", "raw_stalled_greeting"] {
    let mut outs: Vec<Option<String>> = vec![];
    for uring in [false, true] {
      let mut r = None;
      util::guarded(&rt, async {
        r = tokio::time::timeout(Duration::from_secs(20), handshake_scenario(which, uring, &u)).await.ok().flatten();
      });
      outs.push(r);
    }
    rep.case(&("handshake", which), true);
    match (&outs[0], &outs[1]) {
      (Some(t), Some(uo)) => {
        if t != uo {
          rep.violation(format!("backend_difference|handshake|{}", which), format!("handshake scenario '{}' [{}]: tokio backend: {} ; io_uring backend: {}", which, cfgname, t, uo), json!({"scenario": which, "tokio": t, "uring": uo, "uring_config": cfgname}));
        }
      }
      _ => rep.inconclusive(format!("handshake scenario {} did not finish on one backend", which)),
    }
  }
  {
    let mut d: [Option<usize>; 2] = [None, None];
    for (k, uring) in [false, true].iter().enumerate() {
      util::guarded(&rt, async {
        d[k] = tokio::time::timeout(util::scaled(Duration::from_secs(60)), chatter_then_healthy(*uring, &u)).await.ok().flatten();
      });
    }
    rep.case(&("chatter_then_healthy", &cfgname), true);
    match (d[0], d[1]) {
      (Some(t), Some(uo)) => {
        if uo < t {
          rep.violation("backend_difference|healthy_pair_starved_after_chatty_hostile_peers".to_string(), format!("[{}] two peers that kept sending {} chunks each after a bad greeting, then a healthy PUSH->PULL pair of 30 messages: the tokio backend delivered {}, the io_uring backend {}", cfgname, (u.bufs * 2).max(8), t, uo), json!({"tokio_delivered": t, "uring_delivered": uo, "uring_config": cfgname}));
        }
      }
      _ => rep.inconclusive(format!("chatter_then_healthy did not finish on one backend [{}]", cfgname)),
    }
  }
  {
    let cycles = if args.thorough() { 200 } else { 40 };
    let mut d = [0usize; 2];
    for (k, uring) in [false, true].iter().enumerate() {
      util::guarded(&rt, async {
        d[k] = tokio::time::timeout(Duration::from_secs(400), churn_scenario(*uring, &u, cycles)).await.unwrap_or(0);
      });
    }
    rep.case(&("churn", cycles), true);
    if d[1] + cycles / 10 < d[0] {
      rep.violation("backend_difference|churn".to_string(), format!("[{}] {} connect-send-close cycles: the tokio backend delivered {} messages, the io_uring backend {}", cfgname, cycles, d[0], d[1]), json!({"cycles": cycles, "tokio_delivered": d[0], "uring_delivered": d[1], "uring_config": cfgname}));
    }
  }
  // quiescence gauges
  rt.block_on(async {
    tokio::time::sleep(util::scaled(Duration::from_millis(800))).await;
  });
  let g = rzmq::verif::gauges();
  let in_use = g.get("uring.send_pool.in_use").copied().unwrap_or(0);
  rep.case(&("gauges", &cfgname), true);
  rep.count(&format!("gauge:uring.send_pool.in_use_at_quiescence={}", in_use), 1);
  if in_use != 0 {
    rep.violation("uring_send_pool_buffers_not_returned".to_string(), format!("[{}] after all traffic stopped and every context was terminated, {} registered send buffer(s) are still marked in use", cfgname, in_use), json!({"uring_config": cfgname, "in_use": in_use}));
  }
  let mut fd1 = util::open_fds();
  let t2 = Instant::now();
  while fd1 > fd0 && t2.elapsed() < util::scaled(Duration::from_secs(4)) {
    std::thread::sleep(Duration::from_millis(100));
    fd1 = util::open_fds();
  }
  if fd1 > fd0 {
    rep.violation("uring_fds_left_open".to_string(), format!("[{}] {} file descriptor(s) more than the baseline are still open after every context was terminated", cfgname, fd1 - fd0), json!({"uring_config": cfgname, "baseline": fd0, "now": fd1}));
  }
  rep.note(format!("[{}] ran {:?}", cfgname, t_start.elapsed()));
  for p in util::take_panics() {
    if p.in_rzmq {
      rep.violation(format!("panic|{}", util::panic_site(&p.location)), format!("panic at {}: {} [{}]", p.location, p.message, cfgname), json!({"frames": p.backtrace_head, "thread": p.thread}));
    } else {
      rep.inconclusive(format!("harness panic at {}: {}", p.location, p.message));
    }
  }
  rep.merge_hooks();
  rep.emit();
}

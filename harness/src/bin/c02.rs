//! C02 — multipart messages stay whole, contiguous and correctly flagged.
//! Everything the receiving application obtains (each recv() frame, each recv_multipart() vector)
//! is flattened into one frame stream per socket, which must be a concatenation of whole sent
//! messages with MORE on all but the last frame.

use rzmq::socket::options as opt;
use rzmq::socket::SocketEvent;
use rzmq::{Socket, SocketType};
use serde_json::json;
use std::collections::HashMap;
use std::time::{Duration, Instant};
use vh::args::Args;
use vh::gen::Rng;
use vh::oracles::{self, SendStatus, SentMsg};
use vh::payload::HDR;
use vh::report::Report;
use vh::util::{self, Transport};

#[derive(Clone, Copy, Debug, PartialEq, Eq, Hash)]
enum Style {
  RecvOnly,
  MultipartOnly,
  Mixed,
}

#[derive(Clone, Copy, Debug, PartialEq, Eq, Hash)]
enum Rx {
  Pull,
  Sub,
  Dealer,
  Router,
  Rep,
  Req,
}

fn shape(rng: &mut Rng) -> Vec<usize> {
  let k = match rng.below(10) {
    0 => 1,
    1..=5 => rng.range(2, 6),
    6 | 7 => rng.range(7, 40),
    8 => rng.range(100, 254),
    _ => *rng.pick(&[254usize, 255]),
  };
  let big = rng.below(k as u64) as usize;
  (0..k).map(|j| if j == big { rng.range(HDR, 400) } else { *rng.pick(&[0usize, 0, 1, 7, 39, 255, 256, 257]) }).collect()
}

/// One frame as the application saw it.
#[derive(Clone, Debug)]
struct Seen {
  data: Vec<u8>,
  more: bool,
  via: char, // 'r' recv, 'm' recv_multipart
}

async fn read_stream(s: &Socket, style: Style, rng: &mut Rng, want_msgs: usize, limit: Duration) -> Vec<Seen> {
  let mut out: Vec<Seen> = vec![];
  let mut complete = 0usize;
  let t0 = Instant::now();
  let mut last = Instant::now();
  while complete < want_msgs && t0.elapsed() < limit && last.elapsed() < Duration::from_secs(3) {
    let use_multi = match style {
      Style::RecvOnly => false,
      Style::MultipartOnly => true,
      Style::Mixed => rng.chance(1, 2),
    };
    if use_multi {
      match s.recv_multipart().await {
        Ok(fr) => {
          last = Instant::now();
          let n = fr.len();
          for (i, f) in fr.into_iter().enumerate() {
            out.push(Seen { data: f.data().unwrap_or(&[]).to_vec(), more: f.is_more(), via: 'm' });
            if i + 1 == n && !out.last().unwrap().more {
              complete += 1;
            }
          }
          if n > 0 && out.last().unwrap().more {
            // recv_multipart returned a vector whose last frame still says MORE: flag problem, but
            // count it as a message end so the reader terminates
            complete += 1;
          }
        }
        Err(_) => {}
      }
    } else {
      match s.recv().await {
        Ok(f) => {
          last = Instant::now();
          let more = f.is_more();
          out.push(Seen { data: f.data().unwrap_or(&[]).to_vec(), more, via: 'r' });
          if !more {
            complete += 1;
          }
        }
        Err(_) => {}
      }
    }
  }
  out
}

/// Split the flat stream at frames without MORE and validate each message.
fn judge_stream(rep: &mut Report, sigctx: &str, ctx: &str, run: u32, sent: &[SentMsg], seen: &[Seen], strip_identity: bool, expect_all: bool) {
  let mut msgs: Vec<Vec<Vec<u8>>> = vec![];
  let mut cur: Vec<Vec<u8>> = vec![];
  let mut vias = String::new();
  for f in seen {
    cur.push(f.data.clone());
    vias.push(f.via);
    if !f.more {
      msgs.push(std::mem::take(&mut cur));
    }
  }
  let dangling = !cur.is_empty();
  if strip_identity {
    for m in msgs.iter_mut() {
      if !m.is_empty() {
        m.remove(0);
      }
    }
  }
  let f = oracles::check_receiver(run, sent, &msgs, None, expect_all);
  let wit = json!({"context": ctx, "findings": f.to_json(), "frames_seen": seen.len(), "messages_parsed": msgs.len(), "call_styles_head": vias.chars().take(60).collect::<String>(), "dangling_more_at_end": dangling});
  if !f.ok() {
    // REQ/REP recv() hands out frame 0 and discards the rest of the message: whatever the
    // oracle then calls it (lost, corrupt, both) is one defect per socket type
    let kinds = if (sigctx.starts_with("rx=Rep") || sigctx.starts_with("rx=Req")) && !sigctx.ends_with("MultipartOnly") && f.duplicated.is_empty() && f.reordered.is_empty() { "frame_by_frame_read_truncates".to_string() } else { f.kinds().join("+") };
    let sigctx = if kinds == "frame_by_frame_read_truncates" { sigctx.split('|').next().unwrap().to_string() } else { sigctx.to_string() };
    let sig = if sigctx.starts_with("frame_by_frame_send_scattered") { sigctx.clone() } else { format!("{}|{}", kinds, sigctx) };
    rep.violation(sig, format!("{}: flattened frame stream is not a concatenation of whole sent messages: {}", ctx, f.kinds().join("+")), wit);
  } else if dangling && expect_all {
    rep.violation(format!("dangling_more|{}", sigctx), format!("{}: stream ends inside a message (last frame has MORE)", ctx), wit);
  }
}

/// Send in a task of its own so that a panic inside rzmq's send path is observed, not fatal.
/// Ok(Ok) accepted, Ok(Err) refused, Err(site) panicked.
async fn safe_send(sock: &Socket, msgs: Vec<rzmq::Msg>, frame_by_frame: bool) -> Result<Result<(), String>, String> {
  let s2 = sock.clone();
  let h = tokio::spawn(async move {
    if frame_by_frame {
      for m in msgs {
        s2.send(m).await?;
      }
      Ok::<(), rzmq::ZmqError>(())
    } else if msgs.len() == 1 {
      let mut msgs = msgs;
      s2.send(msgs.pop().unwrap()).await
    } else {
      s2.send_multipart(msgs).await
    }
  });
  match tokio::time::timeout(Duration::from_secs(10), h).await {
    Ok(Ok(r)) => Ok(r.map_err(|e| format!("{:?}", e))),
    Ok(Err(je)) if je.is_panic() => {
      let ps = util::take_panics();
      Err(ps.first().map(|p| format!("{} ({})", util::panic_site(&p.location), p.message)).unwrap_or_else(|| "panic".into()))
    }
    Ok(Err(_)) => Ok(Err("send task cancelled".into())),
    Err(_) => Ok(Err("send did not return in 10 s".into())),
  }
}

fn note_send_panic(rep: &mut Report, sender: &str, how: &str, nframes: usize, site: &str) {
  rep.violation(format!("send_panics|{}|{}", sender, how), format!("{} {} of a {}-frame message panicked in the caller's task instead of returning an error: {}", sender, how, nframes, site), json!({"frames": nframes, "panic": site}));
}

async fn mk(ctx: &rzmq::Context, t: SocketType) -> Socket {
  let s = ctx.socket(t).unwrap();
  util::set_i32(&s, opt::RCVTIMEO, 300).await;
  util::set_i32(&s, opt::SNDTIMEO, 3000).await;
  util::set_i32(&s, opt::RECONNECT_IVL, 60_000).await;
  s
}

/// Scenario A: n sender peers -> one receiver, call style under test.
async fn styles_case(rep: &mut Report, rng: &mut Rng, rx: Rx, style: Style, tr: Transport, npeers: usize) {
  let ctx = util::new_ctx();
  let run = (rng.next() & 0x7FFF_FFFF) as u32;
  let (rt, st) = match rx {
    Rx::Pull => (SocketType::Pull, SocketType::Push),
    Rx::Sub => (SocketType::Sub, SocketType::Pub),
    Rx::Dealer => (SocketType::Dealer, SocketType::Router),
    Rx::Router => (SocketType::Router, SocketType::Dealer),
    Rx::Rep => (SocketType::Rep, SocketType::Dealer),
    Rx::Req => (SocketType::Req, SocketType::Rep),
  };
  let r = mk(&ctx, rt).await;
  if rx == Rx::Sub {
    r.set_option(opt::SUBSCRIBE, "").await.unwrap();
  }
  if rx == Rx::Dealer {
    r.set_option_raw(opt::ROUTING_ID, b"RXD").await.unwrap();
  }
  let ctxname = format!("{:?} receiver, style {:?}, {} peer(s), {}", rx, style, npeers, tr.name());
  let sigctx = format!("rx={:?}|style={:?}", rx, style);
  let ep = match util::bind_fresh(&r, tr).await {
    Ok(e) => e,
    Err(e) => {
      rep.inconclusive(format!("bind {e}"));
      return;
    }
  };
  let npeers = if matches!(rx, Rx::Req | Rx::Dealer) { 1 } else { npeers };
  let mut senders = vec![];
  for _ in 0..npeers {
    let s = mk(&ctx, st).await;
    if st == SocketType::Router {
      let _ = s.set_option(opt::ROUTER_MANDATORY, true).await;
    }
    if let Err(e) = s.connect(&ep).await {
      rep.inconclusive(format!("connect {e}"));
      return;
    }
    senders.push(s);
  }
  tokio::time::sleep(Duration::from_millis(250)).await;
  let per = rng.range(3, 10) as u32;
  let mut sent: Vec<SentMsg> = vec![];
  let total_expected;
  match rx {
    Rx::Rep | Rx::Req => {
      // lock-step: multipart request (DEALER->REP) or multipart reply (REP->REQ)
      let mut seen: Vec<Seen> = vec![];
      for seq in 0..per {
        let lens = shape(rng);
        let frames = oracles::build_message(run, 1, seq, u32::MAX, &lens);
        let nf = frames.len();
        let msgs: Vec<rzmq::Msg> = frames.iter().enumerate().map(|(i, f)| util::msg(f.clone(), i + 1 < nf)).collect();
        if rx == Rx::Rep {
          // DEALER sends the multipart request, REP reads it with the style under test, replies
          let ok = match safe_send(&senders[0], msgs, false).await {
            Ok(r) => r.is_ok(),
            Err(site) => {
              note_send_panic(rep, "DEALER", "send_multipart", nf, &site);
              continue;
            }
          };
          sent.push(SentMsg { sender: 1, seq, dest: u32::MAX, frame_lens: lens, status: if ok { SendStatus::Accepted } else { SendStatus::Maybe } });
          if !ok {
            continue;
          }
          let got = read_stream(&r, style, rng, 1, Duration::from_secs(3)).await;
          seen.extend(got);
          let _ = r.send(util::msg(b"ok".to_vec(), false)).await;
          let _ = senders[0].recv_multipart().await;
        } else {
          // REQ asks, REP answers with a multipart reply, REQ reads with the style under test
          let _ = r.send(util::msg(b"q".to_vec(), false)).await;
          let _ = senders[0].recv_multipart().await;
          let ok = match safe_send(&senders[0], msgs, false).await {
            Ok(r) => r.is_ok(),
            Err(site) => {
              note_send_panic(rep, "REP", "send_multipart", nf, &site);
              // the REQ is still waiting for a reply: answer with a small one to keep lock-step
              let _ = senders[0].send(util::msg(b"x".to_vec(), false)).await;
              let _ = r.recv_multipart().await;
              continue;
            }
          };
          sent.push(SentMsg { sender: 1, seq, dest: u32::MAX, frame_lens: lens, status: if ok { SendStatus::Accepted } else { SendStatus::Maybe } });
          if !ok {
            continue;
          }
          let got = read_stream(&r, style, rng, 1, Duration::from_secs(3)).await;
          seen.extend(got);
          // if the style left frames unread the REQ is still ExpectingReply or not: drain defensively
        }
      }
      rep.case(&(rx, style, tr, per, sent.iter().map(|s| s.frame_lens.len()).collect::<Vec<_>>()), true);
      judge_stream(rep, &sigctx, &ctxname, run, &sent, &seen, false, true);
      let _ = tokio::time::timeout(Duration::from_secs(12), ctx.term()).await;
      return;
    }
    _ => {
      // concurrent senders
      let mut hs = vec![];
      for (pi, s) in senders.iter().cloned().enumerate() {
        let mut r2 = rng.fork(pi as u64);
        let dest = if st == SocketType::Router { Some(b"RXD".to_vec()) } else { None };
        hs.push(tokio::spawn(async move {
          let mut log = vec![];
          let mut panics: Vec<(usize, bool, String)> = vec![];
          for seq in 0..per {
            let lens = shape(&mut r2);
            let frames = oracles::build_message(run, pi as u32 + 1, seq, u32::MAX, &lens);
            let mut msgs: Vec<rzmq::Msg> = vec![];
            if let Some(d) = &dest {
              msgs.push(util::msg(d.clone(), true));
            }
            let nf = frames.len();
            for (i, f) in frames.into_iter().enumerate() {
              msgs.push(util::msg(f, i + 1 < nf));
            }
            let frame_by_frame = r2.chance(1, 4) && dest.is_none();
            let nfr = msgs.len();
            let ok = match safe_send(&s, msgs, frame_by_frame).await {
              Ok(r) => r.is_ok(),
              Err(site) => {
                panics.push((nfr, frame_by_frame, site));
                false
              }
            };
            log.push(SentMsg { sender: pi as u32 + 1, seq, dest: u32::MAX, frame_lens: lens, status: if ok { SendStatus::Accepted } else { SendStatus::Maybe } });
            // DEALER egress keeps order only in lock-step (recorded under C01): pace DEALER senders
            if st == SocketType::Dealer {
              tokio::time::sleep(Duration::from_millis(15)).await;
            }
          }
          (log, panics)
        }));
      }
      total_expected = per as usize * npeers;
      let seen = read_stream(&r, style, rng, total_expected, Duration::from_secs(20)).await;
      for h in hs {
        if let Ok((l, panics)) = h.await {
          sent.extend(l);
          for (n, fbf, site) in panics {
            note_send_panic(rep, util::socket_type_name(st), if fbf { "send(frame by frame)" } else { "send_multipart" }, n, &site);
          }
        }
      }
      rep.case(&(rx, style, tr, npeers, sent.iter().map(|s| s.frame_lens.len()).collect::<Vec<_>>()), true);
      judge_stream(rep, &sigctx, &ctxname, run, &sent, &seen, rx == Rx::Router, true);
    }
  }
  let _ = tokio::time::timeout(Duration::from_secs(12), ctx.term()).await;
}

/// Scenario B: peer A's message is half read; meanwhile peer B attaches / detaches / is killed.
async fn detach_case(rep: &mut Report, rng: &mut Rng, rx: Rx, event: &str, tr: Transport) {
  let ctx = util::new_ctx();
  let run = (rng.next() & 0x7FFF_FFFF) as u32;
  let (rt, st) = match rx {
    Rx::Pull => (SocketType::Pull, SocketType::Push),
    Rx::Sub => (SocketType::Sub, SocketType::Pub),
    Rx::Dealer => (SocketType::Dealer, SocketType::Dealer),
    _ => (SocketType::Router, SocketType::Dealer),
  };
  let r = mk(&ctx, rt).await;
  if rx == Rx::Sub {
    r.set_option(opt::SUBSCRIBE, "").await.unwrap();
  }
  let mon = r.monitor(256).await.unwrap();
  let ep = util::bind_fresh(&r, tr).await.unwrap();
  // the sender of the half-read message lives in a context of its own, so that it can also be the one that goes away
  let ctx_a = util::new_ctx();
  let a = mk(&ctx_a, st).await;
  a.connect(&ep).await.unwrap();
  let ctx2 = util::new_ctx();
  let b = mk(&ctx2, st).await;
  if event != "attach" {
    b.connect(&ep).await.unwrap();
  }
  tokio::time::sleep(Duration::from_millis(300)).await;
  let lens = vec![HDR + 10, 5, 0, 300, 17, HDR];
  let frames = oracles::build_message(run, 1, 0, u32::MAX, &lens);
  let nf = frames.len();
  let ok = a.send_multipart(frames.iter().enumerate().map(|(i, f)| util::msg(f.clone(), i + 1 < nf)).collect()).await.is_ok();
  let sent = vec![SentMsg { sender: 1, seq: 0, dest: u32::MAX, frame_lens: lens, status: if ok { SendStatus::Accepted } else { SendStatus::Maybe } }];
  let mut seen: Vec<Seen> = vec![];
  // frame 0 (and maybe 1) by recv()
  util::set_i32(&r, opt::RCVTIMEO, 2000).await;
  for _ in 0..rng.range(1, 2) {
    if let Ok(f) = r.recv().await {
      seen.push(Seen { data: f.data().unwrap_or(&[]).to_vec(), more: f.is_more(), via: 'r' });
    }
  }
  // the event on the OTHER peer
  match event {
    "attach" => {
      b.connect(&ep).await.unwrap();
      let _ = util::wait_event(&mon, Duration::from_secs(2), |e| matches!(e, SocketEvent::HandshakeSucceeded { .. } | SocketEvent::Accepted { .. })).await;
    }
    "detach" => {
      let _ = b.close().await;
      let _ = util::wait_event(&mon, Duration::from_secs(3), |e| matches!(e, SocketEvent::Disconnected { .. })).await;
    }
    // the peer that SENT the half-read message goes away (the message itself had arrived whole)
    "self_detach" => {
      let _ = a.close().await;
      let _ = util::wait_event(&mon, Duration::from_secs(3), |e| matches!(e, SocketEvent::Disconnected { .. })).await;
    }
    "self_kill" => {
      let _ = tokio::time::timeout(Duration::from_secs(5), ctx_a.term()).await;
      let _ = util::wait_event(&mon, Duration::from_secs(3), |e| matches!(e, SocketEvent::Disconnected { .. })).await;
    }
    _ => {
      let _ = tokio::time::timeout(Duration::from_secs(5), ctx2.term()).await;
      let _ = util::wait_event(&mon, Duration::from_secs(3), |e| matches!(e, SocketEvent::Disconnected { .. })).await;
    }
  }
  tokio::time::sleep(Duration::from_millis(100)).await;
  util::set_i32(&r, opt::RCVTIMEO, 800).await;
  let style = if rng.chance(1, 2) { Style::RecvOnly } else { Style::Mixed };
  let rest = read_stream(&r, style, rng, 1, Duration::from_secs(3)).await;
  seen.extend(rest);
  rep.case(&("detach", rx, event, tr), true);
  let who = if event.starts_with("self_") { "sending_peer" } else { "other_peer" };
  judge_stream(rep, &format!("rx={:?}|{}_{}_mid_message", rx, who, event.trim_start_matches("self_")), &format!("{:?}: {} {}s while a 6-frame message is half read ({})", rx, if who == "other_peer" { "another peer" } else { "the peer that sent it" }, event.trim_start_matches("self_"), tr.name()), run, &sent, &seen, rt == SocketType::Router, true);
  let _ = tokio::time::timeout(Duration::from_secs(12), ctx.term()).await;
  let _ = tokio::time::timeout(Duration::from_secs(5), ctx2.term()).await;
  let _ = tokio::time::timeout(Duration::from_secs(5), ctx_a.term()).await;
}

/// Scenario C: more frames than supported: Err at the sender or that one connection closes; no
/// panic, nothing truncated, the socket keeps serving another peer.
async fn oversize_case(rep: &mut Report, rng: &mut Rng, st: SocketType, nframes: usize, frame_by_frame: bool) {
  let ctx = util::new_ctx();
  let run = (rng.next() & 0x7FFF_FFFF) as u32;
  let rt = match st {
    SocketType::Push => SocketType::Pull,
    SocketType::Dealer => SocketType::Router,
    SocketType::Pub => SocketType::Sub,
    _ => SocketType::Dealer,
  };
  let r = mk(&ctx, rt).await;
  if rt == SocketType::Sub {
    r.set_option(opt::SUBSCRIBE, "").await.unwrap();
  }
  if rt == SocketType::Dealer {
    r.set_option_raw(opt::ROUTING_ID, b"RXD").await.unwrap();
  }
  let ep = util::bind_fresh(&r, Transport::Tcp).await.unwrap();
  let s = mk(&ctx, st).await;
  s.connect(&ep).await.unwrap();
  let healthy = mk(&ctx, st).await;
  healthy.connect(&ep).await.unwrap();
  tokio::time::sleep(Duration::from_millis(300)).await;
  let mut lens = vec![3usize; nframes];
  lens[0] = HDR;
  let frames = oracles::build_message(run, 1, 0, u32::MAX, &lens);
  let mut msgs: Vec<rzmq::Msg> = vec![];
  if st == SocketType::Router {
    msgs.push(util::msg(b"RXD".to_vec(), true));
  }
  let nf = frames.len();
  for (i, f) in frames.into_iter().enumerate() {
    msgs.push(util::msg(f, i + 1 < nf));
  }
  let sname = util::socket_type_name(st);
  let how = if frame_by_frame { "send() frame by frame" } else { "send_multipart()" };
  let ctxname = format!("{} {} with {} frames", sname, how, nframes);
  let res = safe_send(&s, msgs, frame_by_frame).await;
  rep.case(&("oversize", sname, nframes, frame_by_frame), true);
  let sent = vec![SentMsg { sender: 1, seq: 0, dest: u32::MAX, frame_lens: lens, status: SendStatus::Maybe }];
  match res {
    Err(site) => note_send_panic(rep, sname, if frame_by_frame { "send(frame by frame)" } else { "send_multipart" }, nframes, &site),
    Ok(r_send) => {
      // either refused, or whatever arrives must be whole
      util::set_i32(&r, opt::RCVTIMEO, 500).await;
      let seen = read_stream(&r, Style::MultipartOnly, rng, 1, Duration::from_secs(2)).await;
      if !seen.is_empty() {
        judge_stream(rep, &format!("oversize|{}", sname), &ctxname, run, &sent, &seen, rt == SocketType::Router, false);
      }
      rep.count(if r_send.is_err() { "oversize_refused_at_sender" } else { "oversize_accepted_by_sender" }, 1);
    }
  }
  for p in util::take_panics() {
    if p.in_rzmq {
      rep.violation(format!("oversize_panic_in_background_task|{}", sname), format!("{}: panic at {}: {}", ctxname, p.location, p.message), json!({"frames": p.backtrace_head, "site": util::panic_site(&p.location)}));
    }
  }
  // the socket still serves the healthy peer
  let fr = oracles::build_message(run, 2, 0, u32::MAX, &[HDR, 4]);
  let mut hm: Vec<rzmq::Msg> = vec![];
  if st == SocketType::Router {
    hm.push(util::msg(b"RXD".to_vec(), true));
  }
  hm.push(util::msg(fr[0].clone(), true));
  hm.push(util::msg(fr[1].clone(), false));
  let hs = healthy.send_multipart(hm).await;
  util::set_i32(&r, opt::RCVTIMEO, 2500).await;
  let mut ok = false;
  for _ in 0..4 {
    if let Ok(m) = r.recv_multipart().await {
      let v: Vec<Vec<u8>> = m.into_iter().map(|f| f.data().unwrap_or(&[]).to_vec()).collect();
      if v.iter().any(|f| *f == fr[0]) {
        ok = true;
        break;
      }
    }
  }
  if !ok && rt != SocketType::Dealer {
    rep.violation(format!("socket_dead_after_oversize|{}", sname), format!("after {} the receiving socket no longer served a healthy peer (healthy send: {:?})", ctxname, hs.map_err(|e| e.to_string())), json!({}));
  }
  let _ = tokio::time::timeout(Duration::from_secs(12), ctx.term()).await;
}

/// Scenario D: PUSH/DEALER with several peers sending a multipart message frame by frame
/// (send() with MORE): all frames of one message must reach ONE peer, contiguous.
async fn scatter_case(rep: &mut Report, rng: &mut Rng, st: SocketType, npeers: usize) {
  let ctx = util::new_ctx();
  let run = (rng.next() & 0x7FFF_FFFF) as u32;
  let rt = if st == SocketType::Push { SocketType::Pull } else { SocketType::Dealer };
  let s = mk(&ctx, st).await;
  let ep = util::bind_fresh(&s, Transport::Tcp).await.unwrap();
  let mut rxs = vec![];
  for _ in 0..npeers {
    let r = mk(&ctx, rt).await;
    r.connect(&ep).await.unwrap();
    rxs.push(r);
  }
  tokio::time::sleep(Duration::from_millis(300)).await;
  let mut sent = vec![];
  for seq in 0..6u32 {
    let lens = vec![HDR, 3, 0, 60, HDR + 5];
    let frames = oracles::build_message(run, 1, seq, u32::MAX, &lens);
    let nf = frames.len();
    let msgs: Vec<rzmq::Msg> = frames.into_iter().enumerate().map(|(i, f)| util::msg(f, i + 1 < nf)).collect();
    let ok = matches!(safe_send(&s, msgs, true).await, Ok(Ok(())));
    sent.push(SentMsg { sender: 1, seq, dest: u32::MAX, frame_lens: lens, status: if ok { SendStatus::Accepted } else { SendStatus::Maybe } });
    tokio::time::sleep(Duration::from_millis(20)).await;
  }
  rep.case(&("scatter", util::socket_type_name(st), npeers), true);
  for (i, r) in rxs.iter().enumerate() {
    let seen = read_stream(r, Style::RecvOnly, rng, 6, Duration::from_secs(2)).await;
    judge_stream(rep, &format!("frame_by_frame_send_scattered|tx={}", util::socket_type_name(st)), &format!("{} with {} peers sending frame by frame; receiver {}", util::socket_type_name(st), npeers, i), run, &sent, &seen, false, false);
  }
  let _ = tokio::time::timeout(Duration::from_secs(12), ctx.term()).await;
}

/// (fbmodel) FrameBatch - the container every multipart message travels in (two inline slots, then a 255-slot vector with
/// hand-written unsafe code underneath, plus one unsafe line of its own in iter_mut) - driven through its whole public
/// API by random operation sequences and compared with a plain Vec after every step. Runs natively as a cheap model
/// layer and, in the thorough tier, inside Miri (aliasing model, uninitialised reads, leaks, use-after-free).
fn fbmodel_layer(rep: &mut Report, args: &Args, rng: &mut Rng) {
  use rzmq::{FrameBatch, Msg};
  let histories = args.get_usize("histories", if args.thorough() { 4000 } else { 600 });
  let max_ops = args.get_usize("ops", 60);
  fn mk(tag: u32, more: bool) -> Msg {
    let mut m = Msg::from_vec(tag.to_be_bytes().to_vec());
    if more {
      m.set_flags(rzmq::MsgFlags::MORE);
    }
    m
  }
  fn view(fb: &FrameBatch) -> Vec<(Vec<u8>, bool)> {
    fb.iter().map(|m| (m.data().unwrap_or(&[]).to_vec(), m.is_more())).collect()
  }
  let mut next_tag = 0u32;
  for h in 0..histories {
    let start = rng.range(0, 4);
    let mut model: Vec<(Vec<u8>, bool)> = vec![];
    let mut fb = match start {
      0 => FrameBatch::new(),
      1 => FrameBatch::with_capacity(rng.range(0, 8)),
      2 => FrameBatch::default(),
      _ => {
        let n = *rng.pick(&[0usize, 1, 2, 3, 7, 254, 255]);
        let v: Vec<Msg> = (0..n)
          .map(|_| {
            next_tag += 1;
            model.push((next_tag.to_be_bytes().to_vec(), false));
            mk(next_tag, false)
          })
          .collect();
        FrameBatch::from(v)
      }
    };
    let nops = rng.range(1, max_ops);
    let mut trace: Vec<String> = vec![format!("start={} len={}", start, model.len())];
    let mut bad: Option<String> = None;
    for _ in 0..nops {
      let op = rng.range(0, 13);
      match op {
        0 | 1 | 2 => {
          if model.len() < 255 {
            next_tag += 1;
            let more = rng.chance(1, 2);
            fb.push(mk(next_tag, more));
            model.push((next_tag.to_be_bytes().to_vec(), more));
            trace.push("push".into());
          }
        }
        3 => {
          let a = fb.pop().map(|m| (m.data().unwrap_or(&[]).to_vec(), m.is_more()));
          let b = model.pop();
          trace.push("pop".into());
          if a != b {
            bad = Some(format!("pop returned {:?}, model {:?}", a, b));
          }
        }
        4 => {
          if model.len() < 255 {
            let i = rng.range(0, model.len());
            next_tag += 1;
            fb.insert(i, mk(next_tag, false));
            model.insert(i, (next_tag.to_be_bytes().to_vec(), false));
            trace.push(format!("insert@{}", i));
          }
        }
        5 => {
          if !model.is_empty() {
            let i = rng.range(0, model.len() - 1);
            let m = fb.remove(i);
            let b = model.remove(i);
            trace.push(format!("remove@{}", i));
            if (m.data().unwrap_or(&[]).to_vec(), m.is_more()) != b {
              bad = Some(format!("remove({}) returned another element", i));
            }
          }
        }
        6 => {
          let k = rng.range(0, 4).min(255 - model.len());
          let mut other = FrameBatch::new();
          for _ in 0..k {
            next_tag += 1;
            other.push(mk(next_tag, true));
            model.push((next_tag.to_be_bytes().to_vec(), true));
          }
          fb.extend(other);
          trace.push(format!("extend+{}", k));
        }
        7 => {
          // iter_mut the way every send_multipart() path uses it: one element at a time. (Holding several yielded
          // references at once - `iter_mut().collect()` - is flagged by Miri's Stacked Borrows model, because next()
          // re-borrows the whole batch; no rzmq code path does that and no given property is about it, so it is
          // noted in DESIGN.md and not exercised here.)
          for (i, r) in fb.iter_mut().enumerate() {
            let more = i % 2 == 0;
            r.set_flags(if more { rzmq::MsgFlags::MORE } else { rzmq::MsgFlags::empty() });
            model[i].1 = more;
          }
          trace.push("iter_mut(loop+write)".into());
        }
        8 => {
          if let Some(l) = fb.last_mut() {
            l.set_flags(rzmq::MsgFlags::empty());
            let n = model.len();
            model[n - 1].1 = false;
          }
          trace.push("last_mut".into());
        }
        9 => {
          let c = fb.clone();
          trace.push("clone".into());
          if view(&c) != model {
            bad = Some("clone differs from the original".into());
          }
          if rng.chance(1, 2) {
            fb = c;
          }
        }
        10 => {
          let taken = std::mem::take(&mut fb);
          let v: Vec<Msg> = taken.into_iter().collect();
          trace.push("into_iter->from".into());
          if v.len() != model.len() {
            bad = Some(format!("into_iter yielded {} of {}", v.len(), model.len()));
          }
          fb = FrameBatch::from(v);
        }
        11 => {
          if !model.is_empty() {
            let i = rng.range(0, model.len() - 1);
            let d = fb[i].data().unwrap_or(&[]).to_vec();
            fb[i].set_flags(rzmq::MsgFlags::MORE);
            model[i].1 = true;
            trace.push(format!("index@{}", i));
            if d != model[i].0 {
              bad = Some(format!("index {} holds another element", i));
            }
          }
        }
        _ => {
          // Not judged (outside what C02 states, no rzmq code path depends on it): a batch made by with_capacity(n >= 3)
          // and still empty reports is_empty() == false and first() panics on it; first()/is_empty() are therefore only
          // consulted on non-empty batches.
          trace.push("first/len".into());
          if fb.len() != model.len() || fb.iter().len() != model.len() {
            bad = Some("len()/iter().len() disagree with the model".into());
          } else if !model.is_empty() {
            let f = fb.first().map(|m| m.data().unwrap_or(&[]).to_vec());
            if f != model.first().map(|x| x.0.clone()) || fb.is_empty() {
              bad = Some("first()/is_empty() disagree with the model on a non-empty batch".into());
            }
          }
        }
      }
      if bad.is_none() && view(&fb) != model {
        bad = Some("contents differ from the model".into());
      }
      if bad.is_some() {
        break;
      }
    }
    rep.case(&("fbmodel", h, nops, start), true);
    rep.count("fbmodel_ops", trace.len() as u64 - 1);
    rep.max("max:fbmodel_len", model.len() as u64);
    if let Some(b) = bad {
      let tail: Vec<String> = trace.iter().rev().take(12).rev().cloned().collect();
      rep.violation(format!("framebatch_model_mismatch|{}", tail.last().cloned().unwrap_or_default().split('@').next().unwrap_or("").split('+').next().unwrap_or("")), format!("FrameBatch diverged from a Vec model: {} (last ops {:?})", b, tail), json!({"trace_tail": tail, "len": model.len()}));
    }
  }
  for p in util::take_panics() {
    if p.in_rzmq {
      rep.violation(format!("panic|{}", util::panic_site(&p.location)), format!("panic at {}: {}", p.location, p.message), json!({"frames": p.backtrace_head}));
    } else {
      rep.inconclusive(format!("harness panic at {}: {}", p.location, p.message));
    }
  }
  rep.sample(json!({"layer": "fbmodel", "histories": histories, "ops_per_history": format!("1..{}", max_ops), "ops": ["push", "pop", "insert", "remove", "extend", "iter_mut loop+write", "last_mut", "clone", "into_iter/from", "index/index_mut", "first/len/is_empty"]}));
}

fn main() {
  let args = Args::parse();
  util::install_panic_watch();
  let mut rep = Report::new("C02", &args.shard_name());
  let mut rng = Rng::new(args.seed.wrapping_mul(198491317).wrapping_add(args.shard as u64));
  if args.only.as_deref() == Some("fbmodel") {
    fbmodel_layer(&mut rep, &args, &mut rng);
    rep.emit();
    return;
  }
  let rt = util::runtime(2);
  let mut idx = 0usize;
  let reps = if args.thorough() { 6 } else { 1 };
  for _ in 0..reps {
    for rx in [Rx::Pull, Rx::Sub, Rx::Dealer, Rx::Router, Rx::Rep, Rx::Req] {
      for style in [Style::RecvOnly, Style::MultipartOnly, Style::Mixed] {
        for tr in [Transport::Tcp, Transport::Inproc, Transport::Ipc] {
          if tr == Transport::Inproc && rx == Rx::Rep {
            continue; // DEALER-REP is refused over inproc (recorded under C05)
          }
          if !args.thorough() && tr == Transport::Ipc && style != Style::Mixed {
            continue;
          }
          idx += 1;
          if !args.mine(idx) {
            continue;
          }
          let np = rng.range(1, 3);
          rt.block_on(styles_case(&mut rep, &mut rng, rx, style, tr, np));
        }
      }
    }
    for rx in [Rx::Pull, Rx::Sub, Rx::Dealer, Rx::Router] {
      for ev in ["attach", "detach", "kill", "self_detach", "self_kill"] {
        for tr in [Transport::Tcp, Transport::Ipc] {
          idx += 1;
          if args.mine(idx) {
            rt.block_on(detach_case(&mut rep, &mut rng, rx, ev, tr));
          }
        }
      }
    }
    for (st, np) in [(SocketType::Push, 1usize), (SocketType::Push, 2), (SocketType::Push, 3), (SocketType::Dealer, 2)] {
      idx += 1;
      if args.mine(idx) {
        rt.block_on(scatter_case(&mut rep, &mut rng, st, np));
      }
    }
    for st in [SocketType::Push, SocketType::Dealer, SocketType::Pub, SocketType::Router] {
      for (n, fbf) in [(255usize, false), (256, false), (300, false), (256, true), (300, true)] {
        if st == SocketType::Router && fbf {
          continue;
        }
        idx += 1;
        if args.mine(idx) {
          rt.block_on(oversize_case(&mut rep, &mut rng, st, n, fbf));
        }
      }
    }
  }
  util::cleanup_ipc_dir();
  let _ = HashMap::<u8, u8>::new();
  for p in util::take_panics() {
    if p.in_rzmq {
      rep.violation(format!("panic|{}", util::panic_site(&p.location)), format!("panic at {}: {}", p.location, p.message), json!({"frames": p.backtrace_head}));
    } else {
      rep.inconclusive(format!("harness panic at {}: {}", p.location, p.message));
    }
  }
  rep.sample(json!({"styles": ["recv only", "recv_multipart only", "mixed"], "receivers": ["PULL", "SUB", "DEALER", "ROUTER", "REP", "REQ"], "shapes": "1..255 frames, empty frames anywhere, sizes 0/1/7/39/255/256/257 + one self-describing frame", "events": ["other peer attaches/detaches/is killed mid-message"], "oversize": [255, 256, 300]}));
  rep.merge_hooks();
  rep.emit();
}

//! C04 — what a connection delivers depends on the bytes sent, not on read boundaries.
//! A raw peer plays a transcript (handshake + data messages) against a real rzmq socket under
//! many segmentations; the delivered message sequence must equal the data messages contained in
//! the transcript for every segmentation.

use rzmq::socket::options as opt;
use rzmq::verif::EngineCfg;
use rzmq::{Socket, SocketType};
use serde_json::json;
use std::time::Duration;
use vh::args::Args;
use vh::enginepair::Side;
use vh::gen::{split_at_cuts, Rng};
use vh::rawpeer::{RawListener, RawStream};
use vh::refzmtp;
use vh::report::Report;
use vh::util::{self, Transport};

#[derive(Clone, Copy, Debug, PartialEq, Eq, Hash)]
enum Kind {
  V3Null,
  V3Plain,
  V2,
}

fn data_messages(rng: &mut Rng, n: usize) -> Vec<Vec<Vec<u8>>> {
  (0..n)
    .map(|i| {
      let nf = if rng.chance(1, 3) { rng.range(2, 4) } else { 1 };
      (0..nf)
        .map(|j| {
          let mut f = format!("m{}f{}:", i, j).into_bytes();
          let hi = if rng.chance(1, 5) { 700 } else { 40 };
          f.extend(rng.bytes_in(0, hi));
          f
        })
        .collect()
    })
    .collect()
}

struct Transcript {
  bytes: Vec<u8>,
  hs_end: usize,
  msgs: Vec<Vec<Vec<u8>>>,
}

/// Bytes a raw peer sends to an rzmq socket of type `local` (the peer plays the matching type).
fn transcript(kind: Kind, peer_type: &str, peer_is_server: bool, msgs: Vec<Vec<Vec<u8>>>) -> Transcript {
  let mut t = match kind {
    Kind::V3Null => {
      let mut t = refzmtp::greeting_v3(0, "NULL", peer_is_server);
      refzmtp::encode_frame(&refzmtp::ready(peer_type, None), &mut t);
      t
    }
    Kind::V3Plain => {
      if peer_is_server {
        let mut t = refzmtp::greeting_v3(0, "PLAIN", true);
        refzmtp::encode_frame(&refzmtp::plain_welcome(), &mut t);
        refzmtp::encode_frame(&refzmtp::ready(peer_type, None), &mut t);
        t
      } else {
        refzmtp::plain_client_handshake(peer_type, b"user", b"pass", None)
      }
    }
    Kind::V2 => refzmtp::greeting_v2(refzmtp::v2_code(peer_type).unwrap(), b""),
  };
  let hs_end = t.len();
  for m in &msgs {
    let refs: Vec<&[u8]> = m.iter().map(|f| f.as_slice()).collect();
    t.extend(refzmtp::message(&refs));
  }
  Transcript { bytes: t, hs_end, msgs }
}

async fn configure(s: &Socket, kind: Kind, local_is_server: bool, uring: bool) {
  util::set_i32(s, opt::RCVTIMEO, 1500).await;
  util::set_i32(s, opt::HANDSHAKE_IVL, 3000).await;
  if kind == Kind::V3Plain {
    s.set_option(opt::PLAIN_SERVER, local_is_server).await.unwrap();
    s.set_option(opt::PLAIN_USERNAME, "user").await.unwrap();
    s.set_option(opt::PLAIN_PASSWORD, "pass").await.unwrap();
  }
  if uring {
    s.set_option(opt::IO_URING_SESSION_ENABLED, true).await.expect("io_uring session option");
  }
}

async fn collect(s: &Socket, want: usize, writer_done: &std::sync::atomic::AtomicBool) -> Vec<Vec<Vec<u8>>> {
  let mut got = vec![];
  let t0 = std::time::Instant::now();
  // keep reading until a timeout (RCVTIMEO) once everything expected is in, one extra read
  // checks nothing spurious follows; a timeout only counts once the raw peer has written its whole transcript
  // (byte-at-a-time writes take seconds on a loaded machine)
  loop {
    let fast = got.len() >= want;
    let r = if fast { tokio::time::timeout(Duration::from_millis(150), s.recv_multipart()).await.unwrap_or(Err(rzmq::ZmqError::Timeout)) } else { s.recv_multipart().await };
    match r {
      Ok(m) => got.push(m.into_iter().map(|f| f.data().unwrap_or(&[]).to_vec()).collect()),
      Err(_) if !fast && !writer_done.load(std::sync::atomic::Ordering::SeqCst) && t0.elapsed() < Duration::from_secs(90) => continue,
      Err(_) => break,
    }
    if got.len() > want + 3 {
      break;
    }
  }
  got
}

#[derive(Clone, Debug)]
struct Seg {
  name: String,
  cuts: Vec<usize>,
  pause_ms: u64,
}

fn segmentations(rng: &mut Rng, t: &Transcript, thorough: bool) -> Vec<Seg> {
  let n = t.bytes.len();
  let mut v = vec![Seg { name: "one_write".into(), cuts: vec![], pause_ms: 0 }, Seg { name: "unit_per_write(handshake|data)".into(), cuts: vec![t.hs_end], pause_ms: 30 }];
  let lo = t.hs_end.saturating_sub(12).max(1);
  let hi = (t.hs_end + 12).min(n - 1);
  for c in lo..=hi {
    if thorough || c % 2 == 0 || c == t.hs_end || c + 1 == t.hs_end || c == t.hs_end + 1 {
      v.push(Seg { name: format!("cut@hs_end{:+}", c as i64 - t.hs_end as i64), cuts: vec![c], pause_ms: 25 });
    }
  }
  if n <= 400 {
    v.push(Seg { name: "bytewise".into(), cuts: (1..n).collect(), pause_ms: 1 });
  }
  for i in 0..(if thorough { 12 } else { 3 }) {
    let cuts = rng.cuts_in(n, 1, 6);
    v.push(Seg { name: format!("random{}", i), cuts, pause_ms: 8 });
  }
  v
}

fn peer_type_for(local: SocketType) -> &'static str {
  match local {
    SocketType::Pull => "PUSH",
    SocketType::Router => "DEALER",
    SocketType::Sub => "PUB",
    SocketType::Dealer => "ROUTER",
    _ => "PUSH",
  }
}

/// One scenario: rzmq socket (listener or connector) fed by a raw peer playing `t` under `seg`.
#[allow(clippy::too_many_arguments)]
async fn scenario(rep: &mut Report, kind: Kind, local: SocketType, local_listens: bool, tr: Transport, uring: bool, t: &Transcript, seg: &Seg) {
  let ctx = util::new_ctx();
  let s = ctx.socket(local).unwrap();
  configure(&s, kind, local_listens, uring).await;
  if local == SocketType::Sub {
    s.set_option(opt::SUBSCRIBE, "").await.unwrap();
  }
  let segs = split_at_cuts(&t.bytes, &seg.cuts);
  let pause = Duration::from_millis(seg.pause_ms);
  let mut raw: Option<RawStream> = None;
  let mut lst_keep = None;
  if local_listens {
    let ep = match util::bind_fresh(&s, tr).await {
      Ok(e) => e,
      Err(e) => {
        rep.inconclusive(format!("bind: {e}"));
        return;
      }
    };
    match RawStream::connect(&ep).await {
      Ok(r) => raw = Some(r),
      Err(e) => rep.inconclusive(format!("raw connect: {e}")),
    }
  } else {
    let (lst, ep) = match tr {
      Transport::Tcp => RawListener::bind_tcp().await.unwrap(),
      _ => RawListener::bind_unix(&format!("{}/raw{}", util::ipc_dir(), rep.evaluations)).await.unwrap(),
    };
    let _ = s.connect(&ep).await;
    match tokio::time::timeout(Duration::from_secs(3), lst.accept()).await {
      Ok(Ok(r)) => raw = Some(r),
      _ => rep.inconclusive("rzmq connector never arrived".to_string()),
    }
    lst_keep = Some(lst);
  }
  let Some(mut raw) = raw else {
    let _ = tokio::time::timeout(Duration::from_secs(12), ctx.term()).await;
    return;
  };
  // writer in the background so that reads of rzmq's own handshake bytes do not block us
  let writer_done = std::sync::Arc::new(std::sync::atomic::AtomicBool::new(false));
  let wd = writer_done.clone();
  let w = tokio::spawn(async move {
    let r = raw.write_segments(&segs, pause).await;
    wd.store(true, std::sync::atomic::Ordering::SeqCst);
    // keep the connection open and drain whatever rzmq sends
    let (_b, _eof) = raw.read_for(Duration::from_millis(2500), 0).await;
    drop(raw);
    r.is_ok()
  });
  let mut expected: Vec<Vec<Vec<u8>>> = t.msgs.clone();
  if local == SocketType::Router {
    // ROUTER prefixes the (generated) identity; compare payload frames only
  }
  let mut got = collect(&s, expected.len(), &writer_done).await;
  if local == SocketType::Router {
    for m in got.iter_mut() {
      if !m.is_empty() {
        m.remove(0);
      }
    }
  }
  if local == SocketType::Dealer {
    // DEALER strips nothing here: transcripts for DEALER start with an empty delimiter handled by caller
    for m in expected.iter_mut() {
      let _ = m;
    }
  }
  w.abort();
  let side = if local_listens { "listener" } else { "connector" };
  let backend = if uring { "io_uring" } else { "tokio" };
  let fp = (kind, util::socket_type_name(local), local_listens, tr, uring, &seg.name, t.msgs.len());
  rep.case(&fp, true);
  if got != expected {
    let lost_first = !expected.is_empty() && got.len() < expected.len() && expected.ends_with(&got[..]);
    let kindname = if lost_first { "leading_messages_dropped" } else if got.len() < expected.len() { "messages_missing" } else { "sequence_differs" };
    let coalesced = seg.cuts.iter().all(|c| *c > t.hs_end) || seg.cuts.is_empty();
    rep.violation(
      format!("{}|{:?}|{}|{}|{}", kindname, kind, side, tr.name(), backend),
      format!(
        "rzmq {} {} over {} ({}): transcript {:?} with {} data messages, segmentation '{}' -> delivered {} of {} (first delivered: {:?})",
        util::socket_type_name(local), side, tr.name(), backend, kind, expected.len(), seg.name, got.len(), expected.len(),
        got.first().and_then(|m| m.first()).map(|f| String::from_utf8_lossy(&f[..f.len().min(6)]).into_owned())
      ),
      json!({"kind": format!("{:?}", kind), "segmentation": seg.name, "cuts": seg.cuts.iter().take(16).collect::<Vec<_>>(), "handshake_end": t.hs_end, "transcript_len": t.bytes.len(),
             "expected": expected.len(), "delivered": got.len(), "first_data_shared_a_write_with_handshake": coalesced}),
    );
  }
  drop(lst_keep);
  let _ = tokio::time::timeout(Duration::from_secs(12), ctx.term()).await;
}

/// CURVE / NOISE: the raw peer is driven by a facade engine (server role) that answers the rzmq
/// connector; the harness decides how the produced bytes are cut / coalesced: the final
/// handshake flight (server READY) is written together with the first data records.
async fn brain_scenario(rep: &mut Report, mech: &str, coalesce: bool, rng: &mut Rng) {
  let ctx = util::new_ctx();
  let s = ctx.socket(SocketType::Pull).unwrap();
  util::set_i32(&s, opt::RCVTIMEO, 1500).await;
  let mut k = [0u8; 32];
  k.copy_from_slice(&rng.bytes(32));
  let mut k2 = [0u8; 32];
  k2.copy_from_slice(&rng.bytes(32));
  let brain_cfg;
  if mech == "CURVE" {
    let srv = rzmq::verif::curve_keypair_from(k);
    let cli = rzmq::verif::curve_keypair_from(k2);
    s.set_option_raw(opt::CURVE_SECRET_KEY, &cli.0).await.unwrap();
    s.set_option_raw(opt::CURVE_SERVER_KEY, &srv.1).await.unwrap();
    brain_cfg = EngineCfg::new("PUSH").curve(srv.0, None);
  } else {
    let srv = rzmq::verif::noise_keypair_from(k);
    let cli = rzmq::verif::noise_keypair_from(k2);
    s.set_option(opt::NOISE_XX_ENABLED, true).await.unwrap();
    s.set_option_raw(opt::NOISE_XX_STATIC_SECRET_KEY, &cli.0).await.unwrap();
    s.set_option_raw(opt::NOISE_XX_REMOTE_STATIC_PUBLIC_KEY, &srv.1).await.unwrap();
    brain_cfg = EngineCfg::new("PUSH").noise_xx(srv.0, None);
  }
  let (lst, ep) = RawListener::bind_tcp().await.unwrap();
  let _ = s.connect(&ep).await;
  let Ok(Ok(mut raw)) = tokio::time::timeout(Duration::from_secs(3), lst.accept()).await else {
    rep.inconclusive("connector never arrived".to_string());
    return;
  };
  let msgs = data_messages(rng, 4);
  let msgs2 = msgs.clone();
  let brain_done = std::sync::Arc::new(std::sync::atomic::AtomicBool::new(false));
  let bd = brain_done.clone();
  let brain = tokio::spawn(async move {
    let mut side = Side::new(brain_cfg.engine(true));
    let o = side.eng.start();
    let w = side.absorb(o);
    let _ = raw.write_all(&w).await;
    let mut sent_data = false;
    for _ in 0..200 {
      let (b, eof) = raw.read_for(Duration::from_millis(50), 0).await;
      if !b.is_empty() {
        let mut w = side.feed(&b);
        if side.in_data() && !sent_data {
          // the bytes in `w` end with our READY (final handshake flight)
          let mut data = vec![];
          for m in &msgs2 {
            let mut fb = rzmq::FrameBatch::new();
            for (i, f) in m.iter().enumerate() {
              fb.push(util::msg(f.clone(), i + 1 < m.len()));
            }
            let o = side.eng.on_app_message(fb);
            data.extend(side.absorb(o));
          }
          sent_data = true;
          if coalesce {
            w.extend(data);
            let _ = raw.write_all(&w).await;
          } else {
            let _ = raw.write_all(&w).await;
            tokio::time::sleep(Duration::from_millis(60)).await;
            let _ = raw.write_all(&data).await;
          }
          continue;
        }
        if !w.is_empty() {
          let _ = raw.write_all(&w).await;
        }
      }
      if eof || side.closed() {
        break;
      }
    }
    bd.store(true, std::sync::atomic::Ordering::SeqCst);
    let _ = raw.read_for(Duration::from_millis(1500), 0).await;
    sent_data
  });
  let got = collect(&s, msgs.len(), &brain_done).await;
  brain.abort();
  rep.case(&("brain", mech, coalesce), true);
  if got != msgs {
    rep.violation(
      format!("{}|{}|connector|tcp|tokio", if coalesce { "leading_messages_dropped" } else { "messages_missing" }, mech),
      format!("rzmq PULL connector with {}: server READY {} the first data records -> delivered {} of {}", mech, if coalesce { "written together with" } else { "written 60 ms before" }, got.len(), msgs.len()),
      json!({"mechanism": mech, "coalesced_with_final_handshake_flight": coalesce, "delivered": got.len(), "expected": msgs.len()}),
    );
  }
  drop(lst);
  let _ = tokio::time::timeout(Duration::from_secs(12), ctx.term()).await;
}

fn main() {
  let args = Args::parse();
  util::install_panic_watch();
  let mut rep = Report::new("C04", &args.shard_name());
  let mut rng = Rng::new(args.seed.wrapping_mul(86028121).wrapping_add(args.shard as u64));
  let rt = util::runtime(2);
  let uring = args.extra.get("uring").map(|v| v == "1").unwrap_or(false);
  let mut idx = 0usize;
  let kinds = [Kind::V3Null, Kind::V2, Kind::V3Plain];
  let transports: Vec<Transport> = if uring { vec![Transport::Tcp] } else { vec![Transport::Tcp, Transport::Ipc] };
  for kind in kinds {
    for (local, listens) in [(SocketType::Pull, true), (SocketType::Pull, false), (SocketType::Router, true), (SocketType::Sub, false)] {
      for tr in &transports {
        if !args.thorough() && *tr == Transport::Ipc && (local != SocketType::Pull || kind == Kind::V3Plain) {
          continue;
        }
        if !args.thorough() && local == SocketType::Sub && kind != Kind::V3Null {
          continue;
        }
        let nmsg = rng.range(1, 6);
        let t = transcript(kind, peer_type_for(local), !listens, data_messages(&mut rng, nmsg));
        for seg in segmentations(&mut rng, &t, args.thorough()) {
          idx += 1;
          if !args.mine(idx) {
            continue;
          }
          rt.block_on(scenario(&mut rep, kind, local, listens, *tr, uring, &t, &seg));
        }
        if idx % 5 == 0 {
          rep.sample(json!({"kind": format!("{:?}", kind), "local": util::socket_type_name(local), "listens": listens, "transport": tr.name(), "transcript_len": t.bytes.len(), "handshake_end": t.hs_end, "data_messages": t.msgs.len()}));
        }
      }
    }
  }
  if !uring {
    for mech in ["CURVE", "NOISE_XX"] {
      for coalesce in [true, false] {
        idx += 1;
        if args.mine(idx) {
          rt.block_on(brain_scenario(&mut rep, mech, coalesce, &mut rng));
        }
      }
    }
  }
  util::cleanup_ipc_dir();
  for p in util::take_panics() {
    if p.in_rzmq {
      rep.violation(format!("panic|{}", util::panic_site(&p.location)), format!("panic at {}: {}", p.location, p.message), json!({"frames": p.backtrace_head}));
    } else {
      rep.inconclusive(format!("harness panic at {}: {}", p.location, p.message));
    }
  }
  rep.merge_hooks();
  rep.emit();
}

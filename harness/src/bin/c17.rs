//! C17 — one connection's failure stays local; lost outbound connections come back.
//! (arith) ReconnectState on the full grid; (isolate) faults on other connections while a healthy
//! connection carries sequenced traffic; (inproc) a refused inproc connect must not hurt the
//! binder; (reconnect) attempt spacing seen by a raw listener and traffic resumption.

use rzmq::socket::options as opt;
use rzmq::socket::SocketEvent;
use rzmq::verif::Reconnect;
use rzmq::{Socket, SocketType};
use serde_json::json;
use std::time::{Duration, Instant};
use vh::args::Args;
use vh::gen::Rng;
use vh::oracles::{self, SendStatus, SentMsg};
use vh::payload::HDR;
use vh::rawpeer::{RawListener, RawStream};
use vh::refzmtp::{self, Frame};
use vh::report::Report;
use vh::util::{self, Transport};

fn arith_layer(rep: &mut Report) {
  let ivls = [1u64, 10, 100, 1000];
  for ivl in ivls {
    for max in [0u64, ivl, 250, 60_000] {
      let base = Duration::from_millis(ivl);
      let maxd = Duration::from_millis(max);
      let mut st = Reconnect::new();
      let mut prev: Option<Duration> = None;
      for k in 0..=100u32 {
        let r = std::panic::catch_unwind(std::panic::AssertUnwindSafe(|| st.on_connection_failure(base, maxd)));
        rep.case(&("arith", ivl, max, k), true);
        let d = match r {
          Ok(d) => d,
          Err(_) => {
            rep.violation("backoff_arithmetic_panics".to_string(), format!("on_connection_failure panicked at attempt {} (IVL {} ms, MAX {} ms)", k, ivl, max), json!({}));
            break;
          }
        };
        let wit = json!({"ivl_ms": ivl, "max_ms": max, "attempt": k, "delay_ms": d.as_millis() as u64, "previous_ms": prev.map(|p| p.as_millis() as u64)});
        if k == 0 && d < base.min(if max > 0 { maxd } else { base }) {
          rep.violation("first_delay_below_ivl".to_string(), format!("first retry delay {:?} < RECONNECT_IVL {:?}", d, base), wit.clone());
        }
        if d.is_zero() {
          rep.violation("zero_retry_delay".to_string(), format!("retry delay 0 at attempt {}", k), wit.clone());
        }
        if max > 0 && d > maxd {
          rep.violation("delay_exceeds_ivl_max".to_string(), format!("delay {:?} > RECONNECT_IVL_MAX {:?} at attempt {}", d, maxd, k), wit.clone());
        }
        if let Some(p) = prev {
          if d > p * 2 {
            rep.violation("growth_faster_than_geometric".to_string(), format!("delay grew from {:?} to {:?} at attempt {}", p, d, k), wit.clone());
          }
          if d < p {
            rep.violation("delay_decreased_without_success".to_string(), format!("delay shrank from {:?} to {:?} at attempt {}", p, d, k), wit.clone());
          }
        }
        if st.attempts() != k + 1 {
          rep.violation("attempt_counter_wrong".to_string(), format!("attempts() = {} after {} failures", st.attempts(), k + 1), wit);
        }
        prev = Some(d);
      }
      st.on_connection_success();
      let d = st.on_connection_failure(base, maxd);
      let want = if max > 0 { base.min(maxd) } else { base };
      if d != want {
        rep.violation("not_reset_after_success".to_string(), format!("after a success the first delay is {:?}, expected {:?}", d, want), json!({"ivl_ms": ivl, "max_ms": max}));
      }
    }
  }
  rep.exhaustive_parts.push("ReconnectState: RECONNECT_IVL {1,10,100,1000} ms x RECONNECT_IVL_MAX {0, IVL, 250 ms, 60 s} x attempts 0..100".into());
  rep.sample(json!({"grid": "IVL {1,10,100,1000} ms x MAX {0,IVL,250,60000} ms x attempts 0..100", "checks": ["first >= IVL", "non-zero", "<= MAX when set", "growth <= 2x", "non-decreasing", "reset after success"]}));
}

#[derive(Clone, Copy, Debug, PartialEq, Eq, Hash)]
enum Fault {
  GarbageGreeting,
  GarbageAfterHandshake,
  WrongSocketType,
  WrongCredentials,
  Rst,
  HalfClose,
  OversizedFrame,
  ConnectBurst,
  NullToPlain,
}
const FAULTS: [Fault; 9] = [Fault::GarbageGreeting, Fault::GarbageAfterHandshake, Fault::WrongSocketType, Fault::WrongCredentials, Fault::Rst, Fault::HalfClose, Fault::OversizedFrame, Fault::ConnectBurst, Fault::NullToPlain];

async fn inject(ep: &str, f: Fault, rng: &mut Rng, plain: bool) {
  let hs = if plain { refzmtp::plain_client_handshake("PUSH", b"user", b"pass", None) } else { refzmtp::null_client_handshake("PUSH", None) };
  match f {
    Fault::ConnectBurst => {
      // 400 connects/disconnects as fast as possible (the system event bus holds 256 events)
      for i in 0..400 {
        if let Ok(mut r) = RawStream::connect(ep).await {
          if i % 3 == 0 {
            let _ = r.write_all(&hs[..rng.range(1, hs.len())]).await;
          }
          if i % 5 == 0 {
            r.set_linger0();
          }
        }
      }
    }
    _ => {
      let Ok(mut r) = RawStream::connect(ep).await else { return };
      match f {
        Fault::GarbageGreeting => {
          let _ = r.write_all(&rng.bytes_in(1, 300)).await;
        }
        Fault::GarbageAfterHandshake => {
          let _ = r.write_all(&hs).await;
          tokio::time::sleep(Duration::from_millis(50)).await;
          let _ = r.write_all(&rng.bytes_in(10, 500)).await;
        }
        Fault::WrongSocketType => {
          let mut t = if plain { refzmtp::greeting_v3(0, "PLAIN", false) } else { refzmtp::greeting_v3(0, "NULL", false) };
          if plain {
            refzmtp::encode_frame(&refzmtp::plain_hello(b"user", b"pass"), &mut t);
          }
          refzmtp::encode_frame(&refzmtp::ready("PUB", None), &mut t);
          let _ = r.write_all(&t).await;
        }
        Fault::WrongCredentials => {
          let _ = r.write_all(&refzmtp::plain_client_handshake("PUSH", b"user", b"WRONG", None)).await;
        }
        Fault::NullToPlain => {
          let _ = r.write_all(&refzmtp::null_client_handshake("PUSH", None)).await;
        }
        Fault::Rst => {
          let _ = r.write_all(&hs).await;
          let _ = r.write_all(&refzmtp::message(&[b"partial"])[..4]).await;
          r.set_linger0();
        }
        Fault::HalfClose => {
          let _ = r.write_all(&hs).await;
          r.shutdown_write().await;
          let _ = r.read_for(Duration::from_millis(200), 0).await;
        }
        Fault::OversizedFrame => {
          let mut t = hs.clone();
          refzmtp::encode_frame(&Frame::data(&vec![7u8; 100_000], false), &mut t);
          let _ = r.write_all(&t).await;
        }
        Fault::ConnectBurst => {}
      }
      tokio::time::sleep(Duration::from_millis(100)).await;
    }
  }
}

/// A bound PULL (optionally PLAIN) with one healthy PUSH carrying sequenced traffic while faults
/// hit 1..3 other connections.
async fn isolate_case(rep: &mut Report, rng: &mut Rng, tr: Transport, faults: &[Fault], plain: bool) {
  let ctx = util::new_ctx();
  let pull = ctx.socket(SocketType::Pull).unwrap();
  util::set_maxmsgsize(&pull, 50_000).await;
  util::set_i32(&pull, opt::RCVTIMEO, 400).await;
  util::set_i32(&pull, opt::HANDSHAKE_IVL, 1000).await;
  let push = ctx.socket(SocketType::Push).unwrap();
  util::set_i32(&push, opt::SNDTIMEO, 3000).await;
  util::set_i32(&push, opt::RECONNECT_IVL, 60_000).await;
  if plain {
    pull.set_option(opt::PLAIN_SERVER, true).await.unwrap();
    pull.set_option(opt::PLAIN_USERNAME, "user").await.unwrap();
    pull.set_option(opt::PLAIN_PASSWORD, "pass").await.unwrap();
    push.set_option(opt::PLAIN_SERVER, false).await.unwrap();
    push.set_option(opt::PLAIN_USERNAME, "user").await.unwrap();
    push.set_option(opt::PLAIN_PASSWORD, "pass").await.unwrap();
  }
  let mon = pull.monitor(2048).await.unwrap();
  let ep = match util::bind_fresh(&pull, tr).await {
    Ok(e) => e,
    Err(e) => {
      rep.inconclusive(format!("bind {e}"));
      return;
    }
  };
  push.connect(&ep).await.unwrap();
  tokio::time::sleep(Duration::from_millis(300)).await;
  let run = (rng.next() & 0x7FFF_FFFF) as u32;
  let total = 300u32;
  let push2 = push.clone();
  let sender = tokio::spawn(async move {
    let mut sent = vec![];
    for seq in 0..total {
      let lens = vec![HDR + (seq as usize * 13) % 500];
      let fr = oracles::build_message(run, 1, seq, u32::MAX, &lens);
      let r = push2.send(util::msg(fr[0].clone(), false)).await;
      sent.push(SentMsg { sender: 1, seq, dest: u32::MAX, frame_lens: lens, status: if r.is_ok() { SendStatus::Accepted } else { SendStatus::Maybe } });
      if r.is_err() {
        break;
      }
      tokio::time::sleep(Duration::from_millis(2)).await;
    }
    sent
  });
  let pull2 = pull.clone();
  let reader = tokio::spawn(async move {
    let mut got: Vec<Vec<Vec<u8>>> = vec![];
    let mut idle = 0;
    let mut errs: Vec<String> = vec![];
    loop {
      match pull2.recv_multipart().await {
        Ok(m) => {
          idle = 0;
          got.push(m.into_iter().map(|f| f.data().unwrap_or(&[]).to_vec()).collect());
        }
        Err(rzmq::ZmqError::Timeout) | Err(rzmq::ZmqError::ResourceLimitReached) => {
          idle += 1;
          if idle > 8 {
            break;
          }
        }
        Err(e) => {
          errs.push(format!("{:?}", e));
          idle += 1;
          if idle > 8 {
            break;
          }
          tokio::time::sleep(Duration::from_millis(50)).await;
        }
      }
    }
    (got, errs)
  });
  // faults while traffic flows
  tokio::time::sleep(Duration::from_millis(60)).await;
  for f in faults {
    if tr == Transport::Inproc {
      break;
    }
    inject(&ep, *f, rng, plain).await;
  }
  let sent = sender.await.unwrap_or_default();
  let (got, recv_errs) = reader.await.unwrap_or_default();
  let fnames: Vec<String> = faults.iter().map(|f| format!("{:?}", f)).collect();
  rep.case(&("isolate", tr, &fnames, plain), true);
  let cfg = format!("PULL{} over {} with faults {:?} on other connections", if plain { "(PLAIN)" } else { "" }, tr.name(), fnames);
  let healthy_disconnected = {
    let mut d = false;
    while let Ok(Ok(ev)) = tokio::time::timeout(Duration::from_millis(5), mon.recv()).await {
      if let SocketEvent::Disconnected { .. } = ev {
        d = true; // some connection went away - expected for the faulty ones
      }
    }
    d
  };
  let _ = healthy_disconnected;
  let f = oracles::check_receiver(run, &sent, &got, None, true);
  for fl in faults {
    if !f.ok() || !recv_errs.is_empty() {
      // attribute to each fault of the scenario (usually one)
      let kind = if !recv_errs.is_empty() && recv_errs.iter().any(|e| e.contains("InvalidState") || e.contains("clos")) { "socket_shut_down".to_string() } else { f.kinds().join("+") };
      // a socket that shut itself down in a scenario containing the connection burst: that is the burst's doing (event-bus lag)
      if kind == "socket_shut_down" && faults.contains(&Fault::ConnectBurst) && *fl != Fault::ConnectBurst {
        continue;
      }
      rep.violation(format!("healthy_connection_disturbed|{}|fault={:?}", kind, fl), format!("{}: the healthy PUSH->PULL stream: {} (recv errors: {:?})", cfg, f.kinds().join("+"), recv_errs.iter().take(3).collect::<Vec<_>>()), json!({"config": cfg, "findings": f.to_json(), "recv_errors": recv_errs}));
    }
  }
  // socket still usable: API probe + listener still accepts a new honest peer
  let probe = tokio::time::timeout(Duration::from_secs(2), pull.get_option(opt::RCVHWM)).await;
  if !matches!(probe, Ok(Ok(_))) {
    rep.violation(format!("socket_api_broken_after_fault|fault={:?}", if faults.contains(&Fault::ConnectBurst) { Fault::ConnectBurst } else { faults[0] }), format!("{}: get_option on the owning socket: {:?}", cfg, probe.map(|r| r.map(|_| ()).map_err(|e| e.to_string()))), json!({"config": cfg}));
  }
  let late = ctx.socket(SocketType::Push).unwrap();
  util::set_i32(&late, opt::SNDTIMEO, 2000).await;
  if plain {
    late.set_option(opt::PLAIN_USERNAME, "user").await.unwrap();
    late.set_option(opt::PLAIN_PASSWORD, "pass").await.unwrap();
  }
  let _ = late.connect(&ep).await;
  let fr = oracles::build_message(run, 9, 0, u32::MAX, &[HDR + 1]);
  let _ = late.send(util::msg(fr[0].clone(), false)).await;
  util::set_i32(&pull, opt::RCVTIMEO, 3000).await;
  let mut ok = false;
  for _ in 0..3 {
    if let Ok(m) = pull.recv().await {
      if m.data() == Some(&fr[0][..]) {
        ok = true;
        break;
      }
    }
  }
  if !ok {
    rep.violation(format!("listener_stopped_accepting|fault={:?}", if faults.contains(&Fault::ConnectBurst) { Fault::ConnectBurst } else { faults[0] }), format!("{}: a new honest peer connecting afterwards was not served", cfg), json!({"config": cfg}));
  }
  let _ = tokio::time::timeout(Duration::from_secs(12), ctx.term()).await;
}

/// inproc: a connector of an incompatible type (refused) must not shut the binder down.
async fn inproc_refusal_case(rep: &mut Report, binder_t: SocketType, bad_t: SocketType, good_t: SocketType) {
  let ctx = util::new_ctx();
  let b = ctx.socket(binder_t).unwrap();
  util::set_i32(&b, opt::RCVTIMEO, 1500).await;
  let ep = util::bind_fresh(&b, Transport::Inproc).await.unwrap();
  let bad = ctx.socket(bad_t).unwrap();
  let r = bad.connect(&ep).await;
  tokio::time::sleep(Duration::from_millis(100)).await;
  rep.case(&("inproc_refusal", util::socket_type_name(binder_t), util::socket_type_name(bad_t)), true);
  let names = format!("{} bound on inproc, {} connects (refused: {})", util::socket_type_name(binder_t), util::socket_type_name(bad_t), r.is_err());
  // binder must still work with a compatible peer
  let good = ctx.socket(good_t).unwrap();
  util::set_i32(&good, opt::SNDTIMEO, 1500).await;
  let c = good.connect(&ep).await;
  let mut delivered = false;
  if c.is_ok() {
    if binder_t == SocketType::Pull {
      let _ = good.send(util::msg(b"still-alive".to_vec(), false)).await;
      delivered = matches!(b.recv().await, Ok(m) if m.data() == Some(b"still-alive"));
    } else {
      delivered = true;
    }
  }
  let probe = b.get_option(opt::RCVHWM).await;
  if c.is_err() || !delivered || probe.is_err() {
    rep.violation(
      "inproc_refused_connect_kills_binder".to_string(),
      format!("{}: afterwards a compatible {} could not use the binder (connect {:?}, delivered {}, binder get_option {:?})", names, util::socket_type_name(good_t), c.map_err(|e| e.to_string()), delivered, probe.map(|_| ()).map_err(|e| e.to_string())),
      json!({"binder": util::socket_type_name(binder_t), "refused_connector": util::socket_type_name(bad_t)}),
    );
  }
  let _ = tokio::time::timeout(Duration::from_secs(12), ctx.term()).await;
}

/// Reconnect spacing as seen by a raw listener that accepts and immediately drops, then traffic
/// resumption once a real peer listens on the same port.
async fn reconnect_case(rep: &mut Report, ivl: u64, max: u64, tr: Transport) {
  let ctx = util::new_ctx();
  let push = ctx.socket(SocketType::Push).unwrap();
  util::set_i32(&push, opt::RECONNECT_IVL, ivl as i32).await;
  util::set_i32(&push, opt::RECONNECT_IVL_MAX, max as i32).await;
  util::set_i32(&push, opt::SNDTIMEO, 8000 * util::slow_factor() as i32).await;
  let ipc_path = format!("{}/reconnect-{}-{}", util::ipc_dir(), ivl, max);
  let (lst, ep) = if tr == Transport::Ipc { RawListener::bind_unix(&ipc_path).await.unwrap() } else { RawListener::bind_tcp().await.unwrap() };
  let port = util::tcp_port_of(&ep);
  let _ = push.connect(&ep).await;
  // phase 1: accept-and-drop; timestamps of the arrivals
  let mut stamps: Vec<Instant> = vec![];
  let t0 = Instant::now();
  let observe = util::scaled(Duration::from_millis((ivl * 40).clamp(2500, 7000)));
  while t0.elapsed() < observe && stamps.len() < 9 {
    match tokio::time::timeout(observe.saturating_sub(t0.elapsed()), lst.accept()).await {
      Ok(Ok(r)) => {
        stamps.push(Instant::now());
        r.set_linger0();
        drop(r);
      }
      _ => break,
    }
  }
  rep.case(&("reconnect", ivl, max, tr), true);
  let gaps: Vec<Duration> = stamps.windows(2).map(|w| w[1] - w[0]).collect();
  let cfg = format!("{} RECONNECT_IVL={}ms RECONNECT_IVL_MAX={}ms", tr.name(), ivl, max);
  let gaps_ms: Vec<u64> = gaps.iter().map(|g| g.as_millis() as u64).collect();
  rep.note(format!("{} -> attempt gaps {:?} ms", cfg, gaps_ms));
  let slack = Duration::from_millis(350); // the passive reconnect runs on a 100 ms maintenance tick
  if gaps.is_empty() {
    rep.violation(format!("no_reconnect_attempt_seen|{}", tr.name()), format!("{}: the connection was dropped by the peer but no new connect attempt arrived within {:?}", cfg, observe), json!({"config": cfg}));
  }
  for (k, g) in gaps.iter().enumerate() {
    let wit = json!({"config": cfg, "gaps_ms": gaps_ms, "index": k});
    if *g + Duration::from_millis(20) < Duration::from_millis(ivl).min(if max > 0 { Duration::from_millis(max) } else { Duration::from_millis(ivl) }) {
      rep.violation("reconnect_sooner_than_ivl".to_string(), format!("{}: gap {} is {:?}, shorter than RECONNECT_IVL", cfg, k, g), wit.clone());
    }
    if max > 0 && *g > Duration::from_millis(max) + slack {
      rep.violation("reconnect_gap_exceeds_ivl_max".to_string(), format!("{}: gap {} is {:?}", cfg, k, g), wit.clone());
    }
    if k > 0 && *g > gaps[k - 1] * 2 + slack {
      rep.violation("reconnect_gap_grows_faster_than_geometric".to_string(), format!("{}: gap {} is {:?} after {:?}", cfg, k, g, gaps[k - 1]), wit);
    }
  }
  // phase 2: the listener is gone for a moment, then a real PULL binds the same port
  drop(lst);
  tokio::time::sleep(Duration::from_millis(300)).await;
  let rctx = util::new_ctx();
  let pull = rctx.socket(SocketType::Pull).unwrap();
  util::set_i32(&pull, opt::RCVTIMEO, 8000 * util::slow_factor() as i32).await;
  let mut bound = false;
  let rebind_ep = if tr == Transport::Ipc { format!("ipc://{}", ipc_path) } else { format!("tcp://127.0.0.1:{}", port) };
  for _ in 0..20 {
    if pull.bind(&rebind_ep).await.is_ok() {
      bound = true;
      break;
    }
    tokio::time::sleep(Duration::from_millis(100)).await;
  }
  if !bound {
    rep.inconclusive("could not re-bind the port for the resumption phase".to_string());
  } else {
    let t1 = Instant::now();
    let s = push.send(util::msg(b"resumed".to_vec(), false)).await;
    let r = pull.recv().await;
    let bound_ms = (if max > 0 { max } else { ivl * 64 }).max(ivl) * 2 + 3000 * util::slow_factor() as u64;
    if !matches!(&r, Ok(m) if m.data() == Some(b"resumed")) || t1.elapsed() > Duration::from_millis(bound_ms) {
      rep.violation(format!("traffic_did_not_resume_after_listener_came_back|{}", tr.name()), format!("{}: once a PULL listened on the port again: send {:?}, recv {:?} after {:?}", cfg, s.map_err(|e| e.to_string()), r.map(|m| m.size()).map_err(|e| e.to_string()), t1.elapsed()), json!({"config": cfg}));
    }
  }
  let _ = tokio::time::timeout(Duration::from_secs(12), ctx.term()).await;
  let _ = tokio::time::timeout(Duration::from_secs(12), rctx.term()).await;
}

/// (refused) nobody listens on the target: every connect() is refused at once and the connecter's own retry loop paces
/// the attempts (a different piece of code from the one that reschedules after an established connection was lost).
/// Observed at the monitor: the interval each ConnectRetried event announces, and the wall-clock gaps between those
/// events; afterwards a real PULL binds the port and traffic must flow.
async fn refused_case(rep: &mut Report, ivl: u64, max: u64) {
  let ctx = util::new_ctx();
  let push = ctx.socket(SocketType::Push).unwrap();
  util::set_i32(&push, opt::RECONNECT_IVL, ivl as i32).await;
  util::set_i32(&push, opt::RECONNECT_IVL_MAX, max as i32).await;
  util::set_i32(&push, opt::SNDTIMEO, 8000).await;
  let mon = push.monitor(1024).await.unwrap();
  // a port outside the ephemeral range on which nothing listens
  let mut port = 0u16;
  for k in 0..50u32 {
    let p = 30_000 + ((std::process::id() * 53 + k * 211 + (ivl as u32) * 7 + max as u32) % 2_700) as u16;
    if tokio::net::TcpStream::connect(("127.0.0.1", p)).await.is_err() {
      port = p;
      break;
    }
  }
  if port == 0 {
    rep.inconclusive("no dead tcp port found".to_string());
    return;
  }
  let ep = format!("tcp://127.0.0.1:{}", port);
  let _ = push.connect(&ep).await;
  let observe = Duration::from_millis(if max > 0 { max * 5 + ivl * 4 } else { ivl * 12 }.clamp(2500, 9000));
  let t0 = Instant::now();
  let mut announced: Vec<u64> = vec![];
  let mut stamps: Vec<Instant> = vec![];
  while t0.elapsed() < observe && stamps.len() < 12 {
    match tokio::time::timeout(observe.saturating_sub(t0.elapsed()), mon.recv()).await {
      Ok(Ok(SocketEvent::ConnectRetried { interval, .. })) => {
        announced.push(interval.as_millis() as u64);
        stamps.push(Instant::now());
      }
      Ok(Ok(_)) => {}
      _ => break,
    }
  }
  rep.case(&("refused", ivl, max), true);
  let cfg = format!("RECONNECT_IVL={}ms RECONNECT_IVL_MAX={}ms, target refuses connections", ivl, max);
  let gaps_ms: Vec<u64> = stamps.windows(2).map(|w| (w[1] - w[0]).as_millis() as u64).collect();
  rep.note(format!("{} -> announced intervals {:?} ms, gaps between retries {:?} ms", cfg, announced, gaps_ms));
  rep.count("refused_retries_observed", stamps.len() as u64);
  let wit = json!({"config": cfg, "announced_ms": announced, "gaps_ms": gaps_ms});
  if stamps.len() < 3 {
    rep.violation("no_retry_seen_while_refused".to_string(), format!("{}: only {} ConnectRetried event(s) within {:?}", cfg, stamps.len(), observe), wit.clone());
  }
  let slack = 150u64; // no maintenance tick on this path: sleep(delay) then connect, refused at once
  for (k, a) in announced.iter().enumerate() {
    if max > 0 && max >= ivl && *a > max {
      rep.violation("announced_retry_interval_exceeds_ivl_max".to_string(), format!("{}: retry {} announces an interval of {} ms", cfg, k, a), wit.clone());
      break;
    }
    if *a + 1 < ivl.min(if max > 0 { max } else { ivl }) {
      rep.violation("announced_retry_interval_below_ivl".to_string(), format!("{}: retry {} announces an interval of {} ms", cfg, k, a), wit.clone());
      break;
    }
  }
  for (k, g) in gaps_ms.iter().enumerate() {
    if max > 0 && max >= ivl && *g > max + slack {
      rep.violation("refused_retry_gap_exceeds_ivl_max".to_string(), format!("{}: gap {} between retries is {} ms", cfg, k, g), wit.clone());
      break;
    }
    if *g + 20 < ivl.min(if max > 0 { max } else { ivl }) {
      rep.violation("refused_retry_sooner_than_ivl".to_string(), format!("{}: gap {} between retries is {} ms", cfg, k, g), wit.clone());
      break;
    }
    if k > 0 && *g > gaps_ms[k - 1] * 2 + slack {
      rep.violation("refused_retry_gap_grows_faster_than_geometric".to_string(), format!("{}: gap {} is {} ms after {} ms", cfg, k, g, gaps_ms[k - 1]), wit.clone());
      break;
    }
    if max == 0 && *g > ivl + slack {
      rep.violation("refused_retry_gap_grows_without_ivl_max".to_string(), format!("{}: gap {} is {} ms although RECONNECT_IVL_MAX=0 means a constant interval", cfg, k, g), wit.clone());
      break;
    }
  }
  // the listener appears: traffic must start within max(ivl, max) + slack
  let rctx = util::new_ctx();
  let pull = rctx.socket(SocketType::Pull).unwrap();
  util::set_i32(&pull, opt::RCVTIMEO, 8000).await;
  if pull.bind(&ep).await.is_err() {
    rep.inconclusive("could not bind the dead port for the resumption phase".to_string());
  } else {
    let t1 = Instant::now();
    let s = push.send(util::msg(b"first".to_vec(), false)).await;
    let r = pull.recv().await;
    let bound_ms = (if max > 0 { max.max(ivl) } else { ivl }) * 2 + 2000;
    if !matches!(&r, Ok(m) if m.data() == Some(b"first")) || t1.elapsed() > Duration::from_millis(bound_ms) {
      rep.violation("traffic_did_not_start_after_listener_appeared".to_string(), format!("{}: once a PULL listened on the port: send {:?}, recv {:?} after {:?}", cfg, s.map_err(|e| e.to_string()), r.map(|m| m.size()).map_err(|e| e.to_string()), t1.elapsed()), json!({"config": cfg}));
    }
  }
  let _ = tokio::time::timeout(Duration::from_secs(12), ctx.term()).await;
  let _ = tokio::time::timeout(Duration::from_secs(12), rctx.term()).await;
}

/// (churn) "a socket is never shut down by what some other socket did": a bound PULL with a healthy PUSH peer (from
/// another context) carrying sequenced traffic, while OTHER sockets of the PULL's own context are created, bound (or
/// connected to a dead port) and closed in a tight loop for `secs` seconds - nothing is ever done to the PULL itself,
/// apart from harmless get_option() calls at the given pace. Afterwards the PULL's API must still answer, its healthy
/// connection must not have been dropped, the stream must be complete, and its listener must serve a new peer.
async fn churn_case(rep: &mut Report, rng: &mut Rng, tr: Transport, kind: &'static str, api_gap_us: u64, secs: u64, pace_ms: u64) {
  let ctx = util::new_ctx();
  let peer_ctx = util::new_ctx();
  let pull = ctx.socket(SocketType::Pull).unwrap();
  util::set_i32(&pull, opt::RCVTIMEO, 400).await;
  let push = peer_ctx.socket(SocketType::Push).unwrap();
  util::set_i32(&push, opt::SNDTIMEO, 3000).await;
  util::set_i32(&push, opt::RECONNECT_IVL, 60_000).await;
  let push_mon = push.monitor(1024).await.unwrap();
  let ep = match util::bind_fresh(&pull, tr).await {
    Ok(e) => e,
    Err(e) => {
      rep.inconclusive(format!("bind {e}"));
      return;
    }
  };
  push.connect(&ep).await.unwrap();
  tokio::time::sleep(Duration::from_millis(300)).await;
  let run = (rng.next() & 0x7FFF_FFFF) as u32;
  let stop = std::sync::Arc::new(std::sync::atomic::AtomicBool::new(false));
  // healthy traffic
  let push2 = push.clone();
  let stop_s = stop.clone();
  let sender = tokio::spawn(async move {
    let mut sent = vec![];
    let mut seq = 0u32;
    while !stop_s.load(std::sync::atomic::Ordering::SeqCst) {
      let lens = vec![HDR + (seq as usize * 13) % 300];
      let fr = oracles::build_message(run, 1, seq, u32::MAX, &lens);
      let r = push2.send(util::msg(fr[0].clone(), false)).await;
      sent.push(SentMsg { sender: 1, seq, dest: u32::MAX, frame_lens: lens, status: if r.is_ok() { SendStatus::Accepted } else { SendStatus::Maybe } });
      if r.is_err() {
        break;
      }
      seq += 1;
      tokio::time::sleep(Duration::from_millis(3)).await;
    }
    sent
  });
  let pull2 = pull.clone();
  let stop_r = stop.clone();
  let reader = tokio::spawn(async move {
    let mut got: Vec<Vec<Vec<u8>>> = vec![];
    let mut idle = 0;
    let mut errs: Vec<String> = vec![];
    loop {
      match pull2.recv_multipart().await {
        Ok(m) => {
          idle = 0;
          got.push(m.into_iter().map(|f| f.data().unwrap_or(&[]).to_vec()).collect());
        }
        Err(rzmq::ZmqError::Timeout) | Err(rzmq::ZmqError::ResourceLimitReached) => {
          if stop_r.load(std::sync::atomic::Ordering::SeqCst) {
            idle += 1;
          }
          if idle > 4 {
            break;
          }
        }
        Err(e) => {
          if errs.len() < 4 {
            errs.push(util::err_kind(&e));
          }
          idle += 1;
          if idle > 4 {
            break;
          }
          tokio::time::sleep(Duration::from_millis(100)).await;
        }
      }
    }
    (got, errs)
  });
  // harmless API calls on the victim
  let pull3 = pull.clone();
  let stop_a = stop.clone();
  let api = tokio::spawn(async move {
    let mut calls = 0u64;
    let mut failures: Vec<String> = vec![];
    while !stop_a.load(std::sync::atomic::Ordering::SeqCst) {
      calls += 1;
      if let Err(e) = pull3.get_option(opt::RCVHWM).await {
        if failures.len() < 4 {
          failures.push(format!("call {}: {:?}", calls, e));
        }
        if failures.len() >= 4 {
          break;
        }
      }
      if api_gap_us > 0 {
        tokio::time::sleep(Duration::from_micros(api_gap_us)).await;
      } else {
        tokio::task::yield_now().await;
      }
    }
    (calls, failures)
  });
  // the churn: other sockets of the same context come and go
  // back-to-back churn comes from three tasks at once (an application that opens a socket per request on several tasks)
  let mut extra_churn = vec![];
  for _ in 0..(if pace_ms == 0 { 2 } else { 0 }) {
    let c3 = ctx.clone();
    let stop_e = stop.clone();
    extra_churn.push(tokio::spawn(async move {
      while !stop_e.load(std::sync::atomic::Ordering::SeqCst) {
        let mut v = vec![];
        for _ in 0..4 {
          if let Ok(x) = c3.socket(SocketType::Pull) {
            if kind == "bind_close" {
              let _ = x.bind("tcp://127.0.0.1:0").await;
            }
            v.push(x);
          }
        }
        for x in v {
          let _ = x.close().await;
        }
      }
    }));
  }
  let c2 = ctx.clone();
  let stop_c = stop.clone();
  let churn = tokio::spawn(async move {
    let mut cycles = 0u64;
    while !stop_c.load(std::sync::atomic::Ordering::SeqCst) {
      let mut v = vec![];
      for k in 0..4 {
        if let Ok(x) = c2.socket(if k % 2 == 0 { SocketType::Pull } else { SocketType::Dealer }) {
          match kind {
            "bind_close" => {
              let _ = x.bind("tcp://127.0.0.1:0").await;
            }
            "connect_dead_close" => {
              let _ = x.set_option(opt::RECONNECT_IVL, 10).await;
              let _ = x.connect("tcp://127.0.0.1:9").await;
            }
            _ => {}
          }
          v.push(x);
        }
      }
      for x in v {
        let _ = x.close().await;
      }
      cycles += 1;
      if pace_ms > 0 {
        tokio::time::sleep(Duration::from_millis(pace_ms)).await;
      }
    }
    cycles
  });
  tokio::time::sleep(Duration::from_secs(secs)).await;
  stop.store(true, std::sync::atomic::Ordering::SeqCst);
  let cycles = tokio::time::timeout(Duration::from_secs(20), churn).await.ok().and_then(|x| x.ok()).unwrap_or(0);
  for h in extra_churn {
    let _ = tokio::time::timeout(Duration::from_secs(20), h).await;
  }
  let (calls, api_failures) = tokio::time::timeout(Duration::from_secs(10), api).await.ok().and_then(|x| x.ok()).unwrap_or((0, vec!["api task did not finish".into()]));
  let sent = tokio::time::timeout(Duration::from_secs(10), sender).await.ok().and_then(|x| x.ok()).unwrap_or_default();
  let (got, reader_errs) = tokio::time::timeout(Duration::from_secs(20), reader).await.ok().and_then(|x| x.ok()).unwrap_or_default();
  let cfg = format!("bound PULL over {} with one healthy PUSH peer; other sockets of its context: {} x4 per cycle, {} ms between cycles, {} cycles in {} s; get_option() on the PULL every {} us ({} calls)", tr.name(), kind, pace_ms, cycles, secs, api_gap_us, calls);
  rep.case(&("churn", tr, kind, api_gap_us, secs, pace_ms), true);
  rep.count("churn_cycles", cycles);
  rep.count("churn_victim_api_calls", calls);
  rep.count("churn_healthy_messages_accepted", sent.iter().filter(|x| x.status == SendStatus::Accepted).count() as u64);
  if cycles < 5 {
    rep.inconclusive(format!("churn barely ran ({} cycles): {}", cycles, cfg));
  }
  // (a) the victim's API
  let probe = tokio::time::timeout(Duration::from_secs(3), pull.get_option(opt::RCVHWM)).await;
  let api_dead = !matches!(probe, Ok(Ok(_)));
  if !api_failures.is_empty() || api_dead {
    rep.violation(
      "socket_shut_down_by_other_sockets_of_the_context".to_string(),
      format!("{}: get_option() on the PULL - which nothing was done to - failed: {:?}; a call after the churn: {:?}", cfg, api_failures, probe.map(|r| r.map(|_| ()).map_err(|e| e.to_string())).map_err(|_| "no answer within 3 s")),
      json!({"config": cfg, "api_failures": api_failures, "reader_errors": reader_errs}),
    );
  }
  // (b) the healthy connection and its stream
  let mut dropped = false;
  while let Ok(Ok(ev)) = tokio::time::timeout(Duration::from_millis(20), push_mon.recv()).await {
    if matches!(ev, SocketEvent::Disconnected { .. }) {
      dropped = true;
    }
  }
  let f = oracles::check_receiver(run, &sent, &got, None, true);
  if dropped || !f.ok() {
    rep.violation(
      "healthy_connection_hit_by_other_sockets_of_the_context".to_string(),
      format!("{}: healthy PUSH saw Disconnected: {}; stream: received {} of {} accepted, findings {}", cfg, dropped, got.len(), sent.iter().filter(|x| x.status == SendStatus::Accepted).count(), f.kinds().join("+")),
      json!({"config": cfg, "findings": f.to_json(), "reader_errors": reader_errs}),
    );
  }
  // (c) the listener: a new honest peer
  let late_ctx = util::new_ctx();
  let late = late_ctx.socket(SocketType::Push).unwrap();
  util::set_i32(&late, opt::SNDTIMEO, 3000).await;
  let _ = late.connect(&ep).await;
  let _ = late.send(util::msg(b"late-peer".to_vec(), false)).await;
  let mut served = false;
  let t0 = Instant::now();
  while t0.elapsed() < Duration::from_secs(4) {
    match pull.recv().await {
      Ok(m) if m.data() == Some(b"late-peer") => {
        served = true;
        break;
      }
      Ok(_) => {}
      Err(_) => tokio::time::sleep(Duration::from_millis(50)).await,
    }
  }
  if !served {
    rep.violation(
      "listener_stopped_by_other_sockets_of_the_context".to_string(),
      format!("{}: a new PUSH connecting to the PULL's endpoint afterwards was not served within 4 s", cfg),
      json!({"config": cfg}),
    );
  }
  let _ = tokio::time::timeout(Duration::from_secs(12), late_ctx.term()).await;
  let _ = tokio::time::timeout(Duration::from_secs(12), peer_ctx.term()).await;
  let _ = tokio::time::timeout(Duration::from_secs(12), ctx.term()).await;
}

/// (strays) a polling consumer: a bound PULL with RCVTIMEO 0 / 2 / 50 ms read in a tight loop, a healthy PUSH peer
/// carrying sequenced traffic, many tasks calling get_option() (the socket's command loop is kept busy), and a series
/// of stray clients that are not ZeroMQ at all (an HTTP request, a TLS hello, one byte, nothing) connecting to its
/// port. Each of them may only lose its own connection.
async fn strays_case(rep: &mut Report, rng: &mut Rng, tr: Transport, rcvtimeo: i32, api_tasks: usize) {
  let ctx = util::new_ctx();
  let peer_ctx = util::new_ctx();
  let pull = ctx.socket(SocketType::Pull).unwrap();
  util::set_i32(&pull, opt::RCVTIMEO, rcvtimeo).await;
  let push = peer_ctx.socket(SocketType::Push).unwrap();
  util::set_i32(&push, opt::SNDTIMEO, 3000).await;
  util::set_i32(&push, opt::RECONNECT_IVL, 60_000).await;
  let push_mon = push.monitor(1024).await.unwrap();
  let ep = match util::bind_fresh(&pull, tr).await {
    Ok(e) => e,
    Err(e) => {
      rep.inconclusive(format!("bind {e}"));
      return;
    }
  };
  push.connect(&ep).await.unwrap();
  tokio::time::sleep(Duration::from_millis(300)).await;
  let run = (rng.next() & 0x7FFF_FFFF) as u32;
  let stop = std::sync::Arc::new(std::sync::atomic::AtomicBool::new(false));
  let push2 = push.clone();
  let stop_s = stop.clone();
  let sender = tokio::spawn(async move {
    let mut sent = vec![];
    let mut seq = 0u32;
    while !stop_s.load(std::sync::atomic::Ordering::SeqCst) {
      let lens = vec![HDR + (seq as usize * 13) % 300];
      let fr = oracles::build_message(run, 1, seq, u32::MAX, &lens);
      let r = push2.send(util::msg(fr[0].clone(), false)).await;
      sent.push(SentMsg { sender: 1, seq, dest: u32::MAX, frame_lens: lens, status: if r.is_ok() { SendStatus::Accepted } else { SendStatus::Maybe } });
      if r.is_err() {
        break;
      }
      seq += 1;
      tokio::time::sleep(Duration::from_millis(3)).await;
    }
    sent
  });
  let pull2 = pull.clone();
  let stop_r = stop.clone();
  let reader = tokio::spawn(async move {
    let mut got: Vec<Vec<Vec<u8>>> = vec![];
    let mut quiet_since: Option<Instant> = None;
    let mut hard_errors: Vec<String> = vec![];
    loop {
      match pull2.recv_multipart().await {
        Ok(m) => {
          quiet_since = None;
          got.push(m.into_iter().map(|f| f.data().unwrap_or(&[]).to_vec()).collect());
        }
        Err(e) => {
          let k = util::err_kind(&e);
          if k != "Timeout" && k != "ResourceLimitReached" && hard_errors.len() < 4 {
            hard_errors.push(k);
          }
          if stop_r.load(std::sync::atomic::Ordering::SeqCst) {
            let q = *quiet_since.get_or_insert_with(Instant::now);
            if q.elapsed() > Duration::from_millis(1200) {
              break;
            }
          }
          tokio::time::sleep(Duration::from_micros(300)).await;
        }
      }
    }
    (got, hard_errors)
  });
  let mut apis = vec![];
  for _ in 0..api_tasks {
    let p = pull.clone();
    let st = stop.clone();
    apis.push(tokio::spawn(async move {
      let mut failures: Vec<String> = vec![];
      while !st.load(std::sync::atomic::Ordering::SeqCst) {
        if let Err(e) = p.get_option(opt::RCVHWM).await {
          if failures.len() < 3 {
            failures.push(format!("{:?}", e));
          }
          if failures.len() >= 3 {
            break;
          }
        }
        tokio::task::yield_now().await;
      }
      failures
    }));
  }
  // the strays
  let junk: [&[u8]; 4] = [b"GET / HTTP/1.1\r\nHost: localhost\r\n\r\n", b"\x16\x03\x01\x02\x00\x01\x00\x01\xfc\x03\x03", b"\x00", b""];
  let mut strays_connected = 0;
  for k in 0..16 {
    match RawStream::connect(&ep).await {
      Ok(mut r) => {
        strays_connected += 1;
        let _ = r.write_all(junk[k % 4]).await;
        if k % 3 == 0 {
          r.set_linger0();
        }
        if k % 2 == 0 {
          drop(r);
        } else {
          let _ = r.read_for(Duration::from_millis(30), 0).await;
        }
      }
      Err(_) => {}
    }
    tokio::time::sleep(Duration::from_millis(rng.range(0, 40) as u64)).await;
  }
  tokio::time::sleep(Duration::from_millis(300)).await;
  stop.store(true, std::sync::atomic::Ordering::SeqCst);
  let mut api_failures: Vec<String> = vec![];
  for a in apis {
    if let Ok(Ok(f)) = tokio::time::timeout(Duration::from_secs(10), a).await {
      api_failures.extend(f);
    }
  }
  let sent = tokio::time::timeout(Duration::from_secs(10), sender).await.ok().and_then(|x| x.ok()).unwrap_or_default();
  let (got, reader_errs) = tokio::time::timeout(Duration::from_secs(20), reader).await.ok().and_then(|x| x.ok()).unwrap_or_default();
  let cfg = format!("bound PULL (RCVTIMEO {} ms, polled) over {} with a healthy PUSH, {} tasks calling get_option(), {} of 16 stray non-ZeroMQ clients got a connection", rcvtimeo, tr.name(), api_tasks, strays_connected);
  rep.case(&("strays", tr, rcvtimeo, api_tasks), true);
  rep.count("strays_connected", strays_connected);
  // a socket that was shut down stays dead: three probes in a row. (A single get_option() among ~10^5 concurrent ones
  // fails with "Reply channel error" even on a quiet socket - see DESIGN.md, outside the given properties - so the
  // workers' transient failures are counted, not judged.)
  let mut probe = tokio::time::timeout(Duration::from_secs(3), pull.get_option(opt::RCVHWM)).await;
  for _ in 0..2 {
    if matches!(probe, Ok(Ok(_))) {
      break;
    }
    tokio::time::sleep(Duration::from_millis(50)).await;
    probe = tokio::time::timeout(Duration::from_secs(3), pull.get_option(opt::RCVHWM)).await;
  }
  rep.count("strays_transient_api_failures", api_failures.len() as u64);
  let dead = api_failures.iter().any(|f| f.contains("Mailbox send error") || f.contains("closed"));
  if dead || !matches!(probe, Ok(Ok(_))) || strays_connected < 16 {
    rep.violation(
      "socket_shut_down_by_stray_client".to_string(),
      format!("{}: get_option() failures {:?}; a call afterwards: {:?}", cfg, &api_failures[..api_failures.len().min(3)], probe.map(|r| r.map(|_| ()).map_err(|e| e.to_string())).map_err(|_| "no answer within 3 s")),
      json!({"config": cfg, "api_failures": api_failures, "reader_errors": reader_errs}),
    );
  }
  let mut dropped = false;
  while let Ok(Ok(ev)) = tokio::time::timeout(Duration::from_millis(20), push_mon.recv()).await {
    if matches!(ev, SocketEvent::Disconnected { .. }) {
      dropped = true;
    }
  }
  let f = oracles::check_receiver(run, &sent, &got, None, true);
  if dropped || !f.ok() {
    rep.violation(
      "healthy_connection_hit_by_stray_client".to_string(),
      format!("{}: healthy PUSH saw Disconnected: {}; stream: received {} of {} accepted, findings {}", cfg, dropped, got.len(), sent.iter().filter(|x| x.status == SendStatus::Accepted).count(), f.kinds().join("+")),
      json!({"config": cfg, "findings": f.to_json(), "reader_errors": reader_errs}),
    );
  }
  let late_ctx = util::new_ctx();
  let late = late_ctx.socket(SocketType::Push).unwrap();
  util::set_i32(&late, opt::SNDTIMEO, 3000).await;
  let _ = late.connect(&ep).await;
  let _ = late.send(util::msg(b"late-peer".to_vec(), false)).await;
  let mut served = false;
  let t0 = Instant::now();
  while t0.elapsed() < util::scaled(Duration::from_secs(4)) {
    match pull.recv().await {
      Ok(m) if m.data() == Some(b"late-peer") => {
        served = true;
        break;
      }
      Ok(_) => {}
      Err(_) => tokio::time::sleep(Duration::from_millis(2)).await,
    }
  }
  if !served {
    rep.violation("listener_stopped_by_stray_client".to_string(), format!("{}: a new PUSH connecting afterwards was not served within 4 s", cfg), json!({"config": cfg}));
  }
  let _ = tokio::time::timeout(Duration::from_secs(12), late_ctx.term()).await;
  let _ = tokio::time::timeout(Duration::from_secs(12), peer_ctx.term()).await;
  let _ = tokio::time::timeout(Duration::from_secs(12), ctx.term()).await;
}

fn main() {
  let args = Args::parse();
  util::install_panic_watch();
  let mut rep = Report::new("C17", &args.shard_name());
  let mut rng = Rng::new(args.seed.wrapping_mul(314606869).wrapping_add(args.shard as u64));
  let rt = util::runtime(2);
  match args.only.as_deref() {
    Some("arith") => arith_layer(&mut rep),
    Some("strays") => {
      let rt4 = util::runtime(4);
      let mut i = 0;
      for tr in [Transport::Tcp, Transport::Ipc] {
        for rcvtimeo in [0, 2, 50] {
          for api_tasks in [32usize, 4] {
            i += 1;
            if !args.mine(i) || (!args.thorough() && tr == Transport::Ipc && rcvtimeo != 0) {
              continue;
            }
            util::guarded(&rt4, strays_case(&mut rep, &mut rng, tr, rcvtimeo, api_tasks));
          }
        }
      }
      util::cleanup_ipc_dir();
    }
    Some("churn") => {
      let rt4 = util::runtime(4);
      let mut i = 0;
      for tr in [Transport::Tcp, Transport::Ipc] {
        for kind in ["bind_close", "connect_dead_close", "create_close"] {
          for gap in [0u64, 200, 5000] {
            i += 1;
            if !args.mine(i) {
              continue;
            }
            if !args.thorough() && tr == Transport::Ipc && gap != 0 {
              continue;
            }
            let pace = [0u64, 20, 5][i % 3];
            util::guarded(&rt4, churn_case(&mut rep, &mut rng, tr, kind, gap, if args.thorough() { 6 } else { 3 }, pace));
          }
        }
      }
      util::cleanup_ipc_dir();
    }
    Some("refused") => {
      let grid: &[(u64, u64)] = if args.thorough() { &[(100, 0), (100, 250), (100, 1000), (50, 400), (200, 200), (300, 700), (10, 35), (100, 150), (250, 2000)] } else { &[(100, 0), (100, 250), (100, 1000), (50, 400), (200, 200), (300, 700)] };
      for (i, (ivl, max)) in grid.iter().enumerate() {
        if args.mine(i) {
          util::guarded(&rt, refused_case(&mut rep, *ivl, *max));
        }
      }
    }
    Some("reconnect") => {
      for (i, (ivl, max, tr)) in [(100u64, 0u64, Transport::Tcp), (50, 400, Transport::Tcp), (200, 200, Transport::Tcp), (100, 1000, Transport::Tcp), (100, 0, Transport::Ipc), (50, 400, Transport::Ipc)].iter().enumerate() {
        if args.mine(i) {
          util::guarded(&rt, reconnect_case(&mut rep, *ivl, *max, *tr));
        }
      }
      util::cleanup_ipc_dir();
    }
    _ => {
      let mut idx = 0;
      for plain in [false, true] {
        for tr in [Transport::Tcp, Transport::Ipc] {
          for f in FAULTS {
            if (f == Fault::WrongCredentials) != plain && f == Fault::WrongCredentials {
              continue;
            }
            if f == Fault::NullToPlain && !plain {
              continue;
            }
            if !args.thorough() && tr == Transport::Ipc && !matches!(f, Fault::GarbageGreeting | Fault::Rst | Fault::ConnectBurst) {
              continue;
            }
            idx += 1;
            if !args.mine(idx) {
              continue;
            }
            util::guarded(&rt, isolate_case(&mut rep, &mut rng, tr, &[f], plain));
          }
        }
      }
      if args.thorough() {
        for _ in 0..6 {
          idx += 1;
          if args.mine(idx) {
            let fs: Vec<Fault> = (0..3).map(|_| *rng.pick(&FAULTS[..8])).collect();
            util::guarded(&rt, isolate_case(&mut rep, &mut rng, Transport::Tcp, &fs, false));
          }
        }
      }
      for (b, bad, good) in [(SocketType::Pull, SocketType::Pub, SocketType::Push), (SocketType::Router, SocketType::Push, SocketType::Dealer), (SocketType::Pull, SocketType::Pull, SocketType::Push), (SocketType::Rep, SocketType::Dealer, SocketType::Req)] {
        idx += 1;
        if args.mine(idx) {
          util::guarded(&rt, inproc_refusal_case(&mut rep, b, bad, good));
        }
      }
    }
  }
  util::cleanup_ipc_dir();
  for p in util::take_panics() {
    if p.in_rzmq {
      rep.violation(format!("panic|{}", util::panic_site(&p.location)), format!("panic at {}: {}", p.location, p.message), json!({"frames": p.backtrace_head}));
    } else {
      rep.inconclusive(format!("harness panic at {}: {}", p.location, p.message));
    }
  }
  rep.merge_hooks();
  rep.emit();
}

//! C16 — close() and term() always finish and leave nothing running or hanging.
//! Chaos histories: several sockets of one context with tasks blocked in send/recv/connect
//! retries/handshakes, close()/term() injected at a seeded moment; assertions at the end of every
//! history on return times, panics, post-close operations, re-bind, live actors, tasks and fds.

use rzmq::socket::options as opt;
use rzmq::verif;
use rzmq::{Socket, SocketType};
use serde_json::json;
use std::sync::atomic::{AtomicUsize, Ordering};
use std::sync::Arc;
use std::time::{Duration, Instant};
use vh::args::Args;
use vh::gen::Rng;
use vh::rawpeer::RawStream;
use vh::report::Report;
use vh::util::{self, Transport};

fn alive_tasks() -> usize {
  tokio::runtime::Handle::current().metrics().num_alive_tasks()
}

#[derive(Clone, Copy, Debug, PartialEq, Eq, Hash)]
enum Inject {
  TermOnly,
  CloseAllThenTerm,
  CloseSomeThenTerm,
  ConcurrentCloseAndTerm,
  DropHandlesThenTerm,
}

#[derive(Clone, Debug)]
struct Plan {
  tr: Transport,
  pairs: Vec<(SocketType, SocketType)>,
  inject: Inject,
  delay_ms: u64,
  dead_port_connect: bool,
  stalled_raw_peer: bool,
  hwm: i32,
}

async fn history(rep: &mut Report, rng: &mut Rng, plan: &Plan) {
  let fd0 = util::open_fds();
  let tasks0 = alive_tasks();
  let ctx = util::new_ctx();
  let cfg = format!("{:?}", plan);
  let mut socks: Vec<(Socket, &'static str)> = vec![];
  let mut bound_eps: Vec<(String, SocketType)> = vec![];
  let worker_exits = Arc::new(AtomicUsize::new(0));
  // label -> (what it is doing, when that call started); a call that RETURNS (Ok or Err) updates
  // the entry, so an entry older than 2 s after term() is one call that never returned
  let running: Arc<parking_lot::Mutex<std::collections::BTreeMap<String, (String, Instant)>>> = Default::default();
  let mut workers = vec![];
  let mut raws = vec![];
  for (bt, ct) in &plan.pairs {
    let b = ctx.socket(*bt).unwrap();
    let c = ctx.socket(*ct).unwrap();
    for s in [&b, &c] {
      util::set_i32(s, opt::SNDHWM, plan.hwm).await;
      util::set_i32(s, opt::RCVHWM, plan.hwm).await;
      util::set_i32(s, opt::RECONNECT_IVL, 50).await;
      util::set_i32(s, opt::HANDSHAKE_IVL, 5000).await;
    }
    if *bt == SocketType::Sub {
      let _ = b.set_option(opt::SUBSCRIBE, "").await;
    }
    if *ct == SocketType::Sub {
      let _ = c.set_option(opt::SUBSCRIBE, "").await;
    }
    let ep = match util::bind_fresh(&b, plan.tr).await {
      Ok(e) => e,
      Err(e) => {
        rep.inconclusive(format!("bind {e}"));
        continue;
      }
    };
    bound_eps.push((ep.clone(), *bt));
    let _ = c.connect(&ep).await;
    if plan.stalled_raw_peer && plan.tr != Transport::Inproc {
      if let Ok(mut r) = RawStream::connect(&ep).await {
        let _ = r.write_all(&vh::refzmtp::greeting_v3(0, "NULL", false)[..20]).await;
        raws.push(r);
      }
    }
    socks.push((b, util::socket_type_name(*bt)));
    socks.push((c, util::socket_type_name(*ct)));
  }
  if plan.dead_port_connect {
    // a connector that keeps retrying against a port nobody listens on
    let d = ctx.socket(SocketType::Push).unwrap();
    util::set_i32(&d, opt::RECONNECT_IVL, 20).await;
    let _ = d.connect("tcp://127.0.0.1:9").await;
    socks.push((d, "PUSH(dead-port)"));
  }
  // workers: every socket gets a sender and/or receiver that loops until the socket errors
  for (s, name) in &socks {
    let can_send = !matches!(*name, "PULL" | "SUB");
    let can_recv = !matches!(*name, "PUSH" | "PUB" | "PUSH(dead-port)");
    if can_send {
      let s = s.clone();
      let ex = worker_exits.clone();
      let is_router = *name == "ROUTER";
      let is_req = *name == "REQ";
      let is_rep = *name == "REP";
      let label = format!("{}#{}.send", name, workers.len());
      let run2 = running.clone();
      run2.lock().insert(label.clone(), ("start".into(), Instant::now()));
      workers.push(tokio::spawn(async move {
        let mut i = 0u64;
        let mut errs = 0;
        loop {
          let m = util::msg(vec![0x42; 2000], false);
          run2.lock().insert(label.clone(), ("in send()".into(), Instant::now()));
          let r = if is_router { s.send_multipart(vec![util::msg(b"nobody".to_vec(), true), m]).await } else { s.send(m).await };
          i += 1;
          match r {
            Ok(()) => {
              if is_req || is_rep {
                run2.lock().insert(label.clone(), ("in recv()".into(), Instant::now()));
                let _ = s.recv().await;
              }
            }
            Err(rzmq::ZmqError::InvalidState(_)) if is_req || is_rep => {
              run2.lock().insert(label.clone(), ("in recv()".into(), Instant::now()));
              if s.recv().await.is_err() {
                errs += 1;
              }
            }
            Err(_) => {
              errs += 1;
            }
          }
          if errs > 3 || i > 2_000_000 {
            break;
          }
          if i % 64 == 0 {
            tokio::task::yield_now().await;
          }
        }
        run2.lock().remove(&label);
        ex.fetch_add(1, Ordering::SeqCst);
      }));
    }
    if can_recv && *name != "REQ" && *name != "REP" {
      let s = s.clone();
      let ex = worker_exits.clone();
      let label = format!("{}#{}.recv", name, workers.len());
      let run2 = running.clone();
      run2.lock().insert(label.clone(), ("in recv()".into(), Instant::now()));
      workers.push(tokio::spawn(async move {
        let mut errs = 0;
        loop {
          run2.lock().insert(label.clone(), ("in recv()".into(), Instant::now()));
          match s.recv().await {
            Ok(_) => {}
            Err(_) => {
              errs += 1;
              if errs > 3 {
                break;
              }
            }
          }
        }
        run2.lock().remove(&label);
        ex.fetch_add(1, Ordering::SeqCst);
      }));
    }
    // an option setter / getter
    {
      let s = s.clone();
      let ex = worker_exits.clone();
      let label = format!("{}#{}.setopt", name, workers.len());
      let run2 = running.clone();
      run2.lock().insert(label.clone(), ("in set_option()/get_option()".into(), Instant::now()));
      workers.push(tokio::spawn(async move {
        let mut errs = 0;
        for k in 0..100_000 {
          run2.lock().insert(label.clone(), ("in set_option()/get_option()".into(), Instant::now()));
          let r = if k % 2 == 0 { s.set_option(opt::SNDTIMEO, -1).await } else { s.get_option(opt::RCVHWM).await.map(|_| ()) };
          if r.is_err() {
            errs += 1;
            if errs > 3 {
              break;
            }
          }
          tokio::time::sleep(Duration::from_millis(1)).await;
        }
        run2.lock().remove(&label);
        ex.fetch_add(1, Ordering::SeqCst);
      }));
    }
  }
  let nworkers = workers.len();
  tokio::time::sleep(Duration::from_millis(plan.delay_ms)).await;
  // ---- injection ----
  let t0 = Instant::now();
  let watchdog = util::scaled(Duration::from_secs(30));
  let mut close_times: Vec<Duration> = vec![];
  let mut closed_eps: Vec<(String, SocketType)> = vec![];
  let result = tokio::time::timeout(watchdog, async {
    match plan.inject {
      Inject::TermOnly => {
        let _ = ctx.term().await;
      }
      Inject::CloseAllThenTerm | Inject::CloseSomeThenTerm => {
        for (i, (s, _)) in socks.iter().enumerate() {
          if plan.inject == Inject::CloseSomeThenTerm && i % 2 == 1 {
            continue;
          }
          let t = Instant::now();
          let _ = s.close().await;
          close_times.push(t.elapsed());
        }
        // re-bind every endpoint whose binder was closed (close has returned)
        for (k, (ep, bt)) in bound_eps.iter().enumerate() {
          if plan.inject == Inject::CloseSomeThenTerm && (2 * k) % 2 == 1 {
            continue;
          }
          closed_eps.push((ep.clone(), *bt));
        }
        let mut rebind_failed: Vec<String> = vec![];
        for (ep, bt) in &closed_eps {
          let nb = ctx.socket(*bt).unwrap();
          let t = Instant::now();
          let mut ok = false;
          let mut last = String::new();
          while t.elapsed() < util::scaled(Duration::from_secs(2)) {
            match nb.bind(ep).await {
              Ok(()) => {
                ok = true;
                break;
              }
              Err(e) => {
                last = format!("{:?}", e);
                tokio::time::sleep(Duration::from_millis(50)).await;
              }
            }
          }
          if !ok {
            rebind_failed.push(format!("{} ({})", ep.split(':').next().unwrap_or(""), last));
          }
          let _ = nb.close().await;
        }
        if !rebind_failed.is_empty() {
          return Err(rebind_failed);
        }
        let _ = ctx.term().await;
      }
      Inject::ConcurrentCloseAndTerm => {
        let mut hs = vec![];
        for (s, _) in socks.iter() {
          let s = s.clone();
          hs.push(tokio::spawn(async move {
            let _ = s.close().await;
          }));
        }
        let c2 = ctx.clone();
        hs.push(tokio::spawn(async move {
          let _ = c2.term().await;
        }));
        for h in hs {
          let _ = h.await;
        }
        let _ = ctx.term().await;
      }
      Inject::DropHandlesThenTerm => {
        let _ = ctx.term().await;
      }
    }
    Ok(())
  })
  .await;
  let total = t0.elapsed();
  rep.case(&cfg, true);
  rep.max("max:close_term_ms", total.as_millis() as u64);
  let sig_inj = format!("{:?}|tr={}", plan.inject, plan.tr.name());
  match result {
    Err(_) => {
      rep.violation(format!("close_or_term_did_not_return|{}", sig_inj), format!("close()/term() had not returned after {:?} ({})", watchdog, cfg), json!({"config": cfg, "live_actors": verif::live_actors(&ctx)}));
    }
    Ok(Err(failed)) => {
      rep.violation(format!("rebind_after_close_failed|tr={}", plan.tr.name()), format!("after close() returned, binding the same endpoint again failed for 2 s: {:?} ({})", failed, cfg), json!({"config": cfg, "failed": failed}));
      let _ = tokio::time::timeout(util::scaled(Duration::from_secs(15)), ctx.term()).await;
    }
    Ok(Ok(())) => {}
  }
  let la_after = verif::live_actors(&ctx);
  if total >= util::scaled(Duration::from_secs(9)) && total < watchdog {
    rep.violation(format!("term_returned_only_through_internal_timeout|{}", sig_inj), format!("term() took {:?} (its internal wait times out after 10 s); live actors right after: {} ({})", total, la_after, cfg), json!({"config": cfg, "live_actors": la_after, "still_running_workers": running.lock().iter().map(|(k, v)| format!("{} {}", k, v.0)).collect::<Vec<_>>()}));
  }
  // ---- post-conditions ----
  // (1) operations on closed sockets return promptly: no single call may stay in flight
  tokio::time::sleep(util::scaled(Duration::from_millis(2500))).await;
  {
    let now = Instant::now();
    let hanging: Vec<String> = running.lock().iter().filter(|(_, (_, t))| now.duration_since(*t) > util::scaled(Duration::from_secs(2))).map(|(k, (v, _))| format!("{} {}", k.split('#').next().unwrap_or(""), v)).collect();
    let mut kinds = hanging.clone();
    kinds.sort();
    kinds.dedup();
    for kname in kinds {
      rep.violation(format!("operation_on_closed_socket_hangs|{}|{:?}", kname, plan.inject), format!("a {} call was still in flight 2.5 s after close()/term() returned ({})", kname, cfg), json!({"config": cfg, "hanging": hanging, "live_actors_now": verif::live_actors(&ctx)}));
    }
    let still = running.lock().len();
    rep.count("workers_still_looping_with_successful_ops_after_term", (still - hanging.len().min(still)) as u64);
    let _ = (nworkers, worker_exits.load(Ordering::SeqCst));
  }
  for w in workers {
    w.abort();
  }
  // direct probes
  for (s, name) in socks.iter().take(4) {
    let r = tokio::time::timeout(util::scaled(Duration::from_secs(2)), s.send(util::msg(b"x".to_vec(), false))).await;
    if r.is_err() && !matches!(*name, "PULL" | "SUB") {
      rep.violation(format!("send_after_term_hangs|{}", name), format!("send() on a {} of a terminated context did not return within 2 s ({})", name, cfg), json!({"config": cfg}));
    }
    let r = tokio::time::timeout(util::scaled(Duration::from_secs(2)), s.recv()).await;
    if r.is_err() && !matches!(*name, "PUSH" | "PUB" | "PUSH(dead-port)") {
      rep.violation(format!("recv_after_term_hangs|{}", name), format!("recv() on a {} of a terminated context did not return within 2 s ({})", name, cfg), json!({"config": cfg}));
    }
  }
  // (2) nothing left running
  drop(raws);
  let la = verif::live_actors(&ctx);
  if la > 0 {
    rep.violation(format!("actors_alive_after_term|{}", sig_inj), format!("{} actor(s) of the context still counted alive after term() returned ({})", la, cfg), json!({"config": cfg, "live_actors": la}));
  }
  let names = verif::inproc_names(&ctx);
  if !names.is_empty() {
    rep.violation("inproc_names_left_after_term".to_string(), format!("inproc names still registered after term(): {:?}", names), json!({"config": cfg}));
  }
  drop(socks);
  drop(ctx);
  // tasks and fds settle asynchronously: allow a short grace period
  let t2 = Instant::now();
  let (mut tasks1, mut fd1) = (alive_tasks(), util::open_fds());
  while (tasks1 > tasks0 || fd1 > fd0) && t2.elapsed() < util::scaled(Duration::from_secs(3)) {
    tokio::time::sleep(Duration::from_millis(50)).await;
    tasks1 = alive_tasks();
    fd1 = util::open_fds();
  }
  if tasks1 > tasks0 {
    rep.violation(format!("tasks_left_running|{}", sig_inj), format!("{} tokio task(s) more than before the history are still alive 3 s after term() ({})", tasks1 - tasks0, cfg), json!({"config": cfg, "before": tasks0, "after": tasks1}));
  }
  if fd1 > fd0 {
    rep.violation(format!("fds_left_open|{}", sig_inj), format!("{} file descriptor(s) more than before the history are still open 3 s after term() ({})", fd1 - fd0, cfg), json!({"config": cfg, "before": fd0, "after": fd1}));
  }
}

/// (rpqclose) ReadyPipeQueue::close() must release every pop(): one already parked, one started afterwards, one
/// that is cancelled and retried - also while sender handles of registered pipes are still alive (a connection that
/// attached while the socket was stopping leaves such a handle behind).
fn rpq_close_layer(rep: &mut Report, rng: &mut Rng) {
  use rzmq::verif::{PipeKind, Rpq};
  let rt = util::runtime(2);
  for case in 0..60u32 {
    let poppers = 1 + (case % 3) as usize;
    let live_senders = (case / 3 % 3) as usize;
    let kind = [PipeKind::DirectAnonymous, PipeKind::FilteredAnonymous, PipeKind::DirectAddressed][(case / 9 % 3) as usize];
    let close_first = case % 2 == 1;
    let delay_us = rng.range(0, 3000) as u64;
    let (released, late_ok) = rt.block_on(async move {
      let q = std::sync::Arc::new(Rpq::<rzmq::FrameBatch>::new(8));
      let keep: Vec<_> = (0..live_senders).map(|i| q.register_pipe_kind(i, 2, 1, kind, &[b""])).collect();
      if close_first {
        q.close();
      }
      let mut hs = vec![];
      for _ in 0..poppers {
        let q2 = q.clone();
        hs.push(tokio::spawn(async move { q2.pop().await.is_err() }));
      }
      tokio::time::sleep(Duration::from_micros(delay_us)).await;
      if !close_first {
        q.close();
      }
      // one shared deadline: every parked pop() must have returned 1.5 s after close()
      let deadline = tokio::time::Instant::now() + util::scaled(Duration::from_millis(1500));
      let mut released = 0;
      for mut h in hs {
        if let Ok(Ok(true)) = tokio::time::timeout_at(deadline, &mut h).await {
          released += 1;
        } else {
          h.abort();
        }
      }
      let q3 = q.clone();
      let late_ok = matches!(tokio::time::timeout(util::scaled(Duration::from_millis(1500)), async move { q3.pop().await.is_err() }).await, Ok(true));
      drop(keep);
      (released, late_ok)
    });
    rep.case(&("rpqclose", poppers, live_senders, format!("{:?}", kind), close_first, delay_us / 500), true);
    if released != poppers || !late_ok {
      rep.violation(
        format!("pop_not_released_by_close|live_senders={}", if live_senders > 0 { "some" } else { "none" }),
        format!("ReadyPipeQueue::close(): {} of {} parked pop() calls returned, a pop() started after close() returned: {} ({} sender handle(s) of registered pipes alive, kind {:?}, close_first={})", released, poppers, late_ok, live_senders, kind, close_first),
        json!({"poppers": poppers, "live_senders": live_senders}),
      );
    }
  }
}

/// (attachrace) recv() blocked with no timeout while a connection is attaching and close()/term() run: the call
/// must return (an error) once both have returned. The delay between connect() and close sweeps the attach window.
async fn attach_race_case(rep: &mut Report, rx_t: SocketType, tx_t: SocketType, tr: Transport, delay_us: u64, use_close: bool) {
  let ctx = util::new_ctx();
  let txs = ctx.socket(tx_t).unwrap();
  let ep = match util::bind_fresh(&txs, tr).await {
    Ok(e) => e,
    Err(e) => {
      rep.inconclusive(format!("bind: {e}"));
      return;
    }
  };
  let rx = ctx.socket(rx_t).unwrap();
  if rx_t == SocketType::Sub {
    let _ = rx.set_option(opt::SUBSCRIBE, "").await;
  }
  let mut hs = vec![];
  for multipart in [false, true] {
    let r2 = rx.clone();
    hs.push(tokio::spawn(async move {
      loop {
        let e = if multipart { r2.recv_multipart().await.is_err() } else { r2.recv().await.is_err() };
        if e {
          return;
        }
      }
    }));
  }
  let _ = rx.connect(&ep).await;
  tokio::time::sleep(Duration::from_micros(delay_us)).await;
  let closer = if use_close {
    let r3 = rx.clone();
    Some(tokio::spawn(async move {
      let _ = r3.close().await;
    }))
  } else {
    None
  };
  let termed = tokio::time::timeout(util::scaled(Duration::from_secs(20)), ctx.term()).await.is_ok();
  if let Some(c) = closer {
    let _ = tokio::time::timeout(util::scaled(Duration::from_secs(20)), c).await;
  }
  rep.case(&("attachrace", util::socket_type_name(rx_t), tr, delay_us / 250, use_close), true);
  if !termed {
    rep.violation(format!("term_hangs|attachrace|{}", util::socket_type_name(rx_t)), format!("term() did not return within the bound while a {} connection was attaching", util::socket_type_name(rx_t)), json!({"delay_us": delay_us}));
    return;
  }
  let mut pending = 0;
  for h in hs {
    if tokio::time::timeout(util::scaled(Duration::from_secs(5)), h).await.is_err() {
      pending += 1;
    }
  }
  if pending > 0 {
    rep.violation(
      format!("operation_on_closed_socket_hangs|{} in recv()|attachrace", util::socket_type_name(rx_t)),
      format!("{} recv call(s) on a {} were still pending after close()/term() returned (connection attaching {} us before the close, {} live actors)", pending, util::socket_type_name(rx_t), delay_us, verif::live_actors(&ctx)),
      json!({"delay_us": delay_us, "transport": tr.name(), "use_close": use_close}),
    );
  }
}

#[derive(Clone, Copy, Debug, PartialEq, Eq, Hash)]
enum Gap {
  /// connect() and close() polled together (join!): the core handles both before the connecter's first poll
  Joined,
  /// close() right after connect() returned
  Immediate,
  /// a few hundred microseconds .. milliseconds: inside the first attempt / the first back-off
  Micros(u64),
  /// after several retry cycles
  Millis(u64),
}

static DEAD_PORT_COUNTER: AtomicUsize = AtomicUsize::new(0);

/// A tcp port outside the kernel's ephemeral range (so that no other process of this run is handed it by bind(:0)) on
/// which nothing listens right now.
async fn dead_tcp_port() -> Option<u16> {
  for _ in 0..50 {
    let k = DEAD_PORT_COUNTER.fetch_add(1, Ordering::SeqCst);
    let port = 10_000 + ((std::process::id() as usize * 37 + k * 101) % 20_000) as u16;
    if tokio::net::TcpStream::connect(("127.0.0.1", port)).await.is_err() {
      return Some(port);
    }
  }
  None
}

/// (closeonly) close() alone - no term() - must leave nothing of that socket running: no actor of the context counted
/// alive, no socket registered, no tokio task more than before, and nothing that still tries to reach the targets the
/// closed socket had been connecting to (observed by starting to listen there after the close).
async fn close_only_case(rep: &mut Report, rng: &mut Rng, flavour: &'static str, st: SocketType, tr: Transport, targets: usize, gap: Gap, ivl: i32, with_live_peer: bool) {
  let tasks0 = alive_tasks();
  let ctx = util::new_ctx();
  let peer_ctx = util::new_ctx();
  let s = ctx.socket(st).unwrap();
  util::set_i32(&s, opt::RECONNECT_IVL, ivl).await;
  util::set_i32(&s, opt::LINGER, 0).await;
  if st == SocketType::Sub {
    let _ = s.set_option(opt::SUBSCRIBE, "").await;
  }
  let cfg = format!("{} {} over {} x{} dead target(s), gap {:?}, RECONNECT_IVL {} ms{}", flavour, util::socket_type_name(st), tr.name(), targets, gap, ivl, if with_live_peer { ", plus one live peer" } else { "" });
  // an optional live peer, so that the socket also owns a session when it is closed
  let mut live_peer = None;
  if with_live_peer {
    let pt = match st {
      SocketType::Push => SocketType::Pull,
      SocketType::Pull => SocketType::Push,
      SocketType::Dealer => SocketType::Router,
      SocketType::Router => SocketType::Dealer,
      SocketType::Req => SocketType::Rep,
      SocketType::Sub => SocketType::Pub,
      _ => SocketType::Sub,
    };
    let p = peer_ctx.socket(pt).unwrap();
    if let Ok(ep) = util::bind_fresh(&p, if tr == Transport::Inproc { Transport::Tcp } else { tr }).await {
      let _ = s.connect(&ep).await;
      tokio::time::sleep(Duration::from_millis(40)).await;
    }
    live_peer = Some(p);
  }
  // dead targets
  let mut eps: Vec<String> = vec![];
  for k in 0..targets {
    match tr {
      Transport::Tcp => match dead_tcp_port().await {
        Some(p) => eps.push(format!("tcp://127.0.0.1:{}", p)),
        None => {
          rep.inconclusive("no dead tcp port found".to_string());
          return;
        }
      },
      _ => eps.push(format!("ipc://{}/dead-{}-{}", util::ipc_dir(), DEAD_PORT_COUNTER.fetch_add(1, Ordering::SeqCst), k)),
    }
  }
  let t0 = Instant::now();
  let closed = tokio::time::timeout(util::scaled(Duration::from_secs(15)), async {
    match gap {
      Gap::Joined => {
        let (last, first) = eps.split_last().unwrap();
        for ep in first {
          let _ = s.connect(ep).await;
        }
        let (_a, _b) = tokio::join!(s.connect(last), s.close());
      }
      Gap::Immediate => {
        for ep in &eps {
          let _ = s.connect(ep).await;
        }
        let _ = s.close().await;
      }
      Gap::Micros(us) => {
        for ep in &eps {
          let _ = s.connect(ep).await;
        }
        tokio::time::sleep(Duration::from_micros(us)).await;
        let _ = s.close().await;
      }
      Gap::Millis(ms) => {
        for ep in &eps {
          let _ = s.connect(ep).await;
        }
        tokio::time::sleep(Duration::from_millis(ms)).await;
        let _ = s.close().await;
      }
    }
  })
  .await;
  let close_time = t0.elapsed();
  rep.case(&("closeonly", flavour, util::socket_type_name(st), tr, targets, gap, ivl, with_live_peer), true);
  rep.count("closeonly_cases", 1);
  let gap_kind = match gap {
    Gap::Joined => "joined",
    Gap::Immediate => "immediate",
    Gap::Micros(_) => "micros",
    Gap::Millis(_) => "millis",
  };
  if closed.is_err() {
    rep.violation(format!("close_did_not_return|closeonly|{}", gap_kind), format!("close() had not returned after 15 s ({})", cfg), json!({"config": cfg}));
    let _ = tokio::time::timeout(util::scaled(Duration::from_secs(15)), ctx.term()).await;
    return;
  }
  rep.max("max:closeonly_close_ms", close_time.as_millis() as u64);
  // (a) start listening where the closed socket had been connecting: nobody may show up
  let mut visitors: Vec<String> = vec![];
  let mut listeners = vec![];
  for ep in &eps {
    let l = if let Some(port) = ep.strip_prefix("tcp://127.0.0.1:") { vh::rawpeer::RawListener::bind_tcp_port(port.parse().unwrap()).await.map(|x| x.0) } else { vh::rawpeer::RawListener::bind_unix(ep.strip_prefix("ipc://").unwrap()).await.map(|x| x.0) };
    match l {
      Ok(l) => listeners.push((ep.clone(), l)),
      Err(e) => rep.inconclusive(format!("probe listener on {}: {}", ep, e)),
    }
  }
  let watch = util::scaled(Duration::from_millis(if ivl <= 50 { 700 } else { 1200 }));
  for (ep, l) in &listeners {
    if let Ok(Ok(mut c)) = tokio::time::timeout(watch, l.accept()).await {
      let (bytes, eof) = c.read_for(util::scaled(Duration::from_millis(500)), 10).await;
      if !bytes.is_empty() {
        // the closed socket went ahead and spoke ZMTP on a connection opened after close() had returned
        visitors.push(format!("{} <- connection sending {}", ep, vh::report::hex(&bytes)));
      } else if eof || c.wait_closed(util::scaled(Duration::from_millis(1500))).await.is_some() {
        // a connect() that was in flight when the socket closed and is dropped without a byte: asynchronous teardown
        // inside the grace the gauges below get as well - counted, not judged
        rep.count("closeonly_silent_aborted_connects_after_close", 1);
      } else {
        visitors.push(format!("{} <- silent connection held open for 2 s", ep));
      }
    }
  }
  if !visitors.is_empty() {
    rep.violation(format!("closed_socket_still_connecting|{}|{}", tr.name(), gap_kind), format!("after close() returned ({:?}) something of the closed socket connected to a listener started afterwards on its old target: {:?} ({})", close_time, visitors, cfg), json!({"config": cfg, "visitors": visitors}));
  }
  drop(listeners);
  // (b) gauges: give asynchronous teardown 3 s
  let t1 = Instant::now();
  let (mut la, mut regs, mut tasks1) = (verif::live_actors(&ctx), verif::registered_sockets(&ctx), alive_tasks());
  let peer_tasks_allow = if live_peer.is_some() { 16 } else { 0 };
  while (la > 0 || regs > 0 || tasks1 > tasks0 + peer_tasks_allow) && t1.elapsed() < util::scaled(Duration::from_secs(3)) {
    tokio::time::sleep(Duration::from_millis(50)).await;
    la = verif::live_actors(&ctx);
    regs = verif::registered_sockets(&ctx);
    tasks1 = alive_tasks();
  }
  if la > 0 {
    rep.violation(format!("actors_alive_after_close|{}|{}", tr.name(), gap_kind), format!("{} actor(s) of the context still counted alive 3 s after close() of its only socket returned ({})", la, cfg), json!({"config": cfg, "live_actors": la, "registered_sockets": regs}));
  }
  if regs > 0 {
    rep.violation(format!("socket_still_registered_after_close|{}", gap_kind), format!("{} socket(s) still registered with the context 3 s after close() returned ({})", regs, cfg), json!({"config": cfg}));
  }
  if live_peer.is_none() && tasks1 > tasks0 {
    rep.violation(format!("tasks_left_running_after_close|{}|{}", tr.name(), gap_kind), format!("{} tokio task(s) more than before are still alive 3 s after close() of the only socket returned ({})", tasks1 - tasks0, cfg), json!({"config": cfg, "before": tasks0, "after": tasks1}));
  }
  // (c) operations on the closed socket fail promptly, term() is quick
  let r = tokio::time::timeout(util::scaled(Duration::from_secs(2)), s.send(util::msg(b"x".to_vec(), false))).await;
  if r.is_err() && !matches!(st, SocketType::Pull | SocketType::Sub) {
    rep.violation(format!("send_after_close_hangs|{}", util::socket_type_name(st)), format!("send() on a closed {} did not return within 2 s ({})", util::socket_type_name(st), cfg), json!({"config": cfg}));
  }
  let tt = Instant::now();
  if tokio::time::timeout(util::scaled(Duration::from_secs(15)), ctx.term()).await.is_err() {
    rep.violation(format!("term_after_close_did_not_return|{}", gap_kind), format!("term() after close() had not returned after 15 s ({})", cfg), json!({"config": cfg}));
  } else if tt.elapsed() > util::scaled(Duration::from_secs(9)) {
    rep.violation(format!("term_after_close_only_through_internal_timeout|{}", gap_kind), format!("term() after close() took {:?} ({})", tt.elapsed(), cfg), json!({"config": cfg}));
  }
  if let Some(p) = live_peer {
    let _ = p.close().await;
  }
  let _ = tokio::time::timeout(util::scaled(Duration::from_secs(15)), peer_ctx.term()).await;
  let _ = rng;
}

fn close_only_layer(rep: &mut Report, rng: &mut Rng, args: &Args) {
  let n = args.get_usize("cases", if args.thorough() { 480 } else { 96 });
  let rts: [(&'static str, tokio::runtime::Runtime); 2] = [("current-thread", tokio::runtime::Builder::new_current_thread().enable_all().build().unwrap()), ("4-workers", util::runtime(4))];
  let types = [SocketType::Push, SocketType::Dealer, SocketType::Req, SocketType::Sub, SocketType::Router, SocketType::Pull];
  for i in 0..n {
    if !args.mine(i) {
      continue;
    }
    let (fl, rt) = &rts[i % 2];
    let st = types[(i / 2) % types.len()];
    let tr = if (i / 12) % 3 == 2 { Transport::Ipc } else { Transport::Tcp };
    let gap = match (i / 4) % 4 {
      0 => Gap::Joined,
      1 => Gap::Immediate,
      2 => Gap::Micros(rng.range(0, 3000) as u64),
      _ => Gap::Millis(*rng.pick(&[5u64, 30, 120])),
    };
    let targets = rng.range(1, 3);
    let ivl = *rng.pick(&[10, 50, 100]);
    let live = rng.chance(1, 4);
    // warm-up so that the task baseline is stable
    rt.block_on(async { tokio::time::sleep(Duration::from_millis(5)).await });
    if !util::guarded(rt, close_only_case(rep, rng, fl, st, tr, targets, gap, ivl, live)) {
      rep.inconclusive("closeonly case aborted by a harness panic".to_string());
    }
    for p in util::take_panics() {
      if p.in_rzmq {
        rep.violation(format!("panic|{}", util::panic_site(&p.location)), format!("panic at {}: {}", p.location, p.message), json!({"frames": p.backtrace_head}));
      } else {
        rep.inconclusive(format!("harness panic at {}: {}", p.location, p.message));
      }
    }
  }
  util::cleanup_ipc_dir();
}

/// (manysockets) term() of a context that holds hundreds of sockets: every stopping socket publishes its own events on
/// the context-wide bus (256 slots), so a socket can fall behind and miss the termination request itself. term() must
/// still return promptly (not through its internal 10 s wait), no actor may stay alive, and every handle must fail.
async fn many_sockets_case(rep: &mut Report, n: usize, with_traffic: bool, bound_every: usize) {
  let tasks0 = alive_tasks();
  let ctx = util::new_ctx();
  let types = [SocketType::Push, SocketType::Pull, SocketType::Dealer, SocketType::Router, SocketType::Pub, SocketType::Sub, SocketType::Req, SocketType::Rep];
  let mut socks: Vec<Socket> = vec![];
  for i in 0..n {
    let s = ctx.socket(types[i % types.len()]).unwrap();
    if bound_every > 0 && i % bound_every == 0 {
      let _ = util::bind_fresh(&s, Transport::Inproc).await;
    }
    socks.push(s);
  }
  let mut pair = None;
  if with_traffic {
    let a = ctx.socket(SocketType::Push).unwrap();
    let b = ctx.socket(SocketType::Pull).unwrap();
    if let Ok(ep) = util::bind_fresh(&b, Transport::Inproc).await {
      let _ = a.connect(&ep).await;
      let a2 = a.clone();
      tokio::spawn(async move {
        loop {
          if a2.send(util::msg(vec![7u8; 100], false)).await.is_err() {
            break;
          }
          tokio::time::sleep(Duration::from_millis(1)).await;
        }
      });
      let b2 = b.clone();
      tokio::spawn(async move { while b2.recv().await.is_ok() {} });
    }
    pair = Some((a, b));
  }
  tokio::time::sleep(Duration::from_millis(50)).await;
  let cfg = format!("one context with {} idle sockets of all eight types ({} bound to inproc names){}", n, if bound_every > 0 { n / bound_every } else { 0 }, if with_traffic { " plus one live inproc PUSH/PULL pair" } else { "" });
  let t0 = Instant::now();
  let termed = tokio::time::timeout(util::scaled(Duration::from_secs(30)), ctx.term()).await;
  let took = t0.elapsed();
  rep.case(&("manysockets", n, with_traffic, bound_every), true);
  rep.max("max:manysockets_term_ms", took.as_millis() as u64);
  if termed.is_err() {
    rep.violation("term_did_not_return|manysockets".to_string(), format!("term() had not returned after 30 s ({}); live actors {}", cfg, verif::live_actors(&ctx)), json!({"config": cfg}));
  } else if took >= util::scaled(Duration::from_secs(9)) {
    rep.violation("term_returned_only_through_internal_timeout|manysockets".to_string(), format!("term() took {:?} (its internal wait times out after 10 s); live actors right after: {} ({})", took, verif::live_actors(&ctx), cfg), json!({"config": cfg}));
  }
  // handles of a terminated context must fail, promptly
  let mut still_answering = 0;
  let mut hanging = 0;
  for s in socks.iter().chain(pair.iter().flat_map(|(a, b)| [a, b])) {
    match tokio::time::timeout(util::scaled(Duration::from_secs(2)), s.get_option(opt::RCVHWM)).await {
      Ok(Ok(_)) => still_answering += 1,
      Ok(Err(_)) => {}
      Err(_) => hanging += 1,
    }
  }
  let la = verif::live_actors(&ctx);
  if still_answering > 0 || la > 0 {
    rep.violation("actors_alive_after_term|manysockets".to_string(), format!("after term() returned ({:?}), {} of {} socket handles still answer get_option() and {} actor(s) are counted alive ({})", took, still_answering, n, la, cfg), json!({"config": cfg, "still_answering": still_answering, "live_actors": la}));
  }
  if hanging > 0 {
    rep.violation("operation_on_closed_socket_hangs|manysockets".to_string(), format!("{} get_option() calls on sockets of a terminated context did not return within 2 s ({})", hanging, cfg), json!({"config": cfg}));
  }
  drop(socks);
  drop(pair);
  drop(ctx);
  let t2 = Instant::now();
  let mut tasks1 = alive_tasks();
  while tasks1 > tasks0 && t2.elapsed() < util::scaled(Duration::from_secs(3)) {
    tokio::time::sleep(Duration::from_millis(50)).await;
    tasks1 = alive_tasks();
  }
  if tasks1 > tasks0 {
    rep.violation("tasks_left_running|manysockets".to_string(), format!("{} tokio task(s) more than before are still alive 3 s after term() ({})", tasks1 - tasks0, cfg), json!({"config": cfg}));
  }
}

fn gen_plan(rng: &mut Rng) -> Plan {
  let all = [
    (SocketType::Pull, SocketType::Push),
    (SocketType::Push, SocketType::Pull),
    (SocketType::Router, SocketType::Dealer),
    (SocketType::Dealer, SocketType::Router),
    (SocketType::Rep, SocketType::Req),
    (SocketType::Pub, SocketType::Sub),
    (SocketType::Sub, SocketType::Pub),
  ];
  let n = rng.range(1, 3);
  let tr = *rng.pick(&[Transport::Tcp, Transport::Tcp, Transport::Ipc, Transport::Inproc]);
  let pairs: Vec<_> = (0..n).map(|_| *rng.pick(&all)).collect();
  Plan {
    tr,
    pairs,
    inject: *rng.pick(&[Inject::TermOnly, Inject::CloseAllThenTerm, Inject::CloseSomeThenTerm, Inject::ConcurrentCloseAndTerm, Inject::DropHandlesThenTerm]),
    delay_ms: *rng.pick(&[0u64, 1, 5, 20, 60, 150]),
    dead_port_connect: rng.chance(1, 3),
    stalled_raw_peer: rng.chance(1, 3),
    hwm: *rng.pick(&[1, 4, 100]),
  }
}

fn main() {
  let args = Args::parse();
  util::install_panic_watch();
  let mut rep = Report::new("C16", &args.shard_name());
  let mut rng = Rng::new(args.seed.wrapping_mul(295075147).wrapping_add(args.shard as u64));
  if args.only.as_deref() == Some("rpqclose") {
    rpq_close_layer(&mut rep, &mut rng);
    rep.merge_hooks();
    rep.emit();
    return;
  }
  if args.only.as_deref() == Some("manysockets") {
    let rt = util::runtime(4);
    let grid: &[(usize, bool, usize)] = if args.thorough() { &[(300, false, 0), (420, true, 0), (600, true, 7), (270, false, 3), (1000, true, 0)] } else { &[(300, false, 0), (420, true, 0), (600, true, 7)] };
    for (i, (n, traffic, bound)) in grid.iter().enumerate() {
      if args.mine(i) {
        rt.block_on(async { tokio::time::sleep(Duration::from_millis(20)).await });
        if !util::guarded(&rt, many_sockets_case(&mut rep, *n, *traffic, *bound)) {
          rep.inconclusive("manysockets case aborted by a harness panic".to_string());
        }
      }
    }
    for p in util::take_panics() {
      if p.in_rzmq {
        rep.violation(format!("panic|{}", util::panic_site(&p.location)), format!("panic at {}: {}", p.location, p.message), json!({"frames": p.backtrace_head}));
      }
    }
    rep.merge_hooks();
    rep.emit();
    return;
  }
  if args.only.as_deref() == Some("closeonly") {
    close_only_layer(&mut rep, &mut rng, &args);
    rep.merge_hooks();
    rep.emit();
    return;
  }
  if args.only.as_deref() == Some("attachrace") {
    let rt = util::runtime(4);
    let pairs = [(SocketType::Sub, SocketType::Pub), (SocketType::Pull, SocketType::Push), (SocketType::Dealer, SocketType::Router), (SocketType::Router, SocketType::Dealer), (SocketType::Rep, SocketType::Req)];
    let n = args.get_usize("cases", if args.thorough() { 400 } else { 80 });
    for i in 0..n {
      if !args.mine(i) {
        continue;
      }
      let (rx_t, tx_t) = pairs[i % pairs.len()];
      let tr = if (i / pairs.len()) % 2 == 0 { Transport::Tcp } else { Transport::Ipc };
      let delay = rng.range(0, 4000) as u64;
      let use_close = rng.chance(2, 3);
      if !util::guarded(&rt, attach_race_case(&mut rep, rx_t, tx_t, tr, delay, use_close)) {
        rep.inconclusive("attachrace case aborted by a harness panic".to_string());
      }
    }
    for p in util::take_panics() {
      if p.in_rzmq {
        rep.violation(format!("panic|{}", util::panic_site(&p.location)), format!("panic at {}: {}", p.location, p.message), json!({"frames": p.backtrace_head}));
      }
    }
    util::cleanup_ipc_dir();
    rep.merge_hooks();
    rep.emit();
    return;
  }
  let rt = util::runtime(4);
  // warm the runtime so that baselines are stable
  rt.block_on(async {
    tokio::time::sleep(Duration::from_millis(20)).await;
  });
  let budget = Duration::from_secs(if args.thorough() { 600 } else { 60 });
  let t0 = Instant::now();
  let mut i = 0;
  while t0.elapsed() < budget {
    let plan = gen_plan(&mut rng);
    let mut r2 = rng.fork(i);
    if !util::guarded(&rt, async {
      history(&mut rep, &mut r2, &plan).await;
    }) {
      rep.inconclusive(format!("history aborted by a panic on the harness stack: {:?}", plan));
    }
    for p in util::take_panics() {
      if p.in_rzmq {
        rep.violation(format!("panic|{}", util::panic_site(&p.location)), format!("panic at {}: {} ({:?})", p.location, p.message, plan), json!({"frames": p.backtrace_head, "thread": p.thread}));
      } else {
        rep.inconclusive(format!("harness panic at {}: {}", p.location, p.message));
      }
    }
    if i < 2 {
      rep.sample(json!({"plan": format!("{:?}", plan)}));
    }
    i += 1;
  }
  util::cleanup_ipc_dir();
  rep.merge_hooks();
  rep.emit();
}

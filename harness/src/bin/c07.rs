//! C07 — no byte stream from a peer can crash rzmq or make it buffer without bound.
//! Layers: `engine` (man-in-the-middle mutation of live handshakes + hostile data-phase streams,
//! panic hook + invariants after every call), `limits` (MAXMSGSIZE exact/limit+1 on every decoder
//! entry point, bounded buffering), `session` (hostile raw peer beside a healthy one on a real
//! socket), `pacing` (handshake interval against drip-feeding peers; connection-slot release).

use bytes::{Bytes, BytesMut};
use rzmq::protocol::zmtp::manual_parser::ZmtpManualParser;
use rzmq::socket::options as opt;
use rzmq::verif::{EngineCfg, Framer};
use rzmq::SocketType;
use serde_json::json;
use std::panic::{catch_unwind, AssertUnwindSafe};
use std::time::{Duration, Instant};
use vh::args::Args;
use vh::enginepair::{Pair, Side};
use vh::gen::Rng;
use vh::oracles::{self, SendStatus, SentMsg};
use vh::rawpeer::RawStream;
use vh::refzmtp::{self, Frame};
use vh::report::{hex, Report};
use vh::util;

#[derive(Clone, Copy, Debug, PartialEq, Eq, Hash)]
enum Mech {
  Null,
  Plain,
  Curve,
  Noise,
}
const MECHS: [Mech; 4] = [Mech::Null, Mech::Plain, Mech::Curve, Mech::Noise];

fn k32(r: &mut Rng) -> [u8; 32] {
  let mut k = [0u8; 32];
  k.copy_from_slice(&r.bytes(32));
  k
}

fn cfg_pair(m: Mech, r: &mut Rng, maxmsg: i64) -> (EngineCfg, EngineCfg) {
  let c = EngineCfg::new("DEALER").routing_id(Some(b"cli")).max_msg_size(maxmsg);
  let s = EngineCfg::new("ROUTER").max_msg_size(maxmsg);
  match m {
    Mech::Null => (c, s),
    Mech::Plain => (c.plain(Some("u"), Some("p")), s.plain(Some("u"), Some("p"))),
    Mech::Curve => {
      let ks = rzmq::verif::curve_keypair_from(k32(r));
      let kc = rzmq::verif::curve_keypair_from(k32(r));
      (c.curve(kc.0, Some(ks.1)), s.curve(ks.0, None))
    }
    Mech::Noise => {
      let ks = rzmq::verif::noise_keypair_from(k32(r));
      let kc = rzmq::verif::noise_keypair_from(k32(r));
      (c.noise_xx(kc.0, Some(ks.1)), s.noise_xx(ks.0, None))
    }
  }
}

const EXTREMES: [u64; 8] = [0, 255, 256, 1 << 31, 1 << 63, u64::MAX, 65536, 0x7FFF_FFFF_FFFF_FFFF];

fn mutate(rng: &mut Rng, chunk: &[u8]) -> (Vec<u8>, String) {
  let mut v = chunk.to_vec();
  let kind = rng.below(10);
  let name;
  match kind {
    0 | 1 => {
      if !v.is_empty() {
        let i = rng.below(v.len() as u64) as usize;
        v[i] ^= 1 << rng.below(8);
      }
      name = "bitflip";
    }
    2 => {
      let n = rng.range(0, v.len());
      v.truncate(n);
      name = "truncate";
    }
    3 => {
      // overwrite a plausible length field: find a frame header and set an extreme length
      let ext = *rng.pick(&EXTREMES);
      if v.len() >= 9 {
        let i = rng.range(0, v.len() - 9);
        v[i] |= 0x02;
        v[i + 1..i + 9].copy_from_slice(&ext.to_be_bytes());
      } else if v.len() >= 2 {
        v[1] = ext as u8;
      }
      name = "length_extreme";
    }
    4 => {
      let d = v.clone();
      v.extend_from_slice(&d);
      name = "duplicate";
    }
    5 => {
      let at = rng.range(0, v.len());
      let junk = rng.bytes_in(1, 64);
      v.splice(at..at, junk);
      name = "inject_junk";
    }
    6 => {
      // invalid UTF-8 / high bytes in the middle (metadata keys etc.)
      for _ in 0..rng.range(1, 6) {
        if !v.is_empty() {
          let i = rng.below(v.len() as u64) as usize;
          v[i] = *rng.pick(&[0xFFu8, 0xC0, 0x80, 0xFE, 0x00]);
        }
      }
      name = "bad_utf8";
    }
    7 => {
      if v.len() > 2 {
        let i = rng.range(0, v.len() - 2);
        v[i] = rng.below(256) as u8;
        v[i + 1] = rng.below(256) as u8;
      }
      name = "two_bytes";
    }
    8 => {
      v = rng.bytes_in(1, 200);
      name = "random_bytes";
    }
    _ => {
      // swap halves (reorder)
      let m = v.len() / 2;
      v.rotate_left(m);
      name = "reorder";
    }
  }
  (v, name.to_string())
}

struct Inv {
  maxmsg: i64,
}

impl Inv {
  /// Buffered bytes while a frame is incomplete must stay within limit + header + one read.
  fn check_buffer(&self, rep: &mut Report, side: &Side, last_read: usize, ctx: &str) {
    if self.maxmsg >= 0 && !side.closed() {
      let bound = self.maxmsg as usize + 9 + last_read + 2 + 65535 + 16; // + one encrypted record
      let have = side.eng.buffer_len();
      rep.max("max:buffer_len_seen", have as u64);
      if have > bound {
        rep.violation("unbounded_buffering".to_string(), format!("engine holds {} bytes with MAXMSGSIZE={} (bound {}) {}", have, self.maxmsg, bound, ctx), json!({"buffer_len": have, "maxmsgsize": self.maxmsg}));
      }
    }
  }
}

fn report_panics(rep: &mut Report, ctx: &str) -> bool {
  let ps = util::take_panics();
  let mut any = false;
  for p in ps {
    any = true;
    if p.in_rzmq || p.location.contains("/repo/") {
      rep.violation(format!("panic|{}", util::panic_site(&p.location)), format!("panic at {}: {} ({})", p.location, p.message, ctx), json!({"context": ctx, "frames": p.backtrace_head, "thread": p.thread}));
    } else {
      rep.inconclusive(format!("harness panic at {}: {} ({})", p.location, p.message, ctx));
    }
  }
  any
}

/// Man-in-the-middle on a live handshake / data exchange: the honest peer keeps answering, the
/// harness mutates `n_mut` of the chunks in flight.
fn mitm_case(rep: &mut Report, rng: &mut Rng, m: Mech, maxmsg: i64, attack_server: bool) {
  let (c, s) = cfg_pair(m, rng, maxmsg);
  let mut p = Pair::new(&c, false, &s, true);
  let inv = Inv { maxmsg };
  let mut muts: Vec<String> = vec![];
  let ctxname = format!("mech={:?} maxmsg={} victim={}", m, maxmsg, if attack_server { "server" } else { "client" });
  let r = catch_unwind(AssertUnwindSafe(|| {
    p.start();
    let mut data_sent = false;
    for step in 0..400 {
      let ea = p.a.inbox.is_empty();
      let eb = p.b.inbox.is_empty();
      if ea && eb {
        if p.a.in_data() && p.b.in_data() && !data_sent {
          // push some application traffic through so the data phase is attacked as well
          for i in 0..3 {
            let _ = p.app_send(attack_server, &[rng.bytes(20 + i * 100), rng.bytes(5)]);
          }
          data_sent = true;
          continue;
        }
        break;
      }
      let to_a = if ea { false } else if eb { true } else { rng.chance(1, 2) };
      let victim_receives = to_a != attack_server; // server is b
      let avail = if to_a { p.a.inbox.len() } else { p.b.inbox.len() };
      let n = match rng.below(4) {
        0 => 1,
        1 => rng.range(1, 16),
        2 => avail,
        _ => rng.range(1, avail),
      };
      if victim_receives && rng.chance(1, 4) {
        // mutate this chunk in flight
        let (dst, src) = if to_a { (&mut p.a, &mut p.b) } else { (&mut p.b, &mut p.a) };
        let k = n.min(dst.inbox.len());
        let chunk: Vec<u8> = dst.inbox.drain(..k).collect();
        let (bad, name) = mutate(rng, &chunk);
        muts.push(format!("step{}:{}({}B->{}B)", step, name, chunk.len(), bad.len()));
        if !dst.closed() {
          let wire = dst.feed(&bad);
          if !src.closed() {
            src.inbox.extend(wire);
          }
          let l = bad.len();
          let dref: &Side = dst;
          inv.check_buffer(rep, dref, l, &ctxname);
        }
      } else {
        p.deliver(to_a, n);
      }
    }
  }));
  rep.case(&(m, maxmsg, attack_server, &muts), !muts.is_empty());
  let ctx = format!("{} mutations={:?}", ctxname, muts);
  let had = report_panics(rep, &ctx);
  if r.is_err() && !had {
    rep.inconclusive(format!("unwound without recorded panic: {}", ctx));
  }
}

/// Hostile data-phase streams against a NULL engine already in Data.
fn data_phase_case(rep: &mut Report, rng: &mut Rng, maxmsg: i64, which: usize) {
  let cfg = EngineCfg::new("ROUTER").max_msg_size(maxmsg);
  let mut side = Side::new(cfg.engine(true));
  let o = side.eng.start();
  let _ = side.absorb(o);
  let _ = side.feed(&refzmtp::null_client_handshake("DEALER", None));
  if !side.in_data() {
    rep.inconclusive("no data phase".to_string());
    return;
  }
  let inv = Inv { maxmsg };
  let name;
  let mut stream: Vec<u8> = vec![];
  match which % 6 {
    0 => {
      name = "many_more_frames";
      let n = *rng.pick(&[254usize, 255, 256, 257, 300, 1000]);
      for i in 0..n {
        refzmtp::encode_frame(&Frame::data(&[i as u8], true), &mut stream);
      }
      refzmtp::encode_frame(&Frame::data(b"end", false), &mut stream);
    }
    1 => {
      name = "length_extreme_header";
      stream.push(0x02);
      stream.extend_from_slice(&rng.pick(&EXTREMES).to_be_bytes());
      stream.extend(rng.bytes_in(0, 300));
    }
    2 => {
      name = "random_bytes";
      stream = rng.bytes_in(1, 4000);
    }
    3 => {
      name = "command_garbage";
      for _ in 0..rng.range(1, 20) {
        let body = rng.bytes_in(0, 40);
        refzmtp::encode_frame(&Frame { more: rng.chance(1, 4), command: true, body }, &mut stream);
      }
    }
    4 => {
      name = "reserved_flag_bits";
      for _ in 0..rng.range(1, 30) {
        let body = rng.bytes_in(0, 20);
        stream.push(rng.below(256) as u8 & !0x02);
        stream.push(body.len() as u8);
        stream.extend(body);
      }
    }
    _ => {
      name = "trickled_big_frame";
      // declare a frame at/over the limit and trickle its body
      let declared = if maxmsg >= 0 { (maxmsg as u64).saturating_add(rng.below(3)).saturating_sub(1) } else { 3_000_000 };
      stream.push(0x02);
      stream.extend_from_slice(&declared.to_be_bytes());
      stream.extend(rng.bytes((declared as usize).min(200_000)));
    }
  }
  let ctx = format!("data-phase stream {} ({} bytes) maxmsg={}", name, stream.len(), maxmsg);
  let r = catch_unwind(AssertUnwindSafe(|| {
    let mut off = 0;
    while off < stream.len() && !side.closed() {
      let n = match rng.below(4) {
        0 => 1,
        1 => rng.range(1, 9),
        2 => rng.range(1, 4096),
        _ => stream.len() - off,
      }
      .min(stream.len() - off);
      let _ = side.feed(&stream[off..off + n]);
      off += n;
      inv.check_buffer(rep, &side, n, &ctx);
    }
  }));
  rep.case(&(name, maxmsg, stream.len(), hex(&stream[..stream.len().min(24)])), true);
  let had = report_panics(rep, &ctx);
  if r.is_err() && !had {
    rep.inconclusive(format!("unwound without recorded panic: {}", ctx));
  }
  if name == "many_more_frames" && !side.closed() && side.delivered.iter().any(|m| m.len() < 255 && m.last().map(|f| f.as_slice()) == Some(b"end")) {
    rep.violation("oversized_multipart_delivered_truncated".to_string(), "a message with more frames than supported was delivered truncated".to_string(), json!({"delivered_frames": side.delivered.iter().map(|m| m.len()).collect::<Vec<_>>()}));
  }
}

/// Hand-crafted CURVE handshake tokens with short / missing fields (the random MITM reaches
/// these only rarely): every one must end in an error, never a panic.
fn curve_crafted_cases(rep: &mut Report, rng: &mut Rng) {
  let md = |k: &str, v: &[u8]| refzmtp::metadata(&[(k, v)]);
  let mut pad = |mut b: Vec<u8>, n: usize| {
    b.resize(n.max(b.len()), 0);
    b
  };
  let hello_ok = pad([b"\x05HELLO".to_vec(), md("Public-Key-Client", &rng.bytes(32))].concat(), 198);
  let server_scripts: Vec<(&str, Vec<Vec<u8>>)> = vec![
    ("initiate_short_ciphertext", vec![hello_ok.clone(), pad([b"\x08INITIATE".to_vec(), md("Ciphertext", &[1, 2, 3])].concat(), 137)]),
    ("initiate_empty_ciphertext", vec![hello_ok.clone(), [b"\x08INITIATE".to_vec(), md("Ciphertext", &[])].concat()]),
    ("initiate_without_hello", vec![pad([b"\x08INITIATE".to_vec(), md("Ciphertext", &rng.bytes(80))].concat(), 137)]),
    ("hello_short_key", vec![pad([b"\x05HELLO".to_vec(), md("Public-Key-Client", &[9u8; 5])].concat(), 198)]),
    ("hello_bad_utf8_key", vec![[b"\x05HELLO".to_vec(), vec![3, 0xFF, 0xFE, 0xC0, 0, 0, 0, 1, 7]].concat()]),
    ("hello_truncated_value_len", vec![[b"\x05HELLO".to_vec(), vec![3, b'a', b'b', b'c', 0, 0]].concat()]),
  ];
  let client_scripts: Vec<(&str, Vec<Vec<u8>>)> = vec![
    ("welcome_short_cookie", vec![pad([b"\x07WELCOME".to_vec(), md("Cookie", &[1, 2, 3, 4, 5])].concat(), 136)]),
    ("welcome_empty_cookie", vec![[b"\x07WELCOME".to_vec(), md("Cookie", &[])].concat()]),
    ("welcome_no_cookie", vec![pad(b"\x07WELCOME".to_vec(), 136)]),
    ("welcome_bad_utf8_key", vec![[b"\x07WELCOME".to_vec(), vec![2, 0xFF, 0xFF, 0, 0, 0, 0]].concat()]),
  ];
  for (victim_server, scripts) in [(true, server_scripts), (false, client_scripts)] {
    for (name, toks) in scripts {
      let (c, s) = cfg_pair(Mech::Curve, rng, -1);
      let mut side = Side::new(if victim_server { s.engine(true) } else { c.engine(false) });
      let ctx = format!("crafted CURVE script {} against the {}", name, if victim_server { "server" } else { "client" });
      let r = catch_unwind(AssertUnwindSafe(|| {
        let o = side.eng.start();
        let _ = side.absorb(o);
        let _ = side.feed(&refzmtp::greeting_v3(0, "CURVE", !victim_server));
        for t in &toks {
          let mut w = vec![];
          refzmtp::encode_frame(&Frame::cmd(t), &mut w);
          let _ = side.feed(&w);
        }
      }));
      rep.case(&("curve_crafted", name, victim_server), true);
      let had = report_panics(rep, &ctx);
      if r.is_err() && !had {
        rep.inconclusive(format!("unwound without recorded panic: {}", ctx));
      }
      if r.is_ok() && (side.hs.is_some() || side.in_data()) {
        rep.violation(format!("crafted_curve_token_accepted|{}", name), format!("{} completed the handshake", ctx), json!({}));
      }
    }
  }
}

fn engine_layer(rep: &mut Report, args: &Args, rng: &mut Rng) {
  if args.shard == 0 {
    curve_crafted_cases(rep, rng);
  }
  let n = if args.thorough() { 3000 } else { 250 };
  let maxes: [i64; 4] = [-1, 0, 64, 1 << 20];
  for i in 0..n {
    let m = MECHS[i % 4];
    let maxmsg = maxes[(i / 4) % 4];
    mitm_case(rep, rng, m, maxmsg, i % 2 == 0);
    // (MAXMSGSIZE=0 refuses the READY command itself, so the data phase is unreachable there)
    data_phase_case(rep, rng, if maxmsg == 0 { 100 } else { maxmsg }, i);
  }
  rep.sample(json!({"mitm_cases": n, "data_phase_cases": n, "mutation_kinds": ["bitflip", "truncate", "length_extreme", "duplicate", "inject_junk", "bad_utf8", "two_bytes", "random_bytes", "reorder"], "maxmsgsize": maxes}));
}

// ---- limits ------------------------------------------------------------------------------------

fn limits_layer(rep: &mut Report, _args: &Args, rng: &mut Rng) {
  // For every decoder entry point: a frame of exactly the limit is accepted, limit+1 rejected.
  for limit in [0i64, 1, 64, 255, 256, 1000, 65535, 65536, 100_000] {
    for delta in [-1i64, 0, 1] {
      let len = limit + delta;
      if len < 0 {
        continue;
      }
      let body = rng.bytes(len as usize);
      for more in [false, true] {
        let mut enc = vec![];
        refzmtp::encode_frame(&Frame::data(&body, more), &mut enc);
        let expect_ok = delta <= 0;
        let ctx = format!("limit={} frame_len={}", limit, len);
        let mut judge = |rep: &mut Report, name: &str, r: std::thread::Result<Result<bool, String>>| {
          rep.case(&(name, limit, delta, more), true);
          match r {
            Err(_) => {
              report_panics(rep, &format!("{} {}", name, ctx));
            }
            Ok(Ok(delivered)) => {
              if expect_ok && !delivered {
                rep.violation(format!("limit_frame_not_accepted|{}", name), format!("{}: a frame of {} bytes (limit {}) was not decoded", name, len, limit), json!({"limit": limit, "len": len}));
              }
              if !expect_ok && delivered {
                rep.violation(format!("over_limit_frame_accepted|{}", name), format!("{}: a frame of {} bytes was accepted although MAXMSGSIZE={}", name, len, limit), json!({"limit": limit, "len": len}));
              }
            }
            Ok(Err(e)) => {
              if expect_ok {
                rep.violation(format!("limit_frame_rejected|{}", name), format!("{}: a frame of {} bytes (<= limit {}) was rejected: {}", name, len, limit, e), json!({"limit": limit, "len": len}));
              }
            }
          }
        };
        let p = ZmtpManualParser::new(limit);
        judge(rep, "decode_frame_from_slice", catch_unwind(AssertUnwindSafe(|| p.decode_frame_from_slice(&enc).map(|o| o.is_some()).map_err(|e| e.to_string()))));
        judge(rep, "decode_frame_from_bytes", catch_unwind(AssertUnwindSafe(|| p.decode_frame_from_bytes(&Bytes::from(enc.clone())).map(|o| o.is_some()).map_err(|e| e.to_string()))));
        judge(rep, "peek_frame_len", catch_unwind(AssertUnwindSafe(|| p.peek_frame_len(&enc).map(|o| o == Some(enc.len())).map_err(|e| e.to_string()))));
        judge(rep, "decode_from_buffer", catch_unwind(AssertUnwindSafe(|| {
          let mut pp = ZmtpManualParser::new(limit);
          let mut b = BytesMut::from(&enc[..]);
          pp.decode_from_buffer(&mut b).map(|o| o.is_some()).map_err(|e| e.to_string())
        })));
        judge(rep, "nullframer.try_read_msg", catch_unwind(AssertUnwindSafe(|| {
          let mut fr = Framer::null(limit, 4, 64);
          let mut b = BytesMut::from(&enc[..]);
          fr.try_read_msg(&mut b).map(|o| o.is_some()).map_err(|e| e.to_string())
        })));
        // engine in data phase (only where the READY command itself fits under the limit)
        // engine after a ZMTP/2.0 handshake (no READY exchange: the framer of the greeting phase stays in charge), as
        // listener and as connector
        for as_server in [true, false] {
          judge(rep, if as_server { "engine_v2_listener" } else { "engine_v2_connector" }, catch_unwind(AssertUnwindSafe(|| {
            let cfg = EngineCfg::new("PULL").max_msg_size(limit);
            let mut side = Side::new(cfg.engine(as_server));
            let o = side.eng.start();
            let _ = side.absorb(o);
            let _ = side.feed(&refzmtp::greeting_v2(refzmtp::V2_PUSH, b""));
            if !side.in_data() {
              return Err(format!("v2 handshake did not reach the data phase: {:?}", side.errors));
            }
            let mut e2 = vec![];
            refzmtp::encode_frame(&Frame::data(&body, false), &mut e2);
            let _ = side.feed(&e2);
            if side.closed() {
              Err(side.errors.join(";"))
            } else {
              Ok(side.delivered.len() == 1)
            }
          })));
        }
        if limit >= 64 {
        judge(rep, "engine", catch_unwind(AssertUnwindSafe(|| {
          let cfg = EngineCfg::new("PULL").max_msg_size(limit);
          let mut side = Side::new(cfg.engine(true));
          let o = side.eng.start();
          let _ = side.absorb(o);
          let _ = side.feed(&refzmtp::null_client_handshake("PUSH", None));
          if !side.in_data() {
            return Err("handshake".into());
          }
          let mut e2 = vec![];
          refzmtp::encode_frame(&Frame::data(&body, false), &mut e2);
          let _ = side.feed(&e2);
          if side.closed() {
            Err(side.errors.join(";"))
          } else {
            Ok(side.delivered.len() == 1)
          }
        })));
        }
      }
    }
  }
  // Before the handshake is over: a peer that has sent its greeting but no READY yet announces a frame larger than
  // MAXMSGSIZE and starts feeding its body. The connection must be refused at the header - not buffer the body.
  for limit in [64i64, 1000, 65536] {
    for (mechname, greeting) in [("NULL", refzmtp::greeting_raw(3, 0, b"NULL", false)), ("NULL-3.1", refzmtp::greeting_raw(3, 1, b"NULL", false))] {
      for command in [false, true] {
        let cfg = EngineCfg::new("PULL").max_msg_size(limit);
        let mut side = Side::new(cfg.engine(true));
        let o = side.eng.start();
        let _ = side.absorb(o);
        let _ = side.feed(&greeting);
        let declared = (limit as u64) + 1 + rng.below(100_000);
        let mut hdr = vec![if command { 0x06u8 } else { 0x02u8 }];
        hdr.extend_from_slice(&declared.to_be_bytes());
        let _ = side.feed(&hdr);
        let mut fed = 0u64;
        let mut max_buf = 0usize;
        while !side.closed() && fed < declared.min(200_000) {
          let chunk = vec![0x41u8; 4096.min((declared - fed) as usize)];
          let _ = side.feed(&chunk);
          fed += chunk.len() as u64;
          max_buf = max_buf.max(side.eng.buffer_len());
        }
        rep.case(&("pre_ready_oversize", limit, mechname, command), true);
        if !side.closed() || fed > 8192 {
          rep.violation(
            format!("oversize_frame_before_ready_not_refused_at_header|{}", if command { "command" } else { "data" }),
            format!("MAXMSGSIZE={}: a {} frame announcing {} bytes sent after the greeting and before READY was not refused at its header: {} body bytes were taken (buffer peak {} bytes), closed={}", limit, if command { "COMMAND" } else { "data" }, declared, fed, max_buf, side.closed()),
            json!({"limit": limit, "declared": declared, "fed": fed, "closed": side.closed()}),
          );
        }
      }
    }
  }
  // Header extremes on the stateless decoders with MAXMSGSIZE=-1 (no limit): must not panic.
  for ext in EXTREMES {
    let mut hdr = vec![0x02u8];
    hdr.extend_from_slice(&ext.to_be_bytes());
    hdr.extend_from_slice(&[0u8; 16]);
    for limit in [-1i64, 1 << 40] {
      let p = ZmtpManualParser::new(limit);
      for (name, r) in [
        ("decode_frame_from_slice", catch_unwind(AssertUnwindSafe(|| p.decode_frame_from_slice(&hdr).map(|_| ()).map_err(|e| e.to_string())))),
        ("decode_frame_from_bytes", catch_unwind(AssertUnwindSafe(|| p.decode_frame_from_bytes(&Bytes::from(hdr.clone())).map(|_| ()).map_err(|e| e.to_string())))),
        ("peek_frame_len", catch_unwind(AssertUnwindSafe(|| p.peek_frame_len(&hdr).map(|_| ()).map_err(|e| e.to_string())))),
      ] {
        rep.case(&(name, "extreme", ext, limit), true);
        if r.is_err() {
          report_panics(rep, &format!("{} with declared length {} and MAXMSGSIZE={}", name, ext, limit));
        }
      }
    }
  }
  rep.exhaustive_parts.push("MAXMSGSIZE limit/limit-1/limit+1 on all six decoder entry points for limits {0,1,64,255,256,1000,65535,65536,100000}".into());
  rep.sample(json!({"limits": [0, 1, 64, 255, 256, 1000, 65535, 65536, 100000], "deltas": [-1, 0, 1], "entry_points": ["decode_frame_from_slice", "decode_frame_from_bytes", "peek_frame_len", "decode_from_buffer", "nullframer.try_read_msg", "engine"]}));
}

// ---- session layer -----------------------------------------------------------------------------

fn hostile_stream(rng: &mut Rng, which: usize) -> (String, Vec<u8>) {
  let hs = refzmtp::null_client_handshake("PUSH", None);
  match which % 8 {
    0 => ("random_garbage".into(), rng.bytes_in(1, 500)),
    1 => ("bad_signature".into(), {
      let mut g = refzmtp::greeting_v3(0, "NULL", false);
      g[0] = 0xFE;
      g
    }),
    2 => ("greeting_then_garbage".into(), {
      let mut v = refzmtp::greeting_v3(0, "NULL", false);
      v.extend(rng.bytes(200));
      v
    }),
    3 => ("256_more_frames".into(), {
      let mut v = hs.clone();
      for i in 0..300 {
        refzmtp::encode_frame(&Frame::data(&[i as u8], true), &mut v);
      }
      refzmtp::encode_frame(&Frame::data(b"end", false), &mut v);
      v
    }),
    4 => ("huge_declared_length".into(), {
      let mut v = hs.clone();
      v.push(0x02);
      v.extend_from_slice(&u64::MAX.to_be_bytes());
      v.extend(rng.bytes(100));
      v
    }),
    5 => ("ready_bad_metadata".into(), {
      let mut v = refzmtp::greeting_v3(0, "NULL", false);
      let mut body = b"\x05READY".to_vec();
      body.extend_from_slice(&[0x0b]);
      body.extend_from_slice(b"Socket-Type");
      body.extend_from_slice(&[0xFF, 0xFF, 0xFF, 0xFF]);
      body.extend_from_slice(b"PUSH");
      refzmtp::encode_frame(&Frame::cmd(&body), &mut v);
      v
    }),
    6 => ("over_maxmsgsize".into(), {
      let mut v = hs.clone();
      refzmtp::encode_frame(&Frame::data(&rng.bytes(5000), false), &mut v);
      v
    }),
    _ => ("mutated_handshake".into(), {
      let (m, _) = mutate(rng, &hs);
      m
    }),
  }
}

async fn session_case(rep: &mut Report, rng: &mut Rng, t: util::Transport, which: usize) {
  let ctx = util::new_ctx();
  let pull = ctx.socket(SocketType::Pull).unwrap();
  util::set_maxmsgsize(&pull, 4096).await;
  util::set_i32(&pull, opt::HANDSHAKE_IVL, 1000).await;
  util::set_i32(&pull, opt::RCVTIMEO, 3000).await;
  let ep = match util::bind_fresh(&pull, t).await {
    Ok(e) => e,
    Err(e) => {
      rep.inconclusive(format!("bind: {e}"));
      return;
    }
  };
  let push = ctx.socket(SocketType::Push).unwrap();
  util::set_i32(&push, opt::SNDTIMEO, 3000).await;
  push.connect(&ep).await.unwrap();
  let run = (rng.next() & 0xFFFF) as u32;
  let mut sent: Vec<SentMsg> = vec![];
  let mut received: Vec<Vec<Vec<u8>>> = vec![];
  let (name, stream) = hostile_stream(rng, which);
  let mut hostile_closed: Option<bool> = None;
  // healthy traffic: 10 before, hostile bytes, 10 during/after
  for phase in 0..2 {
    for i in 0..10u32 {
      let seq = phase * 10 + i;
      let lens = vec![vh::payload::HDR + (seq as usize * 7) % 300];
      let frames = oracles::build_message(run, 1, seq, u32::MAX, &lens);
      let r = push.send(util::msg(frames[0].clone(), false)).await;
      sent.push(SentMsg { sender: 1, seq, dest: u32::MAX, frame_lens: lens, status: if r.is_ok() { SendStatus::Accepted } else { SendStatus::Maybe } });
    }
    if phase == 0 {
      match RawStream::connect(&ep).await {
        Ok(mut raw) => {
          let cuts = rng.cuts_in(stream.len(), 0, 4);
          let segs = vh::gen::split_at_cuts(&stream, &cuts);
          let _ = raw.write_segments(&segs, Duration::from_millis(2)).await;
          hostile_closed = Some(raw.wait_closed(Duration::from_millis(2500)).await.is_some());
        }
        Err(e) => rep.inconclusive(format!("raw connect: {e}")),
      }
    }
  }
  let want = oracles::accepted_ids(&sent).len();
  let t0 = Instant::now();
  while received.len() < want && t0.elapsed() < Duration::from_secs(8) {
    match pull.recv_multipart().await {
      Ok(fr) => received.push(fr.into_iter().map(|m| m.data().unwrap_or(&[]).to_vec()).collect()),
      Err(_) => break,
    }
  }
  rep.case(&("session", t, &name, stream.len()), true);
  // hostile data must never be delivered: everything received must be the healthy peer's
  let f = oracles::check_receiver(run, &sent, &received, None, true);
  if !f.ok() {
    rep.violation(format!("healthy_connection_disturbed|{}|{}|{}", t.name(), name, f.kinds().join("+")), format!("while a hostile raw peer played '{}' over {}, the healthy PUSH->PULL connection of the same socket {}", name, t.name(), f.kinds().join("+")), json!({"hostile": name, "findings": f.to_json()}));
  }
  if hostile_closed == Some(false) && name != "over_maxmsgsize_ok" {
    rep.violation(format!("hostile_connection_not_closed|{}|{}", t.name(), name), format!("hostile raw peer playing '{}' over {} was still connected 2.5 s later", name, t.name()), json!({"hostile": name, "stream_head": hex(&stream[..stream.len().min(32)])}));
  }
  // API still responsive
  let alive = tokio::time::timeout(Duration::from_secs(3), pull.get_option(opt::RCVHWM)).await;
  if !matches!(alive, Ok(Ok(_))) {
    rep.violation(format!("socket_unresponsive_after_hostile_peer|{}", name), format!("get_option on the listener failed/hung after hostile peer '{}': {:?}", name, alive.map(|r| r.map(|_| ()))), json!({}));
  }
  report_panics(rep, &format!("session layer, hostile='{}' over {}", name, t.name()));
  let _ = tokio::time::timeout(Duration::from_secs(12), ctx.term()).await;
}

// ---- pacing ------------------------------------------------------------------------------------

/// Peers that never finish the handshake must be disconnected within the handshake interval,
/// however they pace their bytes.
async fn pacing_case(rep: &mut Report, mode: &str, ivl_ms: u64) {
  let ctx = util::new_ctx();
  let pull = ctx.socket(SocketType::Pull).unwrap();
  // ivl_ms == 0: the option is left alone - the library's own default interval applies (15 s in this tree; libzmq's
  // is 30 s), and the peer must be gone within 40 s however it paces its bytes
  let default_ivl = ivl_ms == 0;
  if !default_ivl {
    util::set_i32(&pull, opt::HANDSHAKE_IVL, ivl_ms as i32).await;
  }
  let ep = util::bind_fresh(&pull, util::Transport::Tcp).await.unwrap();
  let mut raw = RawStream::connect(&ep).await.unwrap();
  let greeting = refzmtp::greeting_v3(0, "NULL", false);
  let bound = if default_ivl { Duration::from_secs(40) } else { Duration::from_millis(3 * ivl_ms + 1000) };
  let t0 = Instant::now();
  let mut closed: Option<Duration> = None;
  let mut sent_bytes = 0usize;
  match mode {
    "silent" => {
      closed = raw.wait_closed(bound).await;
    }
    "greeting_then_silence" => {
      let _ = raw.write_all(&greeting).await;
      closed = raw.wait_closed(bound).await;
    }
    _ => {
      // drip: one byte every `gap` (just inside each read timeout), never finishing
      let gap = Duration::from_millis(if default_ivl { 3000 } else if mode == "drip_fast" { ivl_ms / 4 } else { ivl_ms * 3 / 5 });
      let mut stream = greeting.clone();
      // an endless READY-looking command: declare a long command frame and keep feeding it
      stream.push(0x06);
      stream.extend_from_slice(&(1_000_000u64).to_be_bytes());
      stream.extend(std::iter::repeat(0x41u8).take(100_000));
      while t0.elapsed() < bound {
        if raw.write_all(&stream[sent_bytes..sent_bytes + 1]).await.is_err() {
          closed = Some(t0.elapsed());
          break;
        }
        sent_bytes += 1;
        if let Some(d) = raw.wait_closed(gap).await {
          let _ = d;
          closed = Some(t0.elapsed());
          break;
        }
      }
    }
  }
  rep.case(&("pacing", mode, ivl_ms), true);
  match closed {
    Some(d) => rep.max(&format!("max:handshake_disconnect_ms[{}{}]", mode, if default_ivl { ",default interval" } else { "" }), d.as_millis() as u64),
    None => rep.violation(
      format!("handshake_never_times_out|{}{}", mode, if default_ivl { "|default_ivl" } else { "" }),
      format!("a peer that never completes the handshake ({}; {} bytes sent) was still connected after {:?} with HANDSHAKE_IVL={}", mode, sent_bytes, bound, if default_ivl { "left at its default".to_string() } else { format!("{}ms", ivl_ms) }),
      json!({"mode": mode, "handshake_ivl_ms": ivl_ms, "observed_for_ms": bound.as_millis() as u64, "bytes_sent": sent_bytes}),
    ),
  }
  drop(raw);
  let _ = tokio::time::timeout(Duration::from_secs(12), ctx.term()).await;
}

/// MAX_CONNECTIONS=2, two stalled peers, then an honest third peer must be served once they
/// time out (slot release).
async fn slot_release_case(rep: &mut Report) {
  let ctx = util::new_ctx();
  let pull = ctx.socket(SocketType::Pull).unwrap();
  util::set_i32(&pull, opt::HANDSHAKE_IVL, 500).await;
  util::set_i32(&pull, opt::MAX_CONNECTIONS, 2).await;
  util::set_i32(&pull, opt::RCVTIMEO, 6000).await;
  let ep = util::bind_fresh(&pull, util::Transport::Tcp).await.unwrap();
  let mut stalled = vec![];
  for _ in 0..2 {
    if let Ok(mut r) = RawStream::connect(&ep).await {
      let _ = r.write_all(&refzmtp::greeting_v3(0, "NULL", false)[..30]).await;
      stalled.push(r);
    }
  }
  tokio::time::sleep(Duration::from_millis(100)).await;
  let push = ctx.socket(SocketType::Push).unwrap();
  util::set_i32(&push, opt::SNDTIMEO, 6000).await;
  util::set_i32(&push, opt::RECONNECT_IVL, 100).await;
  push.connect(&ep).await.unwrap();
  let _ = push.send(util::msg(b"after-stall".to_vec(), false)).await;
  let got = pull.recv().await;
  rep.case(&("slot_release", 2), true);
  if !matches!(&got, Ok(m) if m.data() == Some(b"after-stall")) {
    rep.violation("connection_slot_not_released".to_string(), format!("with MAX_CONNECTIONS=2 and two peers stalled in the handshake (HANDSHAKE_IVL=500ms), an honest third peer was not served within 6 s: {:?}", got.map(|m| m.size())), json!({}));
  }
  drop(stalled);
  let _ = tokio::time::timeout(Duration::from_secs(12), ctx.term()).await;
}

fn main() {
  let args = Args::parse();
  util::install_panic_watch();
  let mut rep = Report::new("C07", &args.shard_name());
  let mut rng = Rng::new(args.seed.wrapping_mul(49979687).wrapping_add(args.shard as u64));
  match args.only.as_deref() {
    Some("limits") => limits_layer(&mut rep, &args, &mut rng),
    Some("session") => {
      let rt = util::runtime(2);
      let n = if args.thorough() { 48 } else { 8 };
      for i in 0..n {
        if !args.mine(i) {
          continue;
        }
        let t = if i % 3 == 2 { util::Transport::Ipc } else { util::Transport::Tcp };
        rt.block_on(session_case(&mut rep, &mut rng, t, i));
      }
      util::cleanup_ipc_dir();
    }
    Some("pacing") => {
      let rt = util::runtime(2);
      let modes = ["silent", "greeting_then_silence", "drip_slow", "drip_fast"];
      for (i, m) in modes.iter().enumerate() {
        if args.mine(i) {
          rt.block_on(pacing_case(&mut rep, m, 500));
        }
      }
      if args.mine(4) {
        rt.block_on(slot_release_case(&mut rep));
      }
      // the same with HANDSHAKE_IVL left at its default
      if args.mine(5) {
        rt.block_on(pacing_case(&mut rep, "drip_slow", 0));
      }
      if args.mine(6) {
        rt.block_on(pacing_case(&mut rep, "greeting_then_silence", 0));
      }
    }
    _ => engine_layer(&mut rep, &args, &mut rng),
  }
  report_panics(&mut rep, "end of shard");
  rep.merge_hooks();
  rep.emit();
}

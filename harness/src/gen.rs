//! Seeded PRNG (SplitMix64) and boundary-biased generators. All randomness in the harness
//! derives from VERIF_SEED through this type, so every shard is replayable.

#[derive(Clone, Debug)]
pub struct Rng(pub u64);

impl Rng {
  pub fn new(seed: u64) -> Self {
    Rng(seed ^ 0x5DEE_CE66_D1CE_4E5B)
  }
  /// Derive an independent stream.
  pub fn fork(&mut self, tag: u64) -> Rng {
    let a = self.next();
    Rng(a ^ tag.wrapping_mul(0x9E37_79B9_7F4A_7C15))
  }
  pub fn next(&mut self) -> u64 {
    self.0 = self.0.wrapping_add(0x9E37_79B9_7F4A_7C15);
    let mut z = self.0;
    z = (z ^ (z >> 30)).wrapping_mul(0xBF58_476D_1CE4_E5B9);
    z = (z ^ (z >> 27)).wrapping_mul(0x94D0_49BB_1331_11EB);
    z ^ (z >> 31)
  }
  pub fn below(&mut self, n: u64) -> u64 {
    if n == 0 {
      0
    } else {
      self.next() % n
    }
  }
  pub fn range(&mut self, lo: usize, hi_incl: usize) -> usize {
    lo + self.below((hi_incl - lo + 1) as u64) as usize
  }
  pub fn chance(&mut self, num: u64, den: u64) -> bool {
    self.below(den) < num
  }
  pub fn pick<'a, T>(&mut self, xs: &'a [T]) -> &'a T {
    &xs[self.below(xs.len() as u64) as usize]
  }
  pub fn bytes(&mut self, n: usize) -> Vec<u8> {
    let mut v = Vec::with_capacity(n);
    while v.len() < n {
      let x = self.next().to_le_bytes();
      let take = (n - v.len()).min(8);
      v.extend_from_slice(&x[..take]);
    }
    v
  }
  pub fn bytes_in(&mut self, lo: usize, hi_incl: usize) -> Vec<u8> {
    let n = self.range(lo, hi_incl);
    self.bytes(n)
  }
  pub fn cuts_in(&mut self, len: usize, lo: usize, hi_incl: usize) -> Vec<usize> {
    let n = self.range(lo, hi_incl);
    self.cuts(len, n)
  }
  pub fn shuffle<T>(&mut self, xs: &mut [T]) {
    for i in (1..xs.len()).rev() {
      let j = self.below((i + 1) as u64) as usize;
      xs.swap(i, j);
    }
  }
  /// Frame sizes biased to the ZMTP header and batching boundaries.
  pub fn frame_size(&mut self, max: usize) -> usize {
    const B: [usize; 14] = [0, 1, 2, 32, 100, 254, 255, 256, 257, 1000, 4096, 65535, 65536, 70000];
    let s = if self.chance(3, 5) { *self.pick(&B) } else { self.range(0, 2000) };
    s.min(max)
  }
  /// Random cut points (sorted, distinct, inside 1..len).
  pub fn cuts(&mut self, len: usize, n: usize) -> Vec<usize> {
    if len < 2 {
      return vec![];
    }
    let mut v: Vec<usize> = (0..n).map(|_| self.range(1, len - 1)).collect();
    v.sort_unstable();
    v.dedup();
    v
  }
}

pub fn fnv64(data: &[u8]) -> u64 {
  let mut h: u64 = 0xcbf2_9ce4_8422_2325;
  for b in data {
    h ^= *b as u64;
    h = h.wrapping_mul(0x0000_0100_0000_01B3);
  }
  h
}

pub fn fnv64_str(s: &str) -> u64 {
  fnv64(s.as_bytes())
}

/// Split `data` at the given cut offsets.
pub fn split_at_cuts(data: &[u8], cuts: &[usize]) -> Vec<Vec<u8>> {
  let mut out = Vec::new();
  let mut prev = 0;
  for &c in cuts {
    if c > prev && c < data.len() {
      out.push(data[prev..c].to_vec());
      prev = c;
    }
  }
  out.push(data[prev..].to_vec());
  out
}

//! Raw byte-level peers (tcp / unix) that play transcripts with exact write boundaries.

use std::time::Duration;
use tokio::io::{AsyncReadExt, AsyncWriteExt};
use tokio::net::{TcpListener, TcpStream, UnixListener, UnixStream};

pub enum RawStream {
  Tcp(TcpStream),
  Unix(UnixStream),
}

impl RawStream {
  /// `ep` is an rzmq endpoint string: tcp://host:port or ipc://path
  pub async fn connect(ep: &str) -> std::io::Result<RawStream> {
    if let Some(addr) = ep.strip_prefix("tcp://") {
      let s = TcpStream::connect(addr).await?;
      s.set_nodelay(true)?;
      Ok(RawStream::Tcp(s))
    } else if let Some(path) = ep.strip_prefix("ipc://") {
      Ok(RawStream::Unix(UnixStream::connect(path).await?))
    } else {
      Err(std::io::Error::new(std::io::ErrorKind::InvalidInput, "unsupported endpoint"))
    }
  }

  pub async fn write_all(&mut self, data: &[u8]) -> std::io::Result<()> {
    match self {
      RawStream::Tcp(s) => {
        s.write_all(data).await?;
        s.flush().await
      }
      RawStream::Unix(s) => {
        s.write_all(data).await?;
        s.flush().await
      }
    }
  }

  /// Write segments as separate writes; `pause` between them (0 = back-to-back).
  pub async fn write_segments(&mut self, segs: &[Vec<u8>], pause: Duration) -> std::io::Result<()> {
    for (i, s) in segs.iter().enumerate() {
      if s.is_empty() {
        continue;
      }
      self.write_all(s).await?;
      if !pause.is_zero() && i + 1 < segs.len() {
        tokio::time::sleep(pause).await;
      }
    }
    Ok(())
  }

  /// Read whatever arrives within `dur` (or until EOF / `want` bytes). Returns (bytes, eof).
  pub async fn read_for(&mut self, dur: Duration, want: usize) -> (Vec<u8>, bool) {
    let mut out = Vec::new();
    let end = tokio::time::Instant::now() + dur;
    let mut buf = vec![0u8; 65536];
    loop {
      if want != 0 && out.len() >= want {
        return (out, false);
      }
      let r = tokio::time::timeout_at(end, async {
        match self {
          RawStream::Tcp(s) => s.read(&mut buf).await,
          RawStream::Unix(s) => s.read(&mut buf).await,
        }
      })
      .await;
      match r {
        Err(_) => return (out, false),
        Ok(Ok(0)) => return (out, true),
        Ok(Ok(n)) => out.extend_from_slice(&buf[..n]),
        Ok(Err(_)) => return (out, true),
      }
    }
  }

  /// Wait until the peer closes (EOF / reset) or `dur` elapses. Returns Some(elapsed) if closed.
  pub async fn wait_closed(&mut self, dur: Duration) -> Option<Duration> {
    let t0 = std::time::Instant::now();
    let end = tokio::time::Instant::now() + dur;
    let mut buf = vec![0u8; 65536];
    loop {
      let r = tokio::time::timeout_at(end, async {
        match self {
          RawStream::Tcp(s) => s.read(&mut buf).await,
          RawStream::Unix(s) => s.read(&mut buf).await,
        }
      })
      .await;
      match r {
        Err(_) => return None,
        Ok(Ok(0)) | Ok(Err(_)) => return Some(t0.elapsed()),
        Ok(Ok(_)) => {}
      }
    }
  }

  pub fn set_linger0(&self) {
    if let RawStream::Tcp(s) = self {
      let _ = s.set_linger(Some(Duration::ZERO));
    }
  }

  pub async fn shutdown_write(&mut self) {
    match self {
      RawStream::Tcp(s) => {
        let _ = s.shutdown().await;
      }
      RawStream::Unix(s) => {
        let _ = s.shutdown().await;
      }
    }
  }
}

pub enum RawListener {
  Tcp(TcpListener),
  Unix(UnixListener, String),
}

impl RawListener {
  pub async fn bind_tcp() -> std::io::Result<(RawListener, String)> {
    let l = TcpListener::bind("127.0.0.1:0").await?;
    let ep = format!("tcp://{}", l.local_addr()?);
    Ok((RawListener::Tcp(l), ep))
  }
  pub async fn bind_tcp_port(port: u16) -> std::io::Result<(RawListener, String)> {
    let l = TcpListener::bind(("127.0.0.1", port)).await?;
    let ep = format!("tcp://{}", l.local_addr()?);
    Ok((RawListener::Tcp(l), ep))
  }
  pub async fn bind_unix(path: &str) -> std::io::Result<(RawListener, String)> {
    let _ = std::fs::remove_file(path);
    let l = UnixListener::bind(path)?;
    Ok((RawListener::Unix(l, path.to_string()), format!("ipc://{}", path)))
  }
  pub async fn accept(&self) -> std::io::Result<RawStream> {
    match self {
      RawListener::Tcp(l) => {
        let (s, _) = l.accept().await?;
        s.set_nodelay(true)?;
        Ok(RawStream::Tcp(s))
      }
      RawListener::Unix(l, _) => {
        let (s, _) = l.accept().await?;
        Ok(RawStream::Unix(s))
      }
    }
  }
}

impl Drop for RawListener {
  fn drop(&mut self) {
    if let RawListener::Unix(_, p) = self {
      let _ = std::fs::remove_file(p);
    }
  }
}

//! Self-describing payloads: every frame identifies the send it came from and is checked
//! byte-exactly on receipt.
//!
//! Layout (HDR = 40 bytes): magic u32 | run u32 | sender u32 | seq u32 | idx u16 | cnt u16 |
//! body_len u32 | dest u32 | fnv64(body) u64 | reserved u32 ; then `body_len` PRNG bytes keyed by
//! (run, sender, seq, idx). Frames shorter than HDR cannot carry the header: a "tiny" frame is
//! `len` bytes of the pattern (seq*31 + idx*7 + i) and is identified positionally by the oracle.

use crate::gen::{fnv64, Rng};

pub const MAGIC: u32 = 0x565A_4D51; // "VZMQ"
pub const HDR: usize = 40;

#[derive(Clone, Copy, Debug, PartialEq, Eq, Hash)]
pub struct FrameId {
  pub run: u32,
  pub sender: u32,
  pub seq: u32,
  pub idx: u16,
  pub cnt: u16,
  pub dest: u32,
}

fn body_stream(id: &FrameId, n: usize) -> Vec<u8> {
  let mut r = Rng(((id.run as u64) << 32 | id.sender as u64) ^ ((id.seq as u64) << 20) ^ (id.idx as u64) ^ 0xA5A5_0000_0000);
  r.bytes(n)
}

/// Build a frame of exactly `total_len` bytes (>= HDR) describing `id`.
pub fn make_frame(id: FrameId, total_len: usize) -> Vec<u8> {
  assert!(total_len >= HDR);
  let body_len = total_len - HDR;
  let body = body_stream(&id, body_len);
  let mut v = Vec::with_capacity(total_len);
  v.extend_from_slice(&MAGIC.to_be_bytes());
  v.extend_from_slice(&id.run.to_be_bytes());
  v.extend_from_slice(&id.sender.to_be_bytes());
  v.extend_from_slice(&id.seq.to_be_bytes());
  v.extend_from_slice(&id.idx.to_be_bytes());
  v.extend_from_slice(&id.cnt.to_be_bytes());
  v.extend_from_slice(&(body_len as u32).to_be_bytes());
  v.extend_from_slice(&id.dest.to_be_bytes());
  v.extend_from_slice(&fnv64(&body).to_be_bytes());
  v.extend_from_slice(&0u32.to_be_bytes());
  v.extend_from_slice(&body);
  v
}

pub fn tiny_frame(seq: u32, idx: u16, len: usize) -> Vec<u8> {
  (0..len).map(|i| (seq.wrapping_mul(31).wrapping_add(idx as u32 * 7).wrapping_add(i as u32)) as u8).collect()
}

#[derive(Debug, Clone, PartialEq, Eq)]
pub enum Parsed {
  /// Valid self-describing frame.
  Ok(FrameId),
  /// Shorter than a header (positional check only).
  Tiny(usize),
  /// Has the size of a described frame but fails validation: corruption/truncation.
  Corrupt(String),
}

pub fn parse_frame(data: &[u8]) -> Parsed {
  if data.len() < HDR {
    return Parsed::Tiny(data.len());
  }
  let u32at = |o: usize| u32::from_be_bytes([data[o], data[o + 1], data[o + 2], data[o + 3]]);
  let u16at = |o: usize| u16::from_be_bytes([data[o], data[o + 1]]);
  if u32at(0) != MAGIC {
    return Parsed::Corrupt(format!("bad magic {:08x} len={}", u32at(0), data.len()));
  }
  let id = FrameId { run: u32at(4), sender: u32at(8), seq: u32at(12), idx: u16at(16), cnt: u16at(18), dest: u32at(24) };
  let body_len = u32at(20) as usize;
  if data.len() != HDR + body_len {
    return Parsed::Corrupt(format!("declared body {} but frame has {} bytes ({:?})", body_len, data.len() - HDR, id));
  }
  let mut sum = [0u8; 8];
  sum.copy_from_slice(&data[28..36]);
  let body = &data[HDR..];
  if u64::from_be_bytes(sum) != fnv64(body) {
    return Parsed::Corrupt(format!("checksum mismatch {:?}", id));
  }
  if body != body_stream(&id, body_len).as_slice() {
    return Parsed::Corrupt(format!("body not the keyed stream {:?}", id));
  }
  Parsed::Ok(id)
}

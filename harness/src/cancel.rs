//! `CancelAfter`: poll a future and drop it at its n-th `Pending`.
use std::future::Future;
use std::pin::Pin;
use std::task::{Context, Poll};

pub struct CancelAfter<F: Future> {
  fut: Option<Pin<Box<F>>>,
  /// drop at the n-th Pending (1-based); 0 = never cancel (just count)
  n: usize,
  pub pendings: usize,
}

pub enum CancelOutcome<T> {
  Completed(T, usize),
  Cancelled(usize),
}

impl<F: Future> CancelAfter<F> {
  pub fn new(f: F, n: usize) -> Self {
    CancelAfter { fut: Some(Box::pin(f)), n, pendings: 0 }
  }
}

impl<F: Future> Future for CancelAfter<F> {
  type Output = CancelOutcome<F::Output>;
  fn poll(mut self: Pin<&mut Self>, cx: &mut Context<'_>) -> Poll<Self::Output> {
    let this = &mut *self;
    let fut = this.fut.as_mut().expect("polled after completion");
    match fut.as_mut().poll(cx) {
      Poll::Ready(v) => {
        this.fut = None;
        Poll::Ready(CancelOutcome::Completed(v, this.pendings))
      }
      Poll::Pending => {
        this.pendings += 1;
        if this.n != 0 && this.pendings >= this.n {
          this.fut = None; // drop the inner future here: this is the cancellation
          Poll::Ready(CancelOutcome::Cancelled(this.pendings))
        } else {
          Poll::Pending
        }
      }
    }
  }
}

impl<F: Future> Unpin for CancelAfter<F> {}


// ---------------------------------------------------------------------------------------------
// CancelOnWake: poll the future, and once its waker has been invoked `k` times drop it WITHOUT
// polling it again - what `tokio::select!` does when another branch wins after this future was
// already notified. This is the window in which a consumed notification / a taken item is lost.
// ---------------------------------------------------------------------------------------------

use std::sync::atomic::{AtomicUsize, Ordering};
use std::sync::Arc;
use std::task::{Wake, Waker};

struct CountingWaker {
  wakes: AtomicUsize,
  outer: parking_lot::Mutex<Option<Waker>>,
}

impl Wake for CountingWaker {
  fn wake(self: Arc<Self>) {
    self.wake_by_ref()
  }
  fn wake_by_ref(self: &Arc<Self>) {
    self.wakes.fetch_add(1, Ordering::SeqCst);
    if let Some(w) = self.outer.lock().as_ref() {
      w.wake_by_ref();
    }
  }
}

pub struct CancelOnWake<F: Future> {
  fut: Option<Pin<Box<F>>>,
  k: usize,
  cw: Arc<CountingWaker>,
  pub pendings: usize,
}

impl<F: Future> CancelOnWake<F> {
  /// Drop the future as soon as it has been woken `k` times (k >= 1) after returning Pending.
  pub fn new(f: F, k: usize) -> Self {
    CancelOnWake { fut: Some(Box::pin(f)), k: k.max(1), cw: Arc::new(CountingWaker { wakes: AtomicUsize::new(0), outer: parking_lot::Mutex::new(None) }), pendings: 0 }
  }
}

impl<F: Future> Unpin for CancelOnWake<F> {}

impl<F: Future> Future for CancelOnWake<F> {
  type Output = CancelOutcome<F::Output>;
  fn poll(mut self: Pin<&mut Self>, cx: &mut Context<'_>) -> Poll<Self::Output> {
    let this = &mut *self;
    *this.cw.outer.lock() = Some(cx.waker().clone());
    if this.pendings > 0 && this.cw.wakes.load(Ordering::SeqCst) >= this.k {
      // notified k times: another select! branch "wins" - drop without polling
      this.fut = None;
      return Poll::Ready(CancelOutcome::Cancelled(this.pendings));
    }
    let waker = Waker::from(this.cw.clone());
    let mut icx = Context::from_waker(&waker);
    let fut = this.fut.as_mut().expect("polled after completion");
    match fut.as_mut().poll(&mut icx) {
      Poll::Ready(v) => {
        this.fut = None;
        Poll::Ready(CancelOutcome::Completed(v, this.pendings))
      }
      Poll::Pending => {
        this.pendings += 1;
        if this.cw.wakes.load(Ordering::SeqCst) >= this.k {
          // woken during the poll itself: cancel right away
          this.fut = None;
          return Poll::Ready(CancelOutcome::Cancelled(this.pendings));
        }
        Poll::Pending
      }
    }
  }
}

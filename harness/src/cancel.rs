//! `CancelAfter`: poll a future and drop it at its n-th `Pending`.
use std::future::Future;
use std::pin::Pin;
use std::task::{Context, Poll};

pub struct CancelAfter<F: Future> {
  fut: Option<Pin<Box<F>>>,
  /// drop at the n-th Pending (1-based); 0 = never cancel (just count)
  n: usize,
  pub pendings: usize,
}

pub enum CancelOutcome<T> {
  Completed(T, usize),
  Cancelled(usize),
}

impl<F: Future> CancelAfter<F> {
  pub fn new(f: F, n: usize) -> Self {
    CancelAfter { fut: Some(Box::pin(f)), n, pendings: 0 }
  }
}

impl<F: Future> Future for CancelAfter<F> {
  type Output = CancelOutcome<F::Output>;
  fn poll(mut self: Pin<&mut Self>, cx: &mut Context<'_>) -> Poll<Self::Output> {
    let this = &mut *self;
    let fut = this.fut.as_mut().expect("polled after completion");
    match fut.as_mut().poll(cx) {
      Poll::Ready(v) => {
        this.fut = None;
        Poll::Ready(CancelOutcome::Completed(v, this.pendings))
      }
      Poll::Pending => {
        this.pendings += 1;
        if this.n != 0 && this.pendings >= this.n {
          this.fut = None; // drop the inner future here: this is the cancellation
          Poll::Ready(CancelOutcome::Cancelled(this.pendings))
        } else {
          Poll::Pending
        }
      }
    }
  }
}

impl<F: Future> Unpin for CancelAfter<F> {}

#!/bin/bash
# usage: tools_san_try.sh <flavour> <bin> [args...]  — run one shard under a sanitizer flavour and summarise (developer aid)
FL=$1; BIN=$2; shift 2
LOG=$(mktemp /tmp/san_try.XXXXXX)
export VH_SLOW=${VH_SLOW:-10}
export TSAN_OPTIONS="halt_on_error=0 exitcode=0 second_deadlock_stack=1 report_signal_unsafe=0 history_size=4"
export ASAN_OPTIONS="halt_on_error=1:abort_on_error=0:detect_leaks=0"
S=$(date +%s)
timeout 1500 /verif/target/$FL/x86_64-unknown-linux-gnu/debug/$BIN --tier quick --seed 1 "$@" >$LOG.out 2>$LOG
RC=$?
echo "rc=$RC wall=$(( $(date +%s) - S ))s"
python3 /verif/sanparse.py $LOG | cut -c1-300
tail -1 $LOG.out | python3 -c "
import sys,json
l=sys.stdin.read().strip()
if l.startswith('VH-RESULT'):
    j=json.loads(l[len('VH-RESULT '):])
    print('evals',j['evaluations'],'viol',[v['sig'] for v in j['violations']][:6],'inconcl',j['inconclusive'][:3])
else: print('no result line')"
rm -f $LOG $LOG.out
